(* InvSupply.v — property C02: conservation of value.
   supply = all balances + 10^18 * (bonded power + unbonding power).  Per-operation accounting
   (S1 deliver, S2 begin_block, S3 end_block, S4 commit), the history theorem and the refutation
   by the genesis-hash collision. *)
From Rigo Require Import Base.
From stdpp Require Import gmap sorting.
From Rigo Require Import Spec SpecProps InvFee.
Local Open Scope Z_scope.

Local Opaque two256 two255 two64 two63.
Local Arguments Z.pow : simpl never.

(* ================================================================== sums over maps *)
Lemma sumZ_with_app {A} (f : A -> Z) l k : sumZ_with f (l ++ k) = sumZ_with f l + sumZ_with f k.
Proof. induction l as [|x l IH]; simpl; [lia|]. rewrite IH. lia. Qed.

Lemma sumZ_with_perm {A} (f : A -> Z) l k : l ≡ₚ k -> sumZ_with f l = sumZ_with f k.
Proof. induction 1 as [|x l k _ IH|x y l|l k m _ IH1 _ IH2]; simpl; lia. Qed.

Lemma sumZ_with_ext {A} (f g : A -> Z) l : (forall x, x ∈ l -> f x = g x) -> sumZ_with f l = sumZ_with g l.
Proof.
  induction l as [|x l IH]; intros H; simpl; [reflexivity|].
  rewrite (H x) by (apply elem_of_cons; auto). rewrite IH; [reflexivity|].
  intros y Hy. apply H. apply elem_of_cons. auto.
Qed.

Definition map_sum {A} (f : A -> Z) (m : gmap N A) : Z := sumZ_with (fun kv : N * A => f kv.2) (map_to_list m).

Lemma map_sum_empty {A} (f : A -> Z) : map_sum f ∅ = 0.
Proof. unfold map_sum. rewrite map_to_list_empty. reflexivity. Qed.

Lemma map_sum_insert_None {A} (f : A -> Z) m i x : m !! i = None -> map_sum f (<[i := x]> m) = map_sum f m + f x.
Proof.
  intros H. unfold map_sum. rewrite (sumZ_with_perm _ _ _ (map_to_list_insert m i x H)). simpl. lia.
Qed.

Lemma map_sum_delete_Some {A} (f : A -> Z) m i x : m !! i = Some x -> map_sum f (delete i m) = map_sum f m - f x.
Proof.
  intros H. unfold map_sum. rewrite <- (sumZ_with_perm _ _ _ (map_to_list_delete m i x H)). simpl. lia.
Qed.

Lemma map_sum_delete {A} (f : A -> Z) m i : map_sum f (delete i m) = map_sum f m - from_option f 0 (m !! i).
Proof.
  destruct (m !! i) as [x|] eqn:E; simpl.
  - apply map_sum_delete_Some. exact E.
  - rewrite delete_notin by exact E. lia.
Qed.

Lemma map_sum_insert {A} (f : A -> Z) m i x :
  map_sum f (<[i := x]> m) = map_sum f m - from_option f 0 (m !! i) + f x.
Proof.
  rewrite <- insert_delete_insert. rewrite map_sum_insert_None by apply lookup_delete.
  rewrite map_sum_delete. reflexivity.
Qed.

Lemma map_sum_nonneg {A} (f : A -> Z) m : (forall i x, m !! i = Some x -> 0 <= f x) -> 0 <= map_sum f m.
Proof.
  intros H. unfold map_sum.
  assert (G : forall kv, kv ∈ map_to_list m -> 0 <= f kv.2).
  { intros [i x] Hin. apply elem_of_map_to_list in Hin. apply (H i x Hin). }
  induction (map_to_list m) as [|kv l IH]; simpl; [lia|].
  assert (0 <= f kv.2) by (apply G, elem_of_cons; auto).
  assert (0 <= sumZ_with (fun kv : N * A => f kv.2) l) by (apply IH; intros kv' Hk; apply G, elem_of_cons; auto).
  lia.
Qed.

Lemma map_sum_lookup_le {A} (f : A -> Z) m i x :
  (forall j y, m !! j = Some y -> 0 <= f y) -> m !! i = Some x -> f x <= map_sum f m.
Proof.
  intros H Hi. pose proof (map_sum_delete_Some f m i x Hi) as Hd.
  assert (0 <= map_sum f (delete i m)).
  { apply map_sum_nonneg. intros j y Hj. apply lookup_delete_Some in Hj as (_ & Hj). apply (H j y Hj). }
  lia.
Qed.

(* the three parts of [supply] as map sums *)
Lemma sum_power_app l k : sum_power (l ++ k) = sum_power l + sum_power k.
Proof. induction l as [|s l IH]; simpl; [lia|]. unfold sum_power in *. simpl. rewrite IH. lia. Qed.

Lemma sum_power_cons s l : sum_power (s :: l) = s_power s + sum_power l.
Proof. reflexivity. Qed.

Lemma sum_power_perm l k : l ≡ₚ k -> sum_power l = sum_power k.
Proof. induction 1 as [|x l k _ IH|x y l|l k m _ IH1 _ IH2]; rewrite ?sum_power_cons in *; lia. Qed.

Lemma foldr_uncurry_sum {K A} (f : A -> Z) (r : list (K * A)) :
  foldr (uncurry (fun (_ : K) (a : A) (acc : Z) => f a + acc)) 0 r = sumZ_with (fun kv : K * A => f kv.2) r.
Proof. induction r as [|[k v] r IH]; simpl; [reflexivity|]. rewrite IH. reflexivity. Qed.

Lemma total_balance_map_sum l : total_balance l = map_sum a_bal (accts l).
Proof. unfold total_balance, map_sum, map_fold, compose. apply (foldr_uncurry_sum a_bal). Qed.

Lemma sum_power_concat {A} (g : A -> list stake) (r : list A) :
  sum_power (concat (g <$> r)) = sumZ_with (fun x => sum_power (g x)) r.
Proof. induction r as [|x r IH]; [reflexivity|]. rewrite fmap_cons. cbn [concat]. rewrite sum_power_app, IH. reflexivity. Qed.

Lemma sum_power_fmap {A} (g : A -> stake) (r : list A) :
  sum_power (g <$> r) = sumZ_with (fun x => s_power (g x)) r.
Proof. induction r as [|x r IH]; [reflexivity|]. rewrite fmap_cons, sum_power_cons, IH. reflexivity. Qed.

Lemma bonded_power_map_sum l : bonded_power l = map_sum (fun d => sum_power (d_stakes d)) (dels l).
Proof.
  unfold bonded_power, bonded_stakes, map_sum.
  apply (sum_power_concat (fun kv : addr * delegatee => d_stakes kv.2)).
Qed.

Lemma frozen_power_map_sum l : frozen_power l = map_sum s_power (frozen l).
Proof.
  unfold frozen_power, frozen_stakes, map_sum.
  apply (sum_power_fmap (fun kv : hash * stake => kv.2)).
Qed.

Lemma bal_of_from_option l a : bal_of l a = from_option a_bal 0 (accts l !! a).
Proof. unfold bal_of, acct_of. destruct (accts l !! a); reflexivity. Qed.

Lemma total_balance_set_acct l a x : total_balance (set_acct l a x) = total_balance l - bal_of l a + a_bal x.
Proof. rewrite !total_balance_map_sum, accts_set_acct, map_sum_insert, bal_of_from_option. reflexivity. Qed.

Lemma total_balance_same l l' : accts l' = accts l -> total_balance l' = total_balance l.
Proof. intros H. unfold total_balance. rewrite H. reflexivity. Qed.
Lemma bonded_power_same l l' : dels l' = dels l -> bonded_power l' = bonded_power l.
Proof. intros H. unfold bonded_power, bonded_stakes. rewrite H. reflexivity. Qed.
Lemma frozen_power_same l l' : frozen l' = frozen l -> frozen_power l' = frozen_power l.
Proof. intros H. unfold frozen_power, frozen_stakes. rewrite H. reflexivity. Qed.

Lemma supply_same_money l l' : same_money l l' -> supply l' = supply l.
Proof.
  intros (Ha & Hd & Hf & _). unfold supply.
  rewrite (total_balance_same _ _ Ha), (bonded_power_same _ _ Hd), (frozen_power_same _ _ Hf). reflexivity.
Qed.

Lemma total_balance_find_or_new l a : total_balance (find_or_new l a).1 = total_balance l.
Proof.
  unfold find_or_new. destruct (accts l !! a) as [x|] eqn:E; simpl; [reflexivity|].
  rewrite total_balance_set_acct, bal_of_from_option, E. simpl. lia.
Qed.

Lemma supply_find_or_new l a : supply (find_or_new l a).1 = supply l.
Proof.
  unfold supply. rewrite total_balance_find_or_new.
  destruct (find_or_new_spec l a) as (_ & _ & _ & _ & _ & Hd & Hf & _).
  rewrite (bonded_power_same _ _ Hd), (frozen_power_same _ _ Hf). reflexivity.
Qed.

Lemma bal_le_total l a : bal_range l -> bal_of l a <= total_balance l.
Proof.
  intros Hr. rewrite total_balance_map_sum, bal_of_from_option.
  destruct (accts l !! a) as [x|] eqn:E; simpl.
  - apply map_sum_lookup_le with a; [|exact E]. intros j y Hj. apply (Hr j y Hj).
  - apply map_sum_nonneg. intros j y Hj. apply (Hr j y Hj).
Qed.

(* two distinct accounts together hold at most the total *)
Lemma bal2_le_total l a b : bal_range l -> a <> b -> bal_of l a + bal_of l b <= total_balance l.
Proof.
  intros Hr Hne. rewrite total_balance_map_sum, !bal_of_from_option.
  assert (Hnn : forall m : gmap N account, (forall j y, m !! j = Some y -> 0 <= a_bal y) -> 0 <= map_sum a_bal m)
    by (intros m; apply map_sum_nonneg).
  destruct (accts l !! a) as [x|] eqn:Ea; simpl.
  - rewrite (Z.add_comm (a_bal x)). pose proof (map_sum_delete_Some a_bal _ _ _ Ea) as Hd.
    assert (Hb : accts l !! b = delete a (accts l) !! b) by (rewrite lookup_delete_ne by exact Hne; reflexivity).
    rewrite Hb.
    assert (from_option a_bal 0 (delete a (accts l) !! b) <= map_sum a_bal (delete a (accts l))).
    { assert (Hr' : forall j y, delete a (accts l) !! j = Some y -> 0 <= a_bal y).
      { intros j y Hj. apply lookup_delete_Some in Hj as (_ & Hj). apply (Hr j y Hj). }
      destruct (delete a (accts l) !! b) as [y|] eqn:Eb; simpl.
      - apply map_sum_lookup_le with b; assumption.
      - apply Hnn. exact Hr'. }
    unfold addr in *. lia.
  - assert (from_option a_bal 0 (accts l !! b) <= map_sum a_bal (accts l)); [|lia].
    destruct (accts l !! b) as [y|] eqn:Eb; simpl.
    + apply map_sum_lookup_le with b; [|exact Eb]. intros j z Hj. apply (Hr j z Hj).
    + apply Hnn. intros j z Hj. apply (Hr j z Hj).
Qed.

(* ================================================================== stake lists *)
Lemma find_stake_Some h l s0 :
  find_stake h l = Some s0 -> s_hash s0 = h /\ l ≡ₚ s0 :: remove_stake h l.
Proof.
  induction l as [|s l IH]; simpl; [discriminate|].
  destruct (s_hash s =? h)%N eqn:E.
  - intros [= <-]. apply N.eqb_eq in E. split; [exact E|reflexivity].
  - intros H. destruct (IH H) as (Hh & Hp). split; [exact Hh|].
    rewrite Hp at 1. apply perm_swap.
Qed.

Lemma sum_power_remove h l s0 : find_stake h l = Some s0 -> sum_power (remove_stake h l) = sum_power l - s_power s0.
Proof. intros H. apply find_stake_Some in H as (_ & Hp). rewrite (sum_power_perm _ _ Hp), sum_power_cons. lia. Qed.

Lemma del_stake_found d h s0 :
  find_stake h (d_stakes d) = Some s0 ->
  d_stakes (del_stake d h) = remove_stake h (d_stakes d) /\ d_total (del_stake d h) = d_total d - s_power s0.
Proof. intros H. unfold del_stake. rewrite H. simpl. auto. Qed.

(* freezing a list of stakes under fresh, pairwise distinct keys adds exactly their power *)
Lemma freeze_all_cons fr refund s ss :
  freeze_all fr refund (s :: ss) = freeze_all (<[s_hash s := with_refund refund s]> fr) refund ss.
Proof. reflexivity. Qed.

Lemma freeze_all_sum refund ss : forall fr,
  NoDup (s_hash <$> ss) -> (forall s, s ∈ ss -> fr !! s_hash s = None) ->
  map_sum s_power (freeze_all fr refund ss) = map_sum s_power fr + sum_power ss.
Proof.
  induction ss as [|s ss IH]; intros fr Hnd Hfresh.
  - unfold freeze_all. simpl. unfold sum_power. simpl. lia.
  - rewrite freeze_all_cons, fmap_cons in *. apply NoDup_cons in Hnd as (Hnotin & Hnd).
    rewrite IH; [|exact Hnd|].
    + rewrite map_sum_insert_None by (apply Hfresh, elem_of_cons; auto). rewrite sum_power_cons. simpl. lia.
    + intros s' Hs'. rewrite lookup_insert_ne.
      * apply Hfresh, elem_of_cons. auto.
      * intros Heq. apply Hnotin. rewrite Heq. apply elem_of_list_fmap. exists s'. auto.
Qed.

Lemma freeze_all_lookup_other refund ss : forall fr k,
  k ∉ (s_hash <$> ss) -> freeze_all fr refund ss !! k = fr !! k.
Proof.
  induction ss as [|s ss IH]; intros fr k Hk; [reflexivity|].
  rewrite freeze_all_cons, fmap_cons in *. apply not_elem_of_cons in Hk as (Hne & Hk).
  rewrite IH by exact Hk. apply lookup_insert_ne. congruence.
Qed.

(* ================================================================== what hashes_unique gives *)
Definition totals_ok (l : ledgers) : Prop :=
  forall a d, dels l !! a = Some d -> d_total d = sum_power (d_stakes d).

Lemma bonded_stakes_delete l a d :
  dels l !! a = Some d -> bonded_stakes l ≡ₚ d_stakes d ++ bonded_stakes (set_dels l (delete a (dels l))).
Proof.
  intros H. unfold bonded_stakes. rewrite dels_set_dels.
  rewrite <- (map_to_list_delete _ _ _ H). rewrite fmap_cons. reflexivity.
Qed.

Lemma hashes_unique_delegatee l a d :
  hashes_unique l -> dels l !! a = Some d ->
  NoDup (s_hash <$> d_stakes d) /\ (forall s, s ∈ d_stakes d -> frozen l !! s_hash s = None).
Proof.
  intros (Hnd & Hkey) Hd.
  rewrite (bonded_stakes_delete _ _ _ Hd) in Hnd. rewrite <- app_assoc, fmap_app in Hnd.
  apply NoDup_app in Hnd as (Hnd1 & Hdisj & _). split; [exact Hnd1|].
  intros s Hs. destruct (frozen l !! s_hash s) as [s1|] eqn:E; [|reflexivity]. exfalso.
  apply (Hdisj (s_hash s)); [apply elem_of_list_fmap; exists s; auto|].
  rewrite fmap_app. apply elem_of_app. right.
  apply elem_of_list_fmap. exists s1. split; [symmetry; apply (Hkey _ _ E)|].
  unfold frozen_stakes. apply elem_of_list_fmap. exists (s_hash s, s1). split; [reflexivity|].
  apply elem_of_map_to_list. exact E.
Qed.

Lemma hashes_unique_same l l' : dels l' = dels l -> frozen l' = frozen l -> hashes_unique l -> hashes_unique l'.
Proof. intros Hd Hf. unfold hashes_unique, bonded_stakes, frozen_stakes. rewrite Hd, Hf. auto. Qed.

Lemma totals_ok_same l l' : dels l' = dels l -> totals_ok l -> totals_ok l'.
Proof. intros Hd. unfold totals_ok. rewrite Hd. auto. Qed.

(* ================================================================== S1: deliver *)
Lemma amount_to_power_exact a p :
  0 <= a < two64 * amountPerPower -> amount_to_power a = Some p -> a mod amountPerPower = 0 ->
  0 <= p < two63 /\ a = p * amountPerPower.
Proof.
  intros Ha Hp Hm. unfold amount_to_power in Hp.
  assert (Happ : 0 < amountPerPower) by (unfold amountPerPower; lia).
  assert (Hq : 0 <= a / amountPerPower < two64).
  { split; [apply Z.div_pos; lia|]. apply Z.div_lt_upper_bound; lia. }
  rewrite (Z.mod_small _ _ Hq) in Hp.
  pose proof two63_two64 as H64. pose proof two64_pos.
  destruct (Z_lt_le_dec (a / amountPerPower) two63) as [Hlt|Hge].
  - rewrite wrap64_small in Hp by (unfold in64; lia).
    destruct (a / amountPerPower <? 0); [discriminate|]. injection Hp as <-.
    split; [lia|]. pose proof (Z.div_mod a amountPerPower ltac:(lia)). lia.
  - exfalso. unfold wrap64 in Hp.
    replace (a / amountPerPower + two63) with ((a / amountPerPower - two63) + 1 * two64) in Hp by lia.
    rewrite Z.mod_add, Z.mod_small in Hp by lia.
    destruct (a / amountPerPower - two63 - two63 <? 0) eqn:E; [discriminate|]. apply Z.ltb_ge in E. lia.
Qed.

Lemma stake_validate_staking_inv s1 t lim' :
  t_type t = TRX_STAKING -> stake_validate s1 t = Ok lim' ->
  t_amount t mod amountPerPower = 0 /\ exists txp, amount_to_power (t_amount t) = Some txp.
Proof.
  intros Hty. unfold stake_validate. rewrite Hty. change (TRX_STAKING =? TRX_STAKING) with true. cbv iota zeta.
  destruct (t_amount t / amountPerPower <=? 0); [discriminate|].
  destruct (t_amount t mod amountPerPower =? 0) eqn:Er; [|discriminate]. apply Z.eqb_eq in Er. cbn [negb].
  destruct (amount_to_power (t_amount t)) as [txp|]; [|discriminate].
  intros _. split; [exact Er|]. exists txp. reflexivity.
Qed.

Lemma validated_of_staking s1 r t lim' :
  t_type t = TRX_STAKING -> validated_of s1 r t = Ok lim' -> stake_validate s1 t = Ok lim'.
Proof. intros Hty. unfold validated_of. rewrite Hty. cbn. auto. Qed.

(* rewards withdrawn by a transaction *)
Definition withdrawn_of (t : tx) : Z :=
  if t_type t =? TRX_WITHDRAW then match t_payload t with PWithdraw req => req | _ => 0 end else 0.

Lemma supply_set_acct l a x : supply (set_acct l a x) = supply l - bal_of l a + a_bal x.
Proof. unfold supply. rewrite total_balance_set_acct. change (bonded_power (set_acct l a x)) with (bonded_power l).
  change (frozen_power (set_acct l a x)) with (frozen_power l). lia. Qed.

Lemma supply_set_rewards l m : supply (set_rewards l m) = supply l.   Proof. reflexivity. Qed.
Lemma supply_set_props l m : supply (set_props l m) = supply l.       Proof. reflexivity. Qed.
Lemma supply_set_fprops l m : supply (set_fprops l m) = supply l.     Proof. reflexivity. Qed.
Lemma supply_set_lparams l m : supply (set_lparams l m) = supply l.   Proof. reflexivity. Qed.

Lemma bonded_power_set_dels_insert l a d :
  bonded_power (set_dels l (<[a := d]> (dels l))) =
  bonded_power l - from_option (fun d0 => sum_power (d_stakes d0)) 0 (dels l !! a) + sum_power (d_stakes d).
Proof. rewrite !bonded_power_map_sum, dels_set_dels, map_sum_insert. reflexivity. Qed.

Lemma bonded_power_set_dels_delete l a :
  bonded_power (set_dels l (delete a (dels l))) =
  bonded_power l - from_option (fun d0 => sum_power (d_stakes d0)) 0 (dels l !! a).
Proof. rewrite !bonded_power_map_sum, dels_set_dels, map_sum_delete. reflexivity. Qed.

Lemma supply_parts l l' :
  total_balance l' = total_balance l -> bonded_power l' + frozen_power l' = bonded_power l + frozen_power l ->
  supply l' = supply l.
Proof. intros H1 H2. unfold supply. rewrite H1, H2. reflexivity. Qed.

(* unstaking: one stake (or, when the self power drops to 0, all stakes) of a delegatee moves
   into the frozen map; value is kept iff the keys are fresh — this is where the frozen MAP,
   keyed by hash, overwrites on collision *)
Lemma stake_execute_unstaking_supply s2 l t l' :
  t_type t = TRX_UNSTAKING -> stake_execute s2 l t = Ok l' ->
  hashes_unique l -> totals_ok l ->
  accts l' = accts l /\ bonded_power l' + frozen_power l' = bonded_power l + frozen_power l.
Proof.
  intros Hty He Hu Htot.
  pose proof (stake_execute_unstaking_accts _ _ _ _ Hty He) as (Hacc & _). split; [exact Hacc|].
  revert He. unfold stake_execute. rewrite Hty.
  change (TRX_UNSTAKING =? TRX_STAKING) with false. change (TRX_UNSTAKING =? TRX_UNSTAKING) with true. cbv iota zeta.
  destruct (dels l !! t_to t) as [d|] eqn:Ed; [|discriminate].
  destruct (t_payload t) as [|hs lenok| | | | |]; try discriminate.
  destruct (find_stake hs (d_stakes d)) as [s0|] eqn:Ef; [|discriminate].
  destruct (negb (s_from s0 =? t_from t)%N); [discriminate|].
  destruct (hashes_unique_delegatee _ _ _ Hu Ed) as (Hnd & Hfresh).
  unfold addr, hash in *.
  pose proof (find_stake_Some _ _ _ Ef) as (Hh & Hperm).
  destruct (del_stake_found _ _ _ Ef) as (Hst1 & Htot1).
  pose proof (Htot _ _ Ed) as Htd.
  pose proof (sum_power_remove _ _ _ Ef) as Hrem.
  (* hashes of s0 :: remaining stakes are distinct and fresh *)
  assert (Hnd' : NoDup (s_hash <$> (s0 :: remove_stake hs (d_stakes d)))) by (rewrite <- Hperm; exact Hnd).
  assert (Hfresh' : forall s, s ∈ s0 :: remove_stake hs (d_stakes d) -> frozen l !! s_hash s = None).
  { intros s Hs. apply Hfresh. rewrite Hperm. exact Hs. }
  rewrite fmap_cons in Hnd'. apply NoDup_cons in Hnd' as (Hnotin & Hnd').
  set (refund := b_height (bctx s2) + g_lazyRewardBlocks (gparams s2)).
  assert (Hfr1 : map_sum s_power (<[s_hash s0 := with_refund refund s0]> (frozen l)) = map_sum s_power (frozen l) + s_power s0).
  { rewrite map_sum_insert_None by (apply Hfresh', elem_of_cons; auto). reflexivity. }
  destruct (d_self (del_stake d hs) =? 0) eqn:Eself.
  - (* all remaining stakes are frozen too *)
    unfold del_all_stakes. cbn [d_total d_stakes].
    assert (Hfr2 : map_sum s_power (freeze_all (<[s_hash s0 := with_refund refund s0]> (frozen l)) refund (d_stakes (del_stake d hs)))
                   = map_sum s_power (frozen l) + sum_power (d_stakes d)).
    { rewrite Hst1, freeze_all_sum; [rewrite Hfr1; lia|exact Hnd'|].
      intros s Hs. rewrite lookup_insert_ne.
      - apply Hfresh', elem_of_cons. auto.
      - intros Heq. apply Hnotin. rewrite Heq. apply elem_of_list_fmap. exists s. auto. }
    destruct (d_total (del_stake d hs) - sum_power (d_stakes (del_stake d hs)) =? 0); intros [= Heq]; subst l'.
    + rewrite !bonded_power_map_sum, !frozen_power_map_sum. cbn [dels frozen set_dels set_frozen].
      rewrite map_sum_delete, Ed. cbn [from_option]. unfold addr, hash in *. rewrite Hfr2. lia.
    + rewrite !bonded_power_map_sum, !frozen_power_map_sum. cbn [dels frozen set_dels set_frozen].
      rewrite map_sum_insert, Ed. cbn [from_option d_stakes]. unfold addr, hash in *. rewrite Hfr2. change (sum_power []) with 0. lia.
  - destruct (d_total (del_stake d hs) =? 0) eqn:Et; intros [= Heq]; subst l'.
    + apply Z.eqb_eq in Et.
      rewrite !bonded_power_map_sum, !frozen_power_map_sum. cbn [dels frozen set_dels set_frozen].
      rewrite map_sum_delete, Ed. cbn [from_option]. unfold addr, hash in *. rewrite Hfr1. lia.
    + rewrite !bonded_power_map_sum, !frozen_power_map_sum. cbn [dels frozen set_dels set_frozen].
      rewrite map_sum_insert, Ed. cbn [from_option]. unfold addr, hash in *. rewrite Hfr1, Hst1. lia.
Qed.

Lemma exec_native_supply s1 s2 t l' lim' r :
  validated_of s1 r t = Ok lim' -> evm_path_of t r = false ->
  exec_native s2 t = Ok l' -> tx_wf t -> payload_wf t -> bal_range (work s2) ->
  room_for (work s2) t (t_to t) -> room_for (work s2) t (t_from t) ->
  (t_type t = TRX_STAKING -> t_amount t < two64 * amountPerPower) ->
  (t_type t = TRX_UNSTAKING -> hashes_unique (work s2) /\ totals_ok (work s2)) ->
  supply l' = supply (work s2) + withdrawn_of t.
Proof.
  intros Hv Hp He Hwf Hpl Hr Hroomto Hroomfrom Hstk Hunstk.
  pose proof Hwf as (Hamt & _). pose proof two256_pos as H256.
  destruct (validated_native_types _ _ _ _ Hv Hp) as [Hty|[Hty|[Hty|[Hty|[Hty|[Hty|Hty]]]]]];
    unfold withdrawn_of; rewrite Hty;
    cbn [Z.eqb Pos.eqb TRX_TRANSFER TRX_STAKING TRX_UNSTAKING TRX_PROPOSAL TRX_VOTING TRX_SETDOC TRX_WITHDRAW].
  - (* transfer *)
    rewrite exec_native_transfer in He by exact Hty.
    apply acct_execute_transfer_inv in He as (sender & receiver & sender' & recv' & Hs & Hrc & Hsub & Hadd & ->);
      [|exact Hty].
    pose proof (Hr _ _ Hs) as Hsr. pose proof (Hr _ _ Hrc) as Hrr.
    apply sub_balance_Some in Hsub as (Hle & Hb' & _); [|lia|exact Hsr].
    apply add_balance_Some in Hadd as (_ & Hrb & _); [|lia].
    rewrite !supply_set_acct, bal_of_set_acct.
    pose proof (bal_of_lookup _ _ _ Hs) as Hbs. pose proof (bal_of_lookup _ _ _ Hrc) as Hbr.
    destruct (t_from t =? t_to t)%N eqn:Eft.
    + apply N.eqb_eq in Eft. rewrite <- Eft in *.
      destruct (decide (t_from t = t_from t)); [|congruence].
      rewrite Hrb, Hb', add256_small by lia. lia.
    + apply N.eqb_neq in Eft. destruct (decide (t_from t = t_to t)); [contradiction|].
      destruct Hroomto as [(_ & Hx)|Hroom]; [congruence|].
      unfold tx_in in Hroom. rewrite Hty in Hroom. cbn in Hroom.
      destruct (decide (t_to t = t_to t)); [|congruence].
      rewrite Hrb, add256_small by lia. lia.
  - (* staking *)
    apply validated_of_staking in Hv; [|exact Hty].
    apply stake_validate_staking_inv in Hv as (Hmod & txp & Htxp); [|exact Hty].
    destruct (amount_to_power_exact _ _ (conj (proj1 Hamt) (Hstk Hty)) Htxp Hmod) as (Hpr & Hexact).
    assert (Hpow : power_of (t_amount t) = txp) by (unfold power_of; rewrite Htxp; reflexivity).
    rewrite exec_native_staking in He by exact Hty.
    apply stake_execute_staking_inv in He as (d & sender & sender' & Hd & Hs & Hsub & ->); [|exact Hty].
    pose proof (Hr _ _ Hs) as Hsr.
    apply sub_balance_Some in Hsub as (Hle & Hb' & _); [|lia|exact Hsr].
    pose proof (bal_of_lookup _ _ _ Hs) as Hbs.
    unfold supply.
    rewrite (total_balance_same (set_acct (work s2) (t_from t) sender') (set_dels _ _)) by reflexivity.
    rewrite total_balance_set_acct.
    change (frozen_power (set_dels (set_acct (work s2) (t_from t) sender') ?m)) with (frozen_power (work s2)).
    rewrite !bonded_power_map_sum. cbn [dels set_dels set_acct]. rewrite map_sum_insert.
    assert (Hsum : sum_power (d_stakes (add_stake d (stake_of_tx t (b_height (bctx s2)) (power_of (t_amount t)))))
                   - from_option (fun d0 => sum_power (d_stakes d0)) 0 (dels (work s2) !! t_to t) = txp).
    { unfold add_stake. cbn [d_stakes]. rewrite sum_power_app. unfold sum_power at 2. cbn. rewrite Hpow.
      destruct Hd as [Hd|(Hd & _ & ->)]; rewrite Hd; cbn; lia. }
    unfold addr in *. lia.
  - (* unstaking *)
    rewrite exec_native_unstaking in He by exact Hty. destruct (Hunstk Hty) as (Hu & Htot).
    destruct (stake_execute_unstaking_supply _ _ _ _ Hty He Hu Htot) as (Ha & Hbf).
    rewrite (supply_parts _ _ (total_balance_same _ _ Ha) Hbf). lia.
  - (* proposal *)
    rewrite exec_native_proposal in He by exact Hty. apply gov_execute_accts in He.
    rewrite (supply_same_money _ _ He). lia.
  - (* voting *)
    rewrite exec_native_voting in He by exact Hty. apply gov_execute_accts in He.
    rewrite (supply_same_money _ _ He). lia.
  - (* setdoc *)
    rewrite exec_native_setdoc in He by exact Hty.
    apply acct_execute_setdoc_inv in He as (sender & x & Hs & Hb & _ & _ & ->); [|exact Hty].
    rewrite supply_set_acct, (bal_of_lookup _ _ _ Hs). lia.
  - (* withdraw *)
    rewrite exec_native_withdraw in He by exact Hty.
    apply stake_execute_withdraw_inv in He as (req & r0 & r' & x & x' & Hpay & _ & Hx & Hadd & ->); [|exact Hty].
    specialize (Hpl req Hty Hpay). rewrite Hpay.
    apply add_balance_Some in Hadd as (_ & Hb' & _); [|lia].
    pose proof (Hr _ _ Hx) as Hxr. pose proof (bal_of_lookup _ _ _ Hx) as Hbx.
    rewrite supply_set_acct, supply_set_rewards, bal_of_set_rewards.
    destruct Hroomfrom as [(Hx1 & _)|Hroom]; [rewrite Hty in Hx1; discriminate|].
    unfold tx_in in Hroom. rewrite Hty, Hpay in Hroom. cbn in Hroom.
    destruct (decide (t_from t = t_from t)); [|congruence].
    rewrite Hb', add256_small by lia. lia.
Qed.

Definition unstake_ok (l : ledgers) (t : tx) : Prop :=
  t_type t = TRX_UNSTAKING -> hashes_unique l /\ totals_ok l.
Definition stake_amount_ok (t : tx) : Prop :=
  t_type t = TRX_STAKING -> t_amount t < two64 * amountPerPower.

(* C02, one successful native transaction: the fee leaves the supply (it sits in the block's fee
   sum until the end of the block), a withdrawn reward enters it, nothing else changes.
   INTENDED without [stake_amount_ok] and [unstake_ok]; both are needed:
   - staking amount >= 2^64 * 10^18: AmountToPower keeps the low 64 bits of amount/10^18, the
     sender pays the whole amount ([staking_truncation_refuted]);
   - unstaking under a hash already present in the frozen map overwrites that entry
     ([C02_collision_refuted]). *)
Theorem deliver_native_supply s t s' g :
  deliver s t = (s', Ok g) -> native s t -> tx_wf t -> payload_wf t -> bal_range (work s) ->
  room_for (work s) t (t_to t) -> room_for (work s) t (t_from t) ->
  stake_amount_ok t -> unstake_ok (work s) t ->
  supply (work s') = supply (work s) - fee_of t + withdrawn_of t.
Proof.
  intros Hd Hn Hwf Hpl Hr Hrt Hrf Hstk Hun.
  apply deliver_ok_inv in Hd as (sender & lim' & Hs & H0 & H1 & Hv & Hd). cbv zeta in Hd.
  rewrite receiver_of_eq in Hv, Hd. unfold native in Hn. rewrite Hn in Hd.
  destruct Hd as (l' & snd' & snd'' & He & Hsn & Hsub & -> & ->).
  set (s2 := with_lim (pre_state s t) lim') in *.
  assert (Hw2 : work s2 = (find_or_new (work s) (t_to t)).1) by reflexivity.
  assert (Hr0 : bal_range (work s2)) by (rewrite Hw2; apply bal_range_find_or_new; exact Hr).
  destruct (find_or_new_spec (work s) (t_to t)) as (_ & _ & _ & _ & _ & Hd0 & Hf0 & _).
  assert (Hroom : forall a, room_for (work s) t a -> room_for (work s2) t a).
  { intros a. unfold room_for. rewrite Hw2, bal_of_find_or_new. auto. }
  assert (Hun2 : t_type t = TRX_UNSTAKING -> hashes_unique (work s2) /\ totals_ok (work s2)).
  { intros Hty. destruct (Hun Hty) as (Hu & Ht). rewrite Hw2. split.
    - apply (hashes_unique_same (work s)); assumption.
    - apply (totals_ok_same (work s)); assumption. }
  pose proof (exec_native_supply _ _ _ _ _ _ Hv Hn He Hwf Hpl Hr0 (Hroom _ Hrt) (Hroom _ Hrf) Hstk Hun2) as Hsup.
  destruct (exec_native_balances _ _ _ _ _ _ Hv Hn He Hwf Hpl Hr0) as (Hr' & _).
  pose proof (Hr' _ _ Hsn) as Hsr. pose proof (fee_of_range t) as Hfr.
  apply sub_balance_Some in Hsub as (Hle & Hb'' & _); [|lia|exact Hsr].
  cbn [work with_bctx with_work].
  rewrite supply_set_acct, add_nonce_bal, (bal_of_lookup _ _ _ Hsn), Hb'', Hsup, Hw2, supply_find_or_new. lia.
Qed.
Print Assumptions deliver_native_supply.

(* the sender's own credit (a withdrawal) fits whenever the sender holds less than 2^255: AddBalance
   refuses amounts of 2^255 and more *)
Lemma room_from_exec s1 s2 t l' lim' r :
  validated_of s1 r t = Ok lim' -> evm_path_of t r = false -> exec_native s2 t = Ok l' ->
  payload_wf t -> bal_range (work s2) -> bal_of (work s2) (t_from t) < two255 ->
  room_for (work s2) t (t_from t).
Proof.
  intros Hv Hp He Hpl Hr Hlt. pose proof two255_two256 as H25. pose proof two256_pos.
  destruct (validated_native_types _ _ _ _ Hv Hp) as [Hty|[Hty|[Hty|[Hty|[Hty|[Hty|Hty]]]]]];
    unfold room_for, tx_in; rewrite Hty;
    cbn [Z.eqb Pos.eqb TRX_TRANSFER TRX_STAKING TRX_UNSTAKING TRX_PROPOSAL TRX_VOTING TRX_SETDOC TRX_WITHDRAW];
    try (right; lia).
  - destruct (decide (t_from t = t_to t)); [left; auto|right; lia].
  - rewrite exec_native_withdraw in He by exact Hty.
    apply stake_execute_withdraw_inv in He as (req & r0 & r' & x & x' & Hpay & _ & Hx & Hadd & _); [|exact Hty].
    specialize (Hpl req Hty Hpay). rewrite Hpay.
    apply add_balance_Some in Hadd as (Hreq & _); [|lia].
    right. destruct (decide (t_from t = t_from t)); [lia|congruence].
Qed.

(* ---- a failed delivery *)
Lemma common_validation1_None sender t :
  common_validation1 sender t = None -> add256 (fee_of t) (t_amount t) <= a_bal sender /\ a_nonce sender = t_nonce t.
Proof.
  unfold common_validation1. destruct (a_bal sender <? add256 (fee_of t) (t_amount t)) eqn:E; [discriminate|].
  destruct (a_nonce sender =? t_nonce t) eqn:En; [|discriminate]. intros _.
  apply Z.ltb_ge in E. apply Z.eqb_eq in En. auto.
Qed.

Lemma fee_lt_two255 g t : params_ok g -> common_validation0 g t = None -> 0 <= t_gas t -> fee_of t < two255.
Proof.
  intros (Hgp & _) H0 Hg. apply common_validation0_None in H0 as (_ & _ & _ & Hmax & _ & Hp & _).
  unfold fee_of. rewrite Hp. pose proof (mul256_range (g_gasPrice g) (t_gas t)) as Hr.
  assert (Hlt : g_gasPrice g * t_gas t < two255).
  { Local Transparent two255. unfold two255, maxInt64 in *. Local Opaque two255.
    replace (2 ^ 255) with (2 ^ 192 * 2 ^ 63) by (rewrite <- Z.pow_add_r by lia; reflexivity).
    destruct (Z.eq_dec (g_gasPrice g) 0) as [->|Hne]; [lia|].
    apply Z.le_lt_trans with (g_gasPrice g * (2 ^ 63 - 1)); [apply Z.mul_le_mono_nonneg_l; lia|].
    apply Z.lt_le_trans with (g_gasPrice g * 2 ^ 63); [apply Z.mul_lt_mono_pos_l; lia|].
    apply Z.mul_le_mono_nonneg_r; lia. }
  rewrite mul256_small; [exact Hlt|]. pose proof two255_two256.
  split; [apply Z.mul_nonneg_nonneg; lia|lia].
Qed.

Lemma sub_balance_succeeds x amt : 0 <= amt < two255 -> amt <= a_bal x -> sub_balance x amt <> None.
Proof.
  intros Ha Hle. unfold sub_balance.
  assert (Hs : (sign256 amt <? 0) = false) by (apply sign256_nonneg_iff; lia). rewrite Hs.
  assert (Hl : (a_bal x <? amt) = false) by (apply Z.ltb_ge; lia). rewrite Hl. discriminate.
Qed.

(* C02, a failed (or panicking) delivery: at most an empty account appears; supply is unchanged.
   [params_ok] and a sender balance below 2^255 exclude the one branch of postRunTrx in which the
   transaction has been executed but the fee cannot be taken. *)
Theorem deliver_fail_supply s t s' r :
  deliver s t = (s', r) -> (forall g, r <> Ok g) ->
  tx_wf t -> payload_wf t -> params_ok (gparams s) -> bal_range (work s) ->
  bal_of (work s) (t_from t) < two255 ->
  supply (work s') = supply (work s) /\ bal_range (work s') /\ frozen (work s') = frozen (work s).
Proof.
  intros Hd Hnok Hwf Hpl Hpar Hr Hlt.
  rewrite deliver_eq in Hd.
  destruct (accts (work s) !! t_from t) as [sender|] eqn:Es; [|injection Hd as <- <-; auto].
  unfold deliver_body in Hd.
  assert (H1s : supply (work (pre_state s t)) = supply (work s) /\ bal_range (work (pre_state s t)) /\
                frozen (work (pre_state s t)) = frozen (work s)).
  { rewrite pre_state_work. split; [apply supply_find_or_new|]. split; [apply bal_range_find_or_new; exact Hr|].
    apply find_or_new_spec. }
  destruct (common_validation0 (gparams s) t) as [e|] eqn:E0; [injection Hd as <- <-; exact H1s|].
  destruct (common_validation1 sender t) as [e|] eqn:E1; [injection Hd as <- <-; exact H1s|].
  destruct (validated_of (pre_state s t) (receiver_of s t) t) as [lim'|e|p] eqn:Ev; [|injection Hd as <- <-; exact H1s..].
  set (s2 := with_lim (pre_state s t) lim') in *.
  assert (H2s : supply (work s2) = supply (work s) /\ bal_range (work s2) /\ frozen (work s2) = frozen (work s)) by exact H1s.
  destruct (evm_path_of t (receiver_of s t)) eqn:Ep.
  - destruct (evm_execute (work s2) t) as [[l' gas]|e|p]; injection Hd as <- <-; [|exact H2s..].
    exfalso. apply (Hnok gas). reflexivity.
  - destruct (exec_native s2 t) as [l'|e|p] eqn:Ee; [|injection Hd as <- <-; exact H2s..].
    unfold post_run in Hd.
    destruct (accts l' !! t_from t) as [snd'|] eqn:Esn; [|injection Hd as <- <-; exact H2s].
    destruct (sub_balance snd' (fee_of t)) as [snd''|] eqn:Esb; [injection Hd as <- <-; exfalso; apply (Hnok (t_gas t)); reflexivity|].
    exfalso.
    assert (Hw2 : work s2 = (find_or_new (work s) (t_to t)).1) by reflexivity.
    destruct H2s as (_ & Hr0 & _).
    destruct (exec_native_balances _ _ _ _ _ _ Ev Ep Ee Hwf Hpl Hr0) as (Hr' & Hbal).
    assert (Hroom2 : room_for (work s2) t (t_from t)).
    { apply (room_from_exec _ _ _ _ _ _ Ev Ep Ee Hpl Hr0). rewrite Hw2, bal_of_find_or_new. exact Hlt. }
    specialize (Hbal _ Hroom2). rewrite Hw2, bal_of_find_or_new in Hbal.
    destruct (decide (t_from t = t_from t)); [|congruence].
    rewrite (bal_of_lookup _ _ _ Esn), (bal_of_lookup _ _ _ Es) in Hbal.
    apply common_validation1_None in E1 as (Hfund & _).
    pose proof Hwf as (Hamt & _ & Hgas & _).
    pose proof (fee_lt_two255 _ _ Hpar E0 (proj1 Hgas)) as Hfee.
    apply common_validation0_None in E0 as (_ & _ & Hsa & _).
    apply sign256_nonneg_iff in Hsa; [|lia].
    pose proof (fee_of_range t) as Hfr. pose proof two255_two256 as H25.
    rewrite add256_small in Hfund by lia.
    pose proof (tx_in_nonneg t (t_from t) Hwf Hpl) as Hin.
    assert (Hout : tx_out t <= t_amount t) by (unfold tx_out; destruct (_ || _); lia).
    apply (sub_balance_succeeds snd' (fee_of t)); [lia|lia|exact Esb].
Qed.
Print Assumptions deliver_fail_supply.

(* ================================================================== S3: end_block *)
Lemma two63_app_lt : two63 * amountPerPower < two256.
Proof. vm_compute. reflexivity. Qed.

Lemma power_to_amount_exact p : 0 <= p < two63 -> power_to_amount p = p * amountPerPower.
Proof.
  intros Hp. unfold power_to_amount. pose proof two63_two64. pose proof two63_app_lt as Hlt.
  assert (Happ : 0 < amountPerPower) by (unfold amountPerPower; lia).
  rewrite Z.mod_small by lia. apply mul256_small. split; [apply Z.mul_nonneg_nonneg; lia|].
  apply Z.le_lt_trans with (two63 * amountPerPower); [apply Z.mul_le_mono_nonneg_r; lia|exact Hlt].
Qed.

(* fees the proposer is paid at the end of the block *)
Definition paid_fees (b : blockctx) : Z :=
  match b_proposer b with
  | Some _ => if 0 <? sign256 (b_feesum b) then b_feesum b else 0
  | None => 0 end.

Lemma pay_proposer_supply l2 b l3 :
  pay_proposer l2 b = Some l3 -> bal_range l2 -> 0 <= b_feesum b < two256 ->
  (forall a, bal_of l2 a + end_fee b a < two256) ->
  supply l3 = supply l2 + paid_fees b.
Proof.
  unfold pay_proposer, paid_fees, end_fee. intros Hp Hr Hf Hroom.
  destruct (b_proposer b) as [pa|]; [|injection Hp as <-; lia].
  destruct (0 <? sign256 (b_feesum b)) eqn:Es; [|injection Hp as <-; lia].
  destruct (add_balance (default acct0 (accts l2 !! pa)) (b_feesum b)) as [x|] eqn:Ea; [|discriminate].
  injection Hp as <-. apply add_balance_Some in Ea as (_ & Hb & _); [|lia].
  change (a_bal (default acct0 (accts l2 !! pa))) with (bal_of l2 pa) in Hb.
  specialize (Hroom pa). destruct (decide (Some pa = Some pa)); [|congruence].
  pose proof (bal_range_bal_of _ pa Hr).
  rewrite supply_set_acct, Hb, add256_small by lia. lia.
Qed.

Lemma unfreeze_fold_supply h items : forall l l4,
  NoDup items.*1 ->
  (forall kp, kp ∈ items -> s_refund kp.2 <= h ->
     0 <= s_power kp.2 < two63 /\ exists s1, frozen l !! kp.1 = Some s1 /\ s_power s1 = s_power kp.2) ->
  foldl (unfreeze_step h) (Ok l) items = Ok l4 -> bal_range l ->
  (forall a, bal_of l a + refunds_to items h a < two256) ->
  supply l4 = supply l.
Proof.
  induction items as [|kp items IH]; intros l l4 Hnd Hsync Hf Hr Hroom.
  - simpl in Hf. injection Hf as <-. reflexivity.
  - cbn [foldl] in Hf. destruct (unfreeze_step h (Ok l) kp) as [l1|e|p] eqn:E.
    2:{ rewrite foldl_stuck_Err in Hf by apply unfreeze_step_stuck. discriminate. }
    2:{ rewrite foldl_stuck_Panic in Hf by apply unfreeze_step_stuck. discriminate. }
    rewrite fmap_cons in Hnd. apply NoDup_cons in Hnd as (Hnotin & Hnd).
    assert (Hrefund_split : forall a, refunds_to (kp :: items) h a = refund_of h a kp + refunds_to items h a) by reflexivity.
    apply unfreeze_step_inv in E as [(Em & ->)|(Em & x & x' & Hx & Ha & ->)].
    + apply (IH _ _ Hnd); [|exact Hf|exact Hr|].
      * intros kp' Hin. apply Hsync. apply elem_of_cons. auto.
      * intros a. specialize (Hroom a). rewrite Hrefund_split in Hroom.
        pose proof (refund_of_nonneg h a kp). lia.
    + apply Z.leb_le in Em.
      destruct (Hsync kp (elem_of_list_here _ _) Em) as (Hpr & s1 & Hs1 & Hpow).
      pose proof (power_to_amount_range (s_power kp.2)) as Hamt.
      apply add_balance_Some in Ha as (_ & Hb' & _); [|lia].
      pose proof (bal_of_lookup _ _ _ Hx) as Hbx. pose proof (Hr _ _ Hx) as Hxr.
      assert (Hroomx : bal_of l (s_from kp.2) + power_to_amount (s_power kp.2) < two256).
      { specialize (Hroom (s_from kp.2)). rewrite Hrefund_split in Hroom. unfold refund_of at 1 in Hroom.
        apply Z.leb_le in Em. rewrite Em, N.eqb_refl in Hroom. cbn [andb] in Hroom.
        pose proof (refunds_to_nonneg items h (s_from kp.2)). lia. }
      set (l1 := set_frozen (set_acct l (s_from kp.2) x') (delete kp.1 (frozen l))) in *.
      assert (Hsup1 : supply l1 = supply l).
      { unfold supply, l1.
        rewrite (total_balance_same (set_acct l (s_from kp.2) x') (set_frozen _ _)) by reflexivity.
        rewrite total_balance_set_acct.
        change (bonded_power (set_frozen (set_acct l (s_from kp.2) x') ?m)) with (bonded_power l).
        rewrite !frozen_power_map_sum. cbn [frozen set_frozen set_acct].
        rewrite (map_sum_delete_Some _ _ _ _ Hs1), Hpow.
        rewrite Hb', add256_small by lia. rewrite power_to_amount_exact by exact Hpr. lia. }
      rewrite <- Hsup1. apply (IH _ _ Hnd); [|exact Hf| |].
      * intros kp' Hin Hm. destruct (Hsync kp' (elem_of_list_further _ _ _ Hin) Hm) as (Hpr' & s1' & Hs1' & Hpow').
        split; [exact Hpr'|]. exists s1'. split; [|exact Hpow'].
        unfold l1. cbn [frozen set_frozen]. rewrite lookup_delete_ne; [exact Hs1'|].
        intros Heq. apply Hnotin. rewrite Heq. apply elem_of_list_fmap. exists kp'. auto.
      * intros a y. unfold l1. rewrite accts_set_frozen. apply bal_range_set_acct; [exact Hr|].
        rewrite Hb'. apply add256_range.
      * intros a. specialize (Hroom a). rewrite Hrefund_split in Hroom. unfold refund_of at 1 in Hroom.
        apply Z.leb_le in Em. rewrite Em in Hroom. cbn [andb] in Hroom.
        unfold l1. rewrite bal_of_set_frozen, bal_of_set_acct.
        destruct (decide (s_from kp.2 = a)) as [<-|Hne].
        -- rewrite N.eqb_refl in Hroom. rewrite Hb', add256_small by lia. lia.
        -- apply N.eqb_neq in Hne. rewrite Hne in Hroom. lia.
Qed.

(* the matured stakes of the committed frozen tree are still in the working tree, same power *)
Definition frozen_synced (s : state) : Prop :=
  forall k s0, frozen (base_of s) !! k = Some s0 -> s_refund s0 <= b_height (bctx s) ->
    0 <= s_power s0 < two63 /\ exists s1, frozen (work s) !! k = Some s1 /\ s_power s1 = s_power s0.

Lemma sorted_items_perm {A} (m : gmap N A) : sorted_items m ≡ₚ map_to_list m.
Proof. unfold sorted_items. apply merge_sort_Permutation. Qed.

(* C02, end of block: the fee sum enters the supply when there is a proposer (and the sum is
   positive as the code tests it); refunds move unbonding stake into balances one to one;
   proposals and parameter changes do not touch value. *)
Theorem end_block_supply s s' ups :
  end_block s = (s', Ok ups) -> bal_range (work s) -> 0 <= b_feesum (bctx s) < two256 -> frozen_synced s ->
  (forall a, bal_of (work s) a + end_fee (bctx s) a +
             refunds_to (sorted_items (frozen (base_of s))) (b_height (bctx s)) a < two256) ->
  supply (work s') = supply (work s) + paid_fees (bctx s).
Proof.
  intros He Hr Hf Hsync Hroom.
  apply end_block_inv in He as (l1 & l2 & np & l3 & H1 & H2 & H3 & H4 & _).
  apply freeze_proposals_money in H1. apply apply_proposals_money in H2.
  pose proof (same_money_trans _ _ _ H1 H2) as H12. pose proof H12 as (Ha2 & _ & Hf2 & _).
  assert (Hr2 : bal_range l2) by (intros a x; rewrite Ha2; apply Hr).
  assert (Hb2 : forall a, bal_of l2 a = bal_of (work s) a) by (intros a; apply bal_of_same_accts; exact Ha2).
  set (items := sorted_items (frozen (base_of s))) in *. set (h := b_height (bctx s)) in *.
  assert (Hroom2 : forall a, bal_of l2 a + end_fee (bctx s) a < two256).
  { intros a. rewrite Hb2. specialize (Hroom a). pose proof (refunds_to_nonneg items h a). lia. }
  pose proof (pay_proposer_supply _ _ _ H3 Hr2 Hf Hroom2) as Hs3.
  destruct (pay_proposer_balances _ _ _ H3 Hr2 Hf) as (_ & Hf3 & _ & Hr3 & Hb3).
  rewrite unfreeze_eq in H4. fold items h in H4.
  rewrite <- (supply_same_money _ _ H12), <- Hs3.
  apply (unfreeze_fold_supply h items); [| |exact H4|exact Hr3|].
  - unfold items. rewrite sorted_items_perm. apply NoDup_fst_map_to_list.
  - intros [k s0] Hin Hm. unfold items in Hin. rewrite sorted_items_perm in Hin.
    apply elem_of_map_to_list in Hin. destruct (Hsync k s0 Hin Hm) as (Hp & s1 & Hs1 & Hpw).
    split; [exact Hp|]. exists s1. rewrite Hf3, Hf2. auto.
  - intros a. specialize (Hroom a). specialize (Hb3 a). cbv zeta in Hb3. rewrite Hb2 in Hb3.
    unfold end_fee in Hroom. rewrite Hb3.
    + destruct (decide (b_proposer (bctx s) = Some a)); lia.
    + intros Hpa. destruct (decide (b_proposer (bctx s) = Some a)); [|contradiction].
      pose proof (refunds_to_nonneg items h a). lia.
Qed.
Print Assumptions end_block_supply.

Lemma end_block_fail_same s s' r : end_block s = (s', r) -> (forall u, r <> Ok u) -> s' = s.
Proof. intros He Hn. apply end_block_inv in He. destruct r as [u|e|p]; [exfalso; apply (Hn u); reflexivity|exact He..]. Qed.

(* ================================================================== S4: commit *)
Theorem commit_supply s : supply (work (commit s)) = supply (work s).
Proof. reflexivity. Qed.

(* ================================================================== S2: begin_block *)
(* ---- GovCtrler.BeginBlock touches proposals only *)
Lemma gov_punish_money l ratio evi : same_money l (gov_punish l ratio evi).
Proof.
  unfold gov_punish. revert l. induction evi as [|a evi IH]; intros l; [apply same_money_refl|].
  cbn [foldl]. eapply same_money_trans; [|apply IH].
  generalize (List.filter (fun kp : hash * proposal => match p_voters kp.2 !! a with Some _ => true | None => false end)
                (sorted_items (props l))). intros targets.
  clear IH. revert l. induction targets as [|kp targets IHt]; intros l0; [apply same_money_refl|].
  cbn [foldl]. eapply same_money_trans; [|apply IHt].
  destruct (props l0 !! kp.1); [repeat split|apply same_money_refl].
Qed.

(* ---- doSlashAll *)
Lemma NoDup_sublist {A} (l1 l2 : list A) : l1 `sublist_of` l2 -> NoDup l2 -> NoDup l1.
Proof.
  induction 1 as [|x l1 l2 Hs IH|x l1 l2 Hs IH]; intros Hnd; [constructor| |].
  - apply NoDup_cons in Hnd as (Hx & Hnd). apply NoDup_cons. split; [|apply IH; exact Hnd].
    intros Hin. apply Hx. eapply elem_of_submseteq; [exact Hin|apply sublist_submseteq; exact Hs].
  - apply NoDup_cons in Hnd as (_ & Hnd). apply IH. exact Hnd.
Qed.

Definition pow_nonneg (l : list stake) : Prop := Forall (fun s => 0 <= s_power s) l.

Lemma sum_power_nonneg l : pow_nonneg l -> 0 <= sum_power l.
Proof. induction 1 as [|s l Hs _ IH]; [unfold sum_power; simpl; lia|]. rewrite sum_power_cons. lia. Qed.

Lemma remove_stake_props h l :
  (s_hash <$> remove_stake h l) `sublist_of` (s_hash <$> l) /\
  (pow_nonneg l -> pow_nonneg (remove_stake h l) /\ sum_power (remove_stake h l) <= sum_power l).
Proof.
  induction l as [|s l (IH1 & IH2)]; cbn [remove_stake].
  - split; [constructor|]. intros H. split; [exact H|lia].
  - destruct (s_hash s =? h)%N.
    + split; [rewrite fmap_cons; apply sublist_cons; reflexivity|].
      intros H. apply Forall_cons in H as (Hs & Hl). split; [exact Hl|]. rewrite sum_power_cons. lia.
    + split; [rewrite !fmap_cons; apply sublist_skip; exact IH1|].
      intros H. apply Forall_cons in H as (Hs & Hl). destruct (IH2 Hl) as (Hn & Hle).
      split; [apply Forall_cons; auto|]. rewrite !sum_power_cons. lia.
Qed.

Lemma foldl_remove_props (removing : list stake) : forall l,
  (s_hash <$> foldl (fun l s => remove_stake (s_hash s) l) l removing) `sublist_of` (s_hash <$> l) /\
  (pow_nonneg l -> pow_nonneg (foldl (fun l s => remove_stake (s_hash s) l) l removing) /\
                   sum_power (foldl (fun l s => remove_stake (s_hash s) l) l removing) <= sum_power l).
Proof.
  induction removing as [|s removing IH]; intros l; cbn [foldl].
  - split; [reflexivity|]. intros H. split; [exact H|lia].
  - destruct (IH (remove_stake (s_hash s) l)) as (I1 & I2).
    destruct (remove_stake_props (s_hash s) l) as (R1 & R2).
    split; [etransitivity; eassumption|].
    intros H. destruct (R2 H) as (Hn & Hle). destruct (I2 Hn) as (Hn' & Hle'). split; [exact Hn'|lia].
Qed.

Lemma quot_slash_bounds p ratio : 0 <= p -> 0 <= ratio <= 100 -> 0 <= (p * ratio) `quot` 100 <= p.
Proof.
  intros Hp Hr. rewrite Z.quot_div_nonneg by nia. split; [apply Z.div_pos; nia|].
  apply Z.div_le_upper_bound; nia.
Qed.

Definition slash_one (ratio : Z) (s : stake) : stake :=
  if (s_power s * ratio) `quot` 100 <? 1 then s else with_power (s_power s - (s_power s * ratio) `quot` 100) s.

Lemma slash_map_props ratio l :
  0 <= ratio <= 100 ->
  s_hash <$> map (slash_one ratio) l = s_hash <$> l /\
  (pow_nonneg l -> pow_nonneg (map (slash_one ratio) l) /\ sum_power (map (slash_one ratio) l) <= sum_power l).
Proof.
  intros Hr. induction l as [|s l (IH1 & IH2)]; cbn [map].
  - split; [reflexivity|]. intros H. split; [exact H|lia].
  - split.
    + rewrite !fmap_cons, IH1. unfold slash_one. destruct (_ <? 1); reflexivity.
    + intros H. apply Forall_cons in H as (Hs & Hl). destruct (IH2 Hl) as (Hn & Hle).
      pose proof (quot_slash_bounds _ _ Hs Hr) as Hq.
      unfold slash_one at 1 3. set (q := (s_power s * ratio) `quot` 100) in *. clearbody q.
      split.
      * apply Forall_cons. split; [|exact Hn]. destruct (q <? 1); cbn [s_power with_power]; lia.
      * rewrite !sum_power_cons. destruct (q <? 1); cbn [s_power with_power]; lia.
Qed.

Lemma slash_all_props d ratio :
  0 <= ratio <= 100 -> 
  (s_hash <$> d_stakes (slash_all d ratio).1) `sublist_of` (s_hash <$> d_stakes d) /\
  (pow_nonneg (d_stakes d) ->
     pow_nonneg (d_stakes (slash_all d ratio).1) /\
     sum_power (d_stakes (slash_all d ratio).1) <= sum_power (d_stakes d)).
Proof.
  intros Hr. unfold slash_all. cbn [fst d_stakes].
  change (map _ (d_stakes d)) with (map (slash_one ratio) (d_stakes d)).
  set (removing := List.filter _ (d_stakes d)).
  destruct (foldl_remove_props removing (map (slash_one ratio) (d_stakes d))) as (F1 & F2).
  destruct (slash_map_props ratio (d_stakes d) Hr) as (Hh & Hsl).
  split; [rewrite <- Hh; exact F1|].
  intros Hn. destruct (Hsl Hn) as (Hsn & Hsle). destruct (F2 Hsn) as (Hkn & Hkle). split; [exact Hkn|lia].
Qed.

(* ---- StakeCtrler slashing over the evidence list; power destroyed by it *)
Fixpoint slashed_by (l : ledgers) (ratio : Z) (evi : list addr) : Z :=
  match evi with
  | [] => 0
  | a :: rest =>
      match dels l !! a with
      | Some d =>
          (sum_power (d_stakes d) - sum_power (d_stakes (slash_all d ratio).1))
          + slashed_by (set_dels l (<[a := (slash_all d ratio).1]> (dels l))) ratio rest
      | None => slashed_by l ratio rest
      end
  end.

(* total power removed by the slashing of [begin_block s hd] *)
Definition slashed_power (s : state) (hd : header) : Z :=
  slashed_by (gov_punish (work s) (g_slashRatio (gparams s)) (h_evidence hd)) (g_slashRatio (gparams s)) (h_evidence hd).

Definition bonded_nonneg (l : ledgers) : Prop := forall a d, dels l !! a = Some d -> pow_nonneg (d_stakes d).

Lemma bonded_stakes_insert l a d' :
  bonded_stakes (set_dels l (<[a := d']> (dels l))) ≡ₚ d_stakes d' ++ bonded_stakes (set_dels l (delete a (dels l))).
Proof.
  unfold bonded_stakes. rewrite !dels_set_dels. rewrite <- insert_delete_insert.
  rewrite map_to_list_insert by apply lookup_delete. rewrite fmap_cons. reflexivity.
Qed.

Lemma elem_of_bonded l a d s : dels l !! a = Some d -> s ∈ d_stakes d -> s ∈ bonded_stakes l.
Proof. intros Hd Hs. rewrite (bonded_stakes_delete _ _ _ Hd). apply elem_of_app. auto. Qed.

Lemma ranges_ok_bonded_nonneg l : ranges_ok l -> bonded_nonneg l.
Proof.
  intros (_ & Hp & _) a d Hd. apply Forall_forall. intros s Hs.
  apply Hp. apply elem_of_app. left. eapply elem_of_bonded; eassumption.
Qed.

Lemma hashes_unique_update_del l a d d' :
  hashes_unique l -> dels l !! a = Some d ->
  (s_hash <$> d_stakes d') `sublist_of` (s_hash <$> d_stakes d) ->
  hashes_unique (set_dels l (<[a := d']> (dels l))).
Proof.
  intros (Hnd & Hk) Hd Hsub. split; [|exact Hk].
  rewrite (bonded_stakes_delete _ _ _ Hd) in Hnd.
  change (frozen_stakes (set_dels l (<[a:=d']> (dels l)))) with (frozen_stakes l).
  rewrite bonded_stakes_insert. rewrite <- app_assoc, fmap_app in *.
  eapply NoDup_sublist; [|exact Hnd]. apply sublist_app; [exact Hsub|reflexivity].
Qed.

Lemma stake_punish_cons l ratio a evi :
  stake_punish l ratio (a :: evi) =
  stake_punish (match dels l !! a with
                | Some d => set_dels l (<[a := (slash_all d ratio).1]> (dels l))
                | None => l end) ratio evi.
Proof. reflexivity. Qed.

Lemma stake_punish_props ratio evi : forall l,
  0 <= ratio <= 100 -> hashes_unique l -> bonded_nonneg l ->
  let l' := stake_punish l ratio evi in
  accts l' = accts l /\ frozen l' = frozen l /\ rewards l' = rewards l /\
  hashes_unique l' /\ bonded_nonneg l' /\
  bonded_power l' = bonded_power l - slashed_by l ratio evi /\ 0 <= slashed_by l ratio evi.
Proof.
  induction evi as [|a evi IH]; intros l Hr Hu Hn; cbv zeta.
  - unfold stake_punish. cbn [foldl slashed_by].
    refine (conj eq_refl (conj eq_refl (conj eq_refl (conj Hu (conj Hn (conj _ _)))))); lia.
  - rewrite stake_punish_cons. cbn [slashed_by]. destruct (dels l !! a) as [d|] eqn:Ed.
    + destruct (slash_all_props d ratio Hr) as (Hsub & Hpow). destruct (Hpow (Hn _ _ Ed)) as (Hn' & Hle).
      set (l1 := set_dels l (<[a := (slash_all d ratio).1]> (dels l))) in *.
      assert (Hu1 : hashes_unique l1) by (apply (hashes_unique_update_del _ _ _ _ Hu Ed Hsub)).
      assert (Hn1 : bonded_nonneg l1).
      { intros b d0. unfold l1. rewrite dels_set_dels. destruct (decide (a = b)) as [<-|Hne].
        - rewrite lookup_insert. intros [= <-]. exact Hn'.
        - rewrite lookup_insert_ne by exact Hne. apply Hn. }
      destruct (IH l1 Hr Hu1 Hn1) as (Ha & Hf & Hrw & Hu' & Hn'' & Hb & Hs0).
      assert (Hb1 : bonded_power l1 = bonded_power l - sum_power (d_stakes d) + sum_power (d_stakes (slash_all d ratio).1)).
      { unfold l1. rewrite bonded_power_set_dels_insert. unfold addr in *. rewrite Ed. reflexivity. }
      refine (conj Ha (conj Hf (conj Hrw (conj Hu' (conj Hn'' (conj _ _)))))); lia.
    + apply IH; assumption.
Qed.

(* ---- jailing: all stakes of a delegatee move into the frozen map *)
Lemma freeze_all_subseteq refund ss fr :
  (forall s, s ∈ ss -> fr !! s_hash s = None) -> fr ⊆ freeze_all fr refund ss.
Proof.
  intros Hfresh. apply map_subseteq_spec. intros k v Hk.
  rewrite freeze_all_lookup_other; [exact Hk|].
  intros Hin. apply elem_of_list_fmap in Hin as (s & -> & Hs). rewrite (Hfresh s Hs) in Hk. discriminate.
Qed.

Lemma freeze_all_perm refund ss : forall fr,
  NoDup (s_hash <$> ss) -> (forall s, s ∈ ss -> fr !! s_hash s = None) ->
  map_to_list (freeze_all fr refund ss) ≡ₚ ((fun s => (s_hash s, with_refund refund s)) <$> ss) ++ map_to_list fr.
Proof.
  induction ss as [|s ss IH]; intros fr Hnd Hfresh; [reflexivity|].
  rewrite freeze_all_cons, fmap_cons in *. apply NoDup_cons in Hnd as (Hnotin & Hnd).
  rewrite IH; [|exact Hnd|].
  - rewrite map_to_list_insert by (apply Hfresh, elem_of_cons; auto).
    cbn [app]. symmetry. apply Permutation_middle.
  - intros s' Hs'. rewrite lookup_insert_ne.
    + apply Hfresh, elem_of_cons. auto.
    + intros Heq. apply Hnotin. rewrite Heq. apply elem_of_list_fmap. exists s'. auto.
Qed.

Lemma freeze_all_keys refund ss : forall fr,
  (forall h s, fr !! h = Some s -> s_hash s = h) ->
  (forall h s, freeze_all fr refund ss !! h = Some s -> s_hash s = h).
Proof.
  induction ss as [|s0 ss IH]; intros fr Hk; [exact Hk|].
  rewrite freeze_all_cons. apply IH. intros h s. destruct (decide (s_hash s0 = h)) as [<-|Hne].
  - rewrite lookup_insert. intros [= <-]. reflexivity.
  - rewrite lookup_insert_ne by exact Hne. apply Hk.
Qed.

Lemma jail_props l a d refund :
  dels l !! a = Some d -> hashes_unique l ->
  let l' := set_dels (set_frozen l (freeze_all (frozen l) refund (d_stakes d))) (delete a (dels l)) in
  hashes_unique l' /\ bonded_power l' + frozen_power l' = bonded_power l + frozen_power l /\
  frozen l ⊆ frozen l'.
Proof.
  intros Hd Hu. cbv zeta.
  destruct (hashes_unique_delegatee _ _ _ Hu Hd) as (Hnd & Hfresh).
  destruct Hu as (Hall & Hk).
  split; [split|split]; [| | |cbn [frozen set_dels set_frozen]; apply freeze_all_subseteq; exact Hfresh].
  - pose proof (freeze_all_perm refund _ _ Hnd Hfresh) as Hperm.
    rewrite (bonded_stakes_delete _ _ _ Hd) in Hall.
    change (bonded_stakes (set_dels (set_frozen l ?m) (delete a (dels l)))) with (bonded_stakes (set_dels l (delete a (dels l)))).
    set (B := bonded_stakes (set_dels l (delete a (dels l)))) in *.
    unfold frozen_stakes in *. cbn [frozen set_dels set_frozen].
    rewrite Hperm. rewrite !fmap_app in *.
    assert (Hss : s_hash <$> ((fun kv : hash * stake => kv.2) <$> ((fun s => (s_hash s, with_refund refund s)) <$> d_stakes d))
                  = s_hash <$> d_stakes d).
    { rewrite <- !list_fmap_compose. apply list_fmap_ext. intros i s _. reflexivity. }
    rewrite Hss. rewrite <- app_assoc in Hall.
    rewrite (Permutation_app_comm (s_hash <$> B)). rewrite <- app_assoc.
    assert (Hp : forall x y z : list hash, x ++ z ++ y ≡ₚ x ++ y ++ z)
      by (intros; apply Permutation_app_head, Permutation_app_comm).
    rewrite Hp. exact Hall.
  - cbn [frozen set_dels set_frozen]. apply freeze_all_keys. exact Hk.
  - rewrite !bonded_power_map_sum, !frozen_power_map_sum. cbn [dels frozen set_dels set_frozen].
    rewrite freeze_all_sum by assumption. rewrite map_sum_delete. unfold addr in *. rewrite Hd. cbn [from_option]. lia.
Qed.

(* ---- reward / missed-block processing over the last commit's votes *)
Definition votes_step (g : params) (old : ledgers) (h : Z) (acc : res (ledgers * Z)) (v : addr * Z * bool)
  : res (ledgers * Z) :=
  match acc with
  | Ok (l, issued) =>
    let '(a, pw, signed) := v in
    if signed : bool then
      match dels old !! a with
      | None => Ok (l, issued)
      | Some d => if negb (d_total d =? pw) then Ok (l, issued)
                  else match reward_to g h (rewards l) d with
                       | Ok (rw, iss) => Ok (set_rewards l rw, add256 issued iss)
                       | Err e => Err e | Panic p => Panic p end
      end
    else
      match dels l !! a with
      | None => Ok (l, issued)
      | Some d =>
          let sh := h - 1 in
          let m1 := mark (d_marks d) sh in
          let s0 := if sh - g_signedBlocksWindow g <? 0 then 0 else sh - g_signedBlocksWindow g in
          let '(cnt, m2) := count_in_window m1 s0 sh in
          let d1 := {| d_addr := d_addr d; d_self := d_self d; d_total := d_total d; d_stakes := d_stakes d; d_marks := m2 |} in
          let l1 := set_dels l (<[a := d1]> (dels l)) in
          if g_signedBlocksWindow g - cnt <? g_minSignedBlocks g then
            let '(_, ss) := del_all_stakes d1 in
            let l2 := set_frozen l1 (freeze_all (frozen l1) (h + g_lazyRewardBlocks g) ss) in
            Ok (set_dels l2 (delete a (dels l2)), issued)
          else Ok (l1, issued)
      end
  | x => x end.

Lemma process_votes_eq s l h votes :
  process_votes s l h votes =
  match ledgers_at s (hgt_of_power h) with
  | None => Panic P_BEGINBLOCK
  | Some old => foldl (votes_step (gparams s) old h) (Ok (l, 0)) votes
  end.
Proof. reflexivity. Qed.

(* the step invariant: stake hashes stay unique and value is only moved *)
Definition moved (x y : ledgers * Z) : Prop :=
  hashes_unique x.1 -> hashes_unique y.1 /\ supply y.1 = supply x.1 /\ accts y.1 = accts x.1 /\ frozen x.1 ⊆ frozen y.1.

Lemma votes_step_moved g old h x v y : votes_step g old h (Ok x) v = Ok y -> moved x y.
Proof.
  destruct x as [l issued]. destruct v as [[a pw] signed]. unfold votes_step, moved. cbn [fst].
  destruct signed.
  - destruct (dels old !! a) as [d|]; [|intros [= <-]; auto 10].
    destruct (negb (d_total d =? pw)); [intros [= <-]; auto 10|].
    destruct (reward_to g h (rewards l) d) as [[rw iss]|e|p]; [|discriminate..].
    intros [= <-] Hu. cbn [fst]. split; [|split; [reflexivity|split; reflexivity]].
    apply (hashes_unique_same l); [reflexivity|reflexivity|exact Hu].
  - destruct (dels l !! a) as [d|] eqn:Ed; [|intros [= <-]; auto 10]. cbv zeta.
    destruct (count_in_window _ _ _) as [cnt m2].
    set (d1 := {| d_addr := d_addr d; d_self := d_self d; d_total := d_total d; d_stakes := d_stakes d; d_marks := m2 |}).
    set (l1 := set_dels l (<[a := d1]> (dels l))).
    assert (H1 : hashes_unique l -> hashes_unique l1 /\ supply l1 = supply l).
    { intros Hu. split.
      - apply (hashes_unique_update_del _ _ _ _ Hu Ed). reflexivity.
      - apply supply_parts; [reflexivity|]. unfold l1.
        rewrite bonded_power_set_dels_insert. unfold addr in *. rewrite Ed. cbn [from_option d_stakes d1].
        change (frozen_power (set_dels l ?m)) with (frozen_power l). lia. }
    destruct (g_signedBlocksWindow g - cnt <? g_minSignedBlocks g).
    + unfold del_all_stakes. cbn [d_stakes d1]. intros [= <-] Hu. cbn [fst].
      destruct (H1 Hu) as (Hu1 & Hs1).
      assert (Hd1 : dels l1 !! a = Some d1) by (unfold l1; rewrite dels_set_dels; apply lookup_insert).
      destruct (jail_props l1 a d1 (h + g_lazyRewardBlocks g) Hd1 Hu1) as (Hu2 & Hbf & Hsub).
      cbn [d_stakes d1] in Hu2, Hbf, Hsub.
      change (dels (set_frozen l1 ?m)) with (dels l1).
      split; [exact Hu2|]. split; [|split; [reflexivity|exact Hsub]].
      rewrite <- Hs1. apply supply_parts; [reflexivity|exact Hbf].
    + intros [= <-] Hu. cbn [fst]. destruct (H1 Hu) as (Hu1 & Hs1). split; [exact Hu1|]. split; [exact Hs1|]. split; reflexivity.
Qed.

Lemma votes_step_stuck g old h : res_stuck (votes_step g old h).
Proof. split; reflexivity. Qed.

Lemma process_votes_moved s l h votes l3 issued :
  process_votes s l h votes = Ok (l3, issued) -> hashes_unique l ->
  hashes_unique l3 /\ supply l3 = supply l /\ accts l3 = accts l /\ frozen l ⊆ frozen l3.
Proof.
  rewrite process_votes_eq. destruct (ledgers_at s (hgt_of_power h)) as [old|]; [|discriminate].
  intros Hf. apply (foldl_res_ind (votes_step (gparams s) old h) moved) in Hf.
  - exact Hf.
  - apply votes_step_stuck.
  - intros x Hu. auto 10.
  - intros x y z Hxy Hyz Hu. destruct (Hxy Hu) as (Hu1 & Hs1 & Ha1 & Hf1). destruct (Hyz Hu1) as (Hu2 & Hs2 & Ha2 & Hf2).
    split; [exact Hu2|]. split; [congruence|]. split; [congruence|]. etransitivity; eassumption.
  - intros x v y. apply votes_step_moved.
Qed.

(* C02, begin of block: the only value destroyed is the slashed power; issuing rewards adds to
   the reward ledger, which is not part of the supply until withdrawn; jailing moves bonded
   stake into the frozen map one to one (fresh keys by [hashes_unique]).  Holds whether the
   vote processing succeeds or not. *)
Theorem begin_block_supply s hd s' r :
  begin_block s hd = (s', r) -> h_height hd = last_height s + 1 ->
  0 <= g_slashRatio (gparams s) <= 100 -> hashes_unique (work s) -> bonded_nonneg (work s) ->
  supply (work s') = supply (work s) - amountPerPower * slashed_power s hd /\ 0 <= slashed_power s hd /\
  accts (work s') = accts (work s) /\ hashes_unique (work s') /\ frozen (work s) ⊆ frozen (work s').
Proof.
  intros Hb Hh Hpar Hu Hrg. unfold begin_block in Hb. rewrite Hh, Z.eqb_refl in Hb. cbn [negb] in Hb. cbv zeta in Hb.
  set (ratio := g_slashRatio (gparams s)) in *.
  assert (Hratio : 0 <= ratio <= 100) by exact Hpar.
  pose proof (gov_punish_money (work s) ratio (h_evidence hd)) as Hm.
  set (l1 := gov_punish (work s) ratio (h_evidence hd)) in *.
  pose proof Hm as (Ha1 & Hd1 & Hf1 & _).
  assert (Hu1 : hashes_unique l1) by (apply (hashes_unique_same (work s)); assumption).
  assert (Hn1 : bonded_nonneg l1).
  { intros a d. rewrite Hd1. apply Hrg. }
  destruct (stake_punish_props ratio (h_evidence hd) l1 Hratio Hu1 Hn1) as (Ha2 & Hf2 & _ & Hu2 & _ & Hb2 & Hnn).
  set (l2 := stake_punish l1 ratio (h_evidence hd)) in *.
  assert (Hs2 : supply l2 = supply (work s) - amountPerPower * slashed_power s hd).
  { unfold supply. rewrite (total_balance_same _ _ Ha2), (total_balance_same _ _ Ha1).
    rewrite (frozen_power_same _ _ Hf2), (frozen_power_same _ _ Hf1), Hb2, (bonded_power_same _ _ Hd1).
    unfold slashed_power. fold ratio l1. lia. }
  assert (Hfin2 : supply l2 = supply (work s) - amountPerPower * slashed_power s hd /\ 0 <= slashed_power s hd /\
                  accts l2 = accts (work s) /\ hashes_unique l2 /\ frozen (work s) ⊆ frozen l2).
  { split; [exact Hs2|]. split; [exact Hnn|]. split; [congruence|]. split; [exact Hu2|]. rewrite Hf2, Hf1. reflexivity. }
  destruct (h_votes hd) as [|v vs]; [injection Hb as <- <-; exact Hfin2|].
  match type of Hb with context [process_votes ?a ?b ?c ?d] =>
    destruct (process_votes a b c d) as [[l3 issued]|e|p] eqn:Ev end;
    [|injection Hb as <- <-; exact Hfin2..].
  injection Hb as <- <-. cbn [work with_work].
  apply process_votes_moved in Ev as (Hu3 & Hs3 & Ha3 & Hf3); [|exact Hu2].
  split; [rewrite Hs3; exact Hs2|]. split; [exact Hnn|]. split; [congruence|]. split; [exact Hu3|].
  rewrite <- Hf1, <- Hf2. exact Hf3.
Qed.
Print Assumptions begin_block_supply.

(* ================================================================== histories *)
(* ABCI phases of the block cycle *)
Inductive phase := PIdle | POpen | PEnded.

(* ghost totals of a run: rewards withdrawn, power destroyed by slashing, fees not paid out *)
Record ghost := { gh_withdrawn : Z; gh_slashed : Z; gh_burned : Z }.
Definition ghost0 : ghost := {| gh_withdrawn := 0; gh_slashed := 0; gh_burned := 0 |}.

(* fees collected in the open block, not yet paid *)
Definition pending (p : phase) (s : state) : Z := match p with POpen => b_feesum (bctx s) | _ => 0 end.

(* one step of a live node: the operations come in ABCI order, BeginBlock and EndBlock answer
   without error (otherwise the node halts and the history ends); deliveries may fail *)
Definition hstep (x : state * phase * ghost) (o : sop) : option (state * phase * ghost) :=
  let '(s, p, gh) := x in
  match p, o with
  | PIdle, SBegin hd =>
      if h_height hd =? last_height s + 1 then
        match begin_block s hd with
        | (s', Ok _) => Some (s', POpen, {| gh_withdrawn := gh_withdrawn gh;
                                            gh_slashed := gh_slashed gh + slashed_power s hd;
                                            gh_burned := gh_burned gh |})
        | _ => None end
      else None
  | POpen, SDeliver t =>
      match deliver s t with
      | (s', Ok _) => Some (s', POpen, {| gh_withdrawn := gh_withdrawn gh + withdrawn_of t;
                                          gh_slashed := gh_slashed gh; gh_burned := gh_burned gh |})
      | (s', _) => Some (s', POpen, gh) end
  | POpen, SEnd =>
      match end_block s with
      | (s', Ok _) => Some (s', PEnded, {| gh_withdrawn := gh_withdrawn gh; gh_slashed := gh_slashed gh;
                                           gh_burned := gh_burned gh + (b_feesum (bctx s) - paid_fees (bctx s)) |})
      | _ => None end
  | PEnded, SCommit => Some (commit s, PIdle, gh)
  | _, _ => None
  end.

Fixpoint hrun (x : state * phase * ghost) (ops : list sop) : option (state * phase * ghost) :=
  match ops with
  | [] => Some x
  | o :: r => match hstep x o with Some y => hrun y r | None => None end
  end.

Lemma hstep_sstep s p gh o s' p' gh' : hstep (s, p, gh) o = Some (s', p', gh') -> s' = sstep s o.
Proof.
  unfold hstep, sstep. destruct p, o as [hd|t| |]; try discriminate.
  - destruct (h_height hd =? last_height s + 1); [|discriminate].
    destruct (begin_block s hd) as [s1 [x|e|pp]]; [|discriminate..]. intros [= <- _ _]. reflexivity.
  - destruct (deliver s t) as [s1 [x|e|pp]]; intros [= <- _ _]; reflexivity.
  - destruct (end_block s) as [s1 [x|e|pp]]; [|discriminate..]. intros [= <- _ _]. reflexivity.
  - intros [= <- _ _]. reflexivity.
Qed.

Lemma hrun_srun ops : forall s p gh s' p' gh', hrun (s, p, gh) ops = Some (s', p', gh') -> s' = srun s ops.
Proof.
  induction ops as [|o ops IH]; intros s p gh s' p' gh'; cbn [hrun].
  - intros [= <- _ _]. reflexivity.
  - destruct (hstep (s, p, gh) o) as [[[s1 p1] gh1]|] eqn:E; [|discriminate].
    intros H. apply hstep_sstep in E. subst s1. apply IH in H. exact H.
Qed.

(* the C02 equation at the end of a history *)
Definition C02_equation (g : genesis) (s : state) (p : phase) (gh : ghost) : Prop :=
  supply (work s) + pending p s =
  supply (work (init_chain g)) + gh_withdrawn gh - amountPerPower * gh_slashed gh - gh_burned gh.

(* ================================================================== S6: the collision *)
(* Every genesis stake carries hash 0.  Two genesis validators unstake in the same block: both
   stakes are filed in the frozen MAP under key 0, the second overwrites the first, and 100 units
   of power (10^20 base units) vanish although nothing was slashed, burned or withdrawn. *)
Definition collision_ops : list sop :=
  [SBegin (demo_hdr 1 (Some 11%N));
   SDeliver (demo_tx TRX_UNSTAKING 11%N 11%N 0 4000 0 (PUnstake 0%N true) 5%N);
   SDeliver (demo_tx TRX_UNSTAKING 12%N 12%N 0 4000 0 (PUnstake 0%N true) 6%N);
   SEnd; SCommit].

Ltac zclosed := repeat split; vm_compute; congruence.

Lemma collision_run : exists s, hrun (init_chain demo_genesis, PIdle, ghost0) collision_ops = Some (s, PIdle, ghost0).
Proof. eexists. vm_compute. reflexivity. Qed.

Lemma collision_supply s :
  hrun (init_chain demo_genesis, PIdle, ghost0) collision_ops = Some (s, PIdle, ghost0) ->
  supply (work s) = supply (work (init_chain demo_genesis)) - 100 * amountPerPower.
Proof. vm_compute. intros [= <-]. vm_compute. reflexivity. Qed.

Lemma genesis_hashes_collide : ~ hashes_unique (work (init_chain demo_genesis)).
Proof.
  intros (Hnd & _). revert Hnd. vm_compute. intros Hnd.
  apply NoDup_cons in Hnd as (Hx & _). apply Hx. left.
Qed.

Theorem C02_collision_refuted :
  exists g ops s p gh,
    hrun (init_chain g, PIdle, ghost0) ops = Some (s, p, gh) /\
    gh = ghost0 /\ p = PIdle /\
    Forall (fun o => match o with SDeliver t => tx_wf t /\ payload_wf t /\ t_evm t = None | _ => True end) ops /\
    params_ok (gen_params g) /\
    supply (work s) = supply (work (init_chain g)) - 100 * amountPerPower /\
    ~ C02_equation g s p gh /\
    ~ hashes_unique (work (init_chain g)).
Proof.
  destruct collision_run as (s & Hs).
  exists demo_genesis, collision_ops, s, PIdle, ghost0.
  pose proof (collision_supply s Hs) as Hsup.
  split; [exact Hs|]. split; [reflexivity|]. split; [reflexivity|].
  split.
  { unfold collision_ops. repeat apply Forall_cons_2; try exact I; try apply Forall_nil_2.
    - split; [zclosed|]. split; [intros req H; discriminate H|reflexivity].
    - split; [zclosed|]. split; [intros req H; discriminate H|reflexivity]. }
  split; [zclosed|]. split; [exact Hsup|]. split; [|exact genesis_hashes_collide].
  unfold C02_equation. rewrite Hsup. cbn [pending ghost0 gh_withdrawn gh_slashed gh_burned].
  unfold amountPerPower. lia.
Qed.
Print Assumptions C02_collision_refuted.

(* ================================================================== S5: the history theorem *)
(* ---- the frozen map only grows between BeginBlock and EndBlock *)
Lemma stake_execute_unstaking_frozen s2 l t l' :
  t_type t = TRX_UNSTAKING -> stake_execute s2 l t = Ok l' -> hashes_unique l -> frozen l ⊆ frozen l'.
Proof.
  intros Hty He Hu. revert He. unfold stake_execute. rewrite Hty.
  change (TRX_UNSTAKING =? TRX_STAKING) with false. change (TRX_UNSTAKING =? TRX_UNSTAKING) with true. cbv iota zeta.
  destruct (dels l !! t_to t) as [d|] eqn:Ed; [|discriminate].
  destruct (t_payload t) as [|hs lenok| | | | |]; try discriminate.
  destruct (find_stake hs (d_stakes d)) as [s0|] eqn:Ef; [|discriminate].
  destruct (negb (s_from s0 =? t_from t)%N); [discriminate|].
  destruct (hashes_unique_delegatee _ _ _ Hu Ed) as (Hnd & Hfresh).
  pose proof (find_stake_Some _ _ _ Ef) as (Hh & Hperm).
  destruct (del_stake_found _ _ _ Ef) as (Hst1 & _).
  assert (Hnd' : NoDup (s_hash <$> (s0 :: remove_stake hs (d_stakes d)))) by (rewrite <- Hperm; exact Hnd).
  assert (Hfresh' : forall s, s ∈ s0 :: remove_stake hs (d_stakes d) -> frozen l !! s_hash s = None).
  { intros s Hs. apply Hfresh. rewrite Hperm. exact Hs. }
  rewrite fmap_cons in Hnd'. apply NoDup_cons in Hnd' as (Hnotin & Hnd').
  set (refund := b_height (bctx s2) + g_lazyRewardBlocks (gparams s2)).
  assert (H1 : frozen l ⊆ <[s_hash s0 := with_refund refund s0]> (frozen l)).
  { apply insert_subseteq. apply Hfresh', elem_of_cons. auto. }
  destruct (d_self (del_stake d hs) =? 0).
  - unfold del_all_stakes. cbn [d_total d_stakes].
    assert (H2 : frozen l ⊆ freeze_all (<[s_hash s0 := with_refund refund s0]> (frozen l)) refund (d_stakes (del_stake d hs))).
    { etransitivity; [exact H1|]. apply freeze_all_subseteq. rewrite Hst1. intros s Hs.
      rewrite lookup_insert_ne.
      - apply Hfresh', elem_of_cons. auto.
      - intros Heq. apply Hnotin. rewrite Heq. apply elem_of_list_fmap. exists s. auto. }
    destruct (d_total (del_stake d hs) - sum_power (d_stakes (del_stake d hs)) =? 0); intros [= Heq]; subst l'; exact H2.
  - destruct (d_total (del_stake d hs) =? 0); intros [= Heq]; subst l'; exact H1.
Qed.

Lemma exec_native_frozen s1 s2 t l' lim' r :
  validated_of s1 r t = Ok lim' -> evm_path_of t r = false -> exec_native s2 t = Ok l' ->
  (t_type t = TRX_UNSTAKING -> hashes_unique (work s2)) ->
  frozen (work s2) ⊆ frozen l'.
Proof.
  intros Hv Hp He Hun.
  destruct (validated_native_types _ _ _ _ Hv Hp) as [Hty|[Hty|[Hty|[Hty|[Hty|[Hty|Hty]]]]]].
  - rewrite exec_native_transfer in He by exact Hty.
    apply acct_execute_transfer_inv in He as (? & ? & ? & ? & _ & _ & _ & _ & ->); [reflexivity|exact Hty].
  - rewrite exec_native_staking in He by exact Hty.
    apply stake_execute_staking_inv in He as (? & ? & ? & _ & _ & _ & ->); [reflexivity|exact Hty].
  - rewrite exec_native_unstaking in He by exact Hty.
    apply (stake_execute_unstaking_frozen _ _ _ _ Hty He (Hun Hty)).
  - rewrite exec_native_proposal in He by exact Hty. apply gov_execute_accts in He as (_ & _ & Hf & _). rewrite Hf. reflexivity.
  - rewrite exec_native_voting in He by exact Hty. apply gov_execute_accts in He as (_ & _ & Hf & _). rewrite Hf. reflexivity.
  - rewrite exec_native_setdoc in He by exact Hty.
    apply acct_execute_setdoc_inv in He as (? & ? & _ & _ & _ & _ & ->); [reflexivity|exact Hty].
  - rewrite exec_native_withdraw in He by exact Hty.
    apply stake_execute_withdraw_inv in He as (? & ? & ? & ? & ? & _ & _ & _ & _ & ->); [reflexivity|exact Hty].
Qed.

Lemma deliver_native_frozen s t s' g :
  deliver s t = (s', Ok g) -> native s t -> (t_type t = TRX_UNSTAKING -> hashes_unique (work s)) ->
  frozen (work s) ⊆ frozen (work s').
Proof.
  intros Hd Hn Hun.
  apply deliver_ok_inv in Hd as (sender & lim' & Hs & H0 & H1 & Hv & Hd). cbv zeta in Hd.
  rewrite receiver_of_eq in Hv, Hd. unfold native in Hn. rewrite Hn in Hd.
  destruct Hd as (l' & snd' & snd'' & He & _ & _ & _ & ->). cbn [work with_bctx with_work].
  rewrite frozen_set_acct.
  destruct (find_or_new_spec (work s) (t_to t)) as (_ & _ & _ & _ & _ & Hd0 & Hf0 & _).
  rewrite <- Hf0. apply (exec_native_frozen _ _ _ _ _ _ Hv Hn He).
  intros Hty. cbn [work with_lim]. rewrite pre_state_work.
  apply (hashes_unique_same (work s)); [exact Hd0|exact Hf0|exact (Hun Hty)].
Qed.

(* ---- refunds are bounded by the unbonding power *)
Lemma sumZ_with_le {A} (f g : A -> Z) l : (forall x, x ∈ l -> f x <= g x) -> sumZ_with f l <= sumZ_with g l.
Proof.
  induction l as [|x l IH]; intros H; simpl; [lia|].
  assert (f x <= g x) by (apply H, elem_of_cons; auto).
  assert (sumZ_with f l <= sumZ_with g l) by (apply IH; intros y Hy; apply H, elem_of_cons; auto). lia.
Qed.

Lemma sumZ_with_scale {A} (c : Z) (f : A -> Z) l : sumZ_with (fun x => c * f x) l = c * sumZ_with f l.
Proof. induction l as [|x l IH]; simpl; [lia|]. rewrite IH. lia. Qed.

Lemma map_sum_subseteq {A} (f : A -> Z) (m1 m2 : gmap N A) :
  m1 ⊆ m2 -> (forall k x, m2 !! k = Some x -> 0 <= f x) -> map_sum f m1 <= map_sum f m2.
Proof.
  intros Hsub Hnn. unfold map_sum.
  destruct (submseteq_Permutation _ _ (map_to_list_submseteq _ _ Hsub)) as (k & Hk).
  rewrite (sumZ_with_perm _ _ _ Hk), sumZ_with_app.
  assert (0 <= sumZ_with (fun kv : N * A => f kv.2) k); [|lia].
  assert (Hin : forall kv, kv ∈ k -> 0 <= f kv.2).
  { intros [i x] Hi. apply (Hnn i x). apply elem_of_map_to_list. rewrite Hk. apply elem_of_app. auto. }
  clear Hk. induction k as [|kv k IH]; simpl; [lia|].
  assert (0 <= f kv.2) by (apply Hin, elem_of_cons; auto).
  assert (0 <= sumZ_with (fun kv0 : N * A => f kv0.2) k) by (apply IH; intros y Hy; apply Hin, elem_of_cons; auto). lia.
Qed.

Lemma refunds_le_frozen (fr : gmap hash stake) h a :
  (forall k s0, fr !! k = Some s0 -> 0 <= s_power s0 < two63) ->
  refunds_to (sorted_items fr) h a <= amountPerPower * map_sum s_power fr.
Proof.
  intros Hp. unfold refunds_to, map_sum. rewrite (sumZ_with_perm _ _ _ (sorted_items_perm fr)).
  rewrite <- sumZ_with_scale. apply sumZ_with_le. intros [k s0] Hin. apply elem_of_map_to_list in Hin.
  specialize (Hp k s0 Hin). unfold refund_of. cbn [snd].
  assert (0 < amountPerPower) by (unfold amountPerPower; lia).
  destruct (_ && _); [rewrite power_to_amount_exact by exact Hp; lia|nia].
Qed.

(* ---- genesis *)
Lemma foldl_frozen_preserved {A} (f : ledgers -> A -> ledgers) (xs : list A) :
  (forall l x, frozen (f l x) = frozen l) -> forall l, frozen (foldl f l xs) = frozen l.
Proof. intros Hf. induction xs as [|x xs IH]; intros l; [reflexivity|]. cbn [foldl]. rewrite IH. apply Hf. Qed.

Lemma init_chain_frozen g : frozen (work (init_chain g)) = ∅ /\ committed (init_chain g) = [].
Proof.
  split; [|reflexivity]. unfold init_chain. cbn [work].
  rewrite foldl_frozen_preserved by (intros; reflexivity).
  rewrite foldl_frozen_preserved by (intros l v; apply find_or_new_spec).
  rewrite foldl_frozen_preserved by (intros; reflexivity). reflexivity.
Qed.

(* ---- what is assumed of every state along the run (C11 territory, discharged elsewhere for runs
   that avoid the genesis-hash collision): stake hashes unique, delegatee totals consistent,
   powers in the int64 range, parameters in range *)
Definition powers_ok (l : ledgers) : Prop :=
  forall s, s ∈ bonded_stakes l ++ frozen_stakes l -> 0 <= s_power s < two63.
Definition run_ok (s : state) : Prop :=
  hashes_unique (work s) /\ totals_ok (work s) /\ powers_ok (work s) /\ params_ok (gparams s).

Fixpoint along (Q : state -> Prop) (s : state) (ops : list sop) : Prop :=
  Q s /\ match ops with [] => True | o :: r => along Q (sstep s o) r end.

Lemma along_prefixes (Q : state -> Prop) ops : forall s, (forall pre, pre `prefix_of` ops -> Q (srun s pre)) -> along Q s ops.
Proof.
  induction ops as [|o ops IH]; intros s H; cbn [along].
  - split; [apply (H []); reflexivity|exact I].
  - split; [apply (H []); apply prefix_nil|]. apply IH. intros pre Hpre.
    apply (H (o :: pre)). apply prefix_cons. exact Hpre.
Qed.

(* delivered transactions: Go-typed fields; EVM executions are outside this theorem (their effect
   is an oracle, see [deliver_evm_supply]): with [t_evm = None] a transaction that reaches the EVM fails *)
Definition txs_ok (ops : list sop) : Prop :=
  Forall (fun o => match o with SDeliver t => tx_wf t /\ payload_wf t /\ t_evm t = None | _ => True end) ops.

(* the bound under which nothing wraps: everything that ever exists fits the int64 power range *)
Definition supply_bound : Z := two63 * amountPerPower.

Lemma supply_bound_lt : supply_bound < two255 /\ supply_bound <= two64 * amountPerPower.
Proof. split; vm_compute; congruence. Qed.

(* the invariant carried along a history; [S0] = genesis supply *)
Definition hist_inv (S0 : Z) (x : state * phase * ghost) : Prop :=
  let '(s, p, gh) := x in
  supply (work s) + pending p s = S0 + gh_withdrawn gh - amountPerPower * gh_slashed gh - gh_burned gh /\
  bal_range (work s) /\
  0 <= gh_withdrawn gh /\ 0 <= gh_slashed gh /\ 0 <= gh_burned gh /\
  (p = POpen -> 0 <= b_feesum (bctx s) < two256) /\
  match p with
  | PIdle => frozen (base_of s) = frozen (work s)
  | POpen => frozen (base_of s) ⊆ frozen (work s)
  | PEnded => True end.

Lemma powers_ok_parts l : powers_ok l ->
  0 <= bonded_power l /\ 0 <= frozen_power l /\
  (forall k s0, frozen l !! k = Some s0 -> 0 <= s_power s0 < two63) /\ bonded_nonneg l.
Proof.
  intros Hp.
  assert (Hfr : forall k s0, frozen l !! k = Some s0 -> 0 <= s_power s0 < two63).
  { intros k s0 Hk. apply Hp. apply elem_of_app. right. unfold frozen_stakes.
    apply elem_of_list_fmap. exists (k, s0). split; [reflexivity|]. apply elem_of_map_to_list. exact Hk. }
  assert (Hbn : bonded_nonneg l).
  { intros a d Hd. apply Forall_forall. intros s Hs.
    assert (0 <= s_power s < two63); [|lia]. apply Hp. apply elem_of_app. left. eapply elem_of_bonded; eassumption. }
  split; [|split; [|split; assumption]].
  - rewrite bonded_power_map_sum. apply map_sum_nonneg. intros a d Hd. apply sum_power_nonneg. apply (Hbn a d Hd).
  - rewrite frozen_power_map_sum. apply map_sum_nonneg. intros k s0 Hk. apply (Hfr k s0 Hk).
Qed.

(* every balance is below the bound while the invariant holds *)
Lemma hist_inv_bal S0 s p gh W :
  hist_inv S0 (s, p, gh) -> powers_ok (work s) -> gh_withdrawn gh <= W ->
  total_balance (work s) + pending p s <= S0 + W /\ 0 <= pending p s /\
  supply (work s) + pending p s <= S0 + W /\
  forall a, 0 <= bal_of (work s) a <= S0 + W.
Proof.
  intros (Heq & Hr & Hw & Hsl & Hb & Hfs & _) Hp HW.
  destruct (powers_ok_parts _ Hp) as (Hbp & Hfp & _).
  assert (Happ : 0 < amountPerPower) by (unfold amountPerPower; lia).
  assert (Hpend : 0 <= pending p s) by (destruct p; cbn [pending]; try lia; apply Hfs; reflexivity).
  assert (Hsup : supply (work s) + pending p s <= S0 + W) by nia.
  assert (Htb : total_balance (work s) + pending p s <= S0 + W) by (unfold supply in Hsup; nia).
  split; [exact Htb|]. split; [exact Hpend|]. split; [exact Hsup|].
  intros a. pose proof (bal_le_total _ a Hr). pose proof (bal_range_bal_of _ a Hr). lia.
Qed.

Lemma begin_block_committed s hd : committed (begin_block s hd).1 = committed s.
Proof.
  unfold begin_block. destruct (negb (h_height hd =? last_height s + 1)); [reflexivity|]. cbv zeta.
  destruct (h_votes hd); [reflexivity|]. destruct (process_votes _ _ _ _) as [[l3 i]|e|pp]; reflexivity.
Qed.

Lemma base_of_same s s' : committed s' = committed s -> gparams s' = gparams s -> base_of s' = base_of s.
Proof. intros Hc Hg. unfold base_of. rewrite Hc, Hg. reflexivity. Qed.

Lemma hist_step_begin S0 s gh hd s' x :
  begin_block s hd = (s', Ok x) -> h_height hd = last_height s + 1 -> run_ok s ->
  hist_inv S0 (s, PIdle, gh) ->
  hist_inv S0 (s', POpen, {| gh_withdrawn := gh_withdrawn gh; gh_slashed := gh_slashed gh + slashed_power s hd;
                             gh_burned := gh_burned gh |}).
Proof.
  intros Hb Hh (Hu & _ & Hpw & Hpar) (Heq & Hr & Hw & Hsl & Hbn & _ & Hfz).
  destruct (powers_ok_parts _ Hpw) as (_ & _ & _ & Hnn).
  assert (Hratio : 0 <= g_slashRatio (gparams s) <= 100) by (destruct Hpar as (_ & _ & _ & Hx & _); exact Hx).
  destruct (begin_block_supply _ _ _ _ Hb Hh Hratio Hu Hnn) as (Hs & Hsn & Ha & _ & Hsub).
  destruct (begin_block_feesum _ _ _ _ Hb Hh) as (Hf0 & _).
  assert (Hbase : base_of s' = base_of s).
  { apply base_of_same.
    - pose proof (begin_block_committed s hd) as H. rewrite Hb in H. exact H.
    - pose proof (begin_block_gparams s hd) as H. rewrite Hb in H. exact H. }
  cbn [hist_inv pending gh_withdrawn gh_slashed gh_burned] in *.
  split; [rewrite Hs, Hf0; lia|]. split; [intros a y; rewrite Ha; apply Hr|].
  split; [exact Hw|]. split; [lia|]. split; [exact Hbn|].
  split; [intros _; rewrite Hf0; pose proof two256_pos; lia|].
  rewrite Hbase, Hfz. exact Hsub.
Qed.

Lemma deliver_ok_funds s t s' g :
  deliver s t = (s', Ok g) -> params_ok (gparams s) -> tx_wf t ->
  fee_of t + t_amount t <= bal_of (work s) (t_from t) /\ fee_of t < two255 /\ t_amount t < two255.
Proof.
  intros Hd Hpar Hwf. apply deliver_ok_inv in Hd as (sender & lim' & Hs & H0 & H1 & _).
  pose proof Hwf as (Hamt & _ & Hgas & _).
  pose proof (fee_lt_two255 _ _ Hpar H0 (proj1 Hgas)) as Hfee.
  apply common_validation1_None in H1 as (Hfund & _).
  apply common_validation0_None in H0 as (_ & _ & Hsa & _).
  apply sign256_nonneg_iff in Hsa; [|lia].
  pose proof (fee_of_range t) as Hfr. pose proof two255_two256 as H25.
  rewrite add256_small in Hfund by lia. rewrite (bal_of_lookup _ _ _ Hs). lia.
Qed.

Lemma withdrawn_of_nonneg t : payload_wf t -> 0 <= withdrawn_of t.
Proof.
  intros Hp. unfold withdrawn_of. destruct (t_type t =? TRX_WITHDRAW) eqn:E; [|lia]. apply Z.eqb_eq in E.
  destruct (t_payload t) as [| |req| | | |] eqn:Epl; try lia. specialize (Hp req E Epl). lia.
Qed.

Lemma room_for_bound l t a :
  (t_type t = TRX_TRANSFER -> t_from t <> t_to t -> a = t_to t -> bal_of l a + t_amount t < two256) ->
  0 <= withdrawn_of t -> bal_of l a + withdrawn_of t < two256 ->
  room_for l t a.
Proof.
  intros Htr Hwn Hw. unfold room_for, tx_in, withdrawn_of in *.
  destruct (t_type t =? TRX_TRANSFER) eqn:E1.
  - apply Z.eqb_eq in E1. destruct (decide (a = t_from t)) as [Haf|Haf]; [left; auto|]. right.
    destruct (decide (a = t_to t)) as [Hat|Hat]; [|lia]. apply Htr; [exact E1|congruence|exact Hat].
  - right. destruct (t_type t =? TRX_WITHDRAW); [|lia].
    destruct (t_payload t); try lia. destruct (decide (a = t_from t)); lia.
Qed.

Lemma native_of_ok s t s' g : deliver s t = (s', Ok g) -> t_evm t = None -> native s t.
Proof.
  intros Hd He. apply deliver_ok_inv in Hd as (sender & lim' & _ & _ & _ & _ & Hd). cbv zeta in Hd.
  rewrite receiver_of_eq in Hd. unfold native.
  destruct (evm_path_of t (acct_of (work s) (t_to t))); [|reflexivity].
  destruct Hd as (l' & Hx & _). unfold evm_execute in Hx. rewrite He in Hx. discriminate.
Qed.

Lemma hist_step_deliver_ok_native S0 s gh t s' g :
  deliver s t = (s', Ok g) -> run_ok s -> tx_wf t -> payload_wf t -> native s t ->
  hist_inv S0 (s, POpen, gh) -> S0 + (gh_withdrawn gh + withdrawn_of t) < supply_bound ->
  hist_inv S0 (s', POpen, {| gh_withdrawn := gh_withdrawn gh + withdrawn_of t; gh_slashed := gh_slashed gh;
                             gh_burned := gh_burned gh |}).
Proof.
  intros Hd (Hu & Htot & Hpw & Hpar) Hwf Hpl Hn Hinv Hbound.
  pose proof (withdrawn_of_nonneg _ Hpl) as Hwn.
  destruct (hist_inv_bal S0 s POpen gh (gh_withdrawn gh) Hinv Hpw ltac:(lia)) as (Htb & Hpend & Hsup & Hbal).
  destruct Hinv as (Heq & Hr & Hw & Hsl & Hbn & Hfs & Hfz).
  destruct supply_bound_lt as (Hb255 & Hb64). pose proof two255_two256 as H25.
  destruct (deliver_ok_funds _ _ _ _ Hd Hpar Hwf) as (Hfund & Hfee & Hamt).
  pose proof (fee_of_range t) as Hfr. pose proof Hwf as ((Ha0 & _) & _).
  assert (Hroom : forall a, room_for (work s) t a).
  { intros a. apply room_for_bound; [|exact Hwn|pose proof (Hbal a); lia].
    intros _ Hne ->. pose proof (bal2_le_total (work s) (t_to t) (t_from t) Hr ltac:(congruence)). lia. }
  assert (Hstk : stake_amount_ok t). { intros _. pose proof (Hbal (t_from t)). lia. }
  assert (Hun : unstake_ok (work s) t) by (intros _; auto).
  pose proof (deliver_native_supply _ _ _ _ Hd Hn Hwf Hpl Hr (Hroom _) (Hroom _) Hstk Hun) as Hs'.
  destruct (deliver_native_balances _ _ _ _ Hd Hn Hwf Hpl Hr) as (_ & Hr' & _).
  pose proof (deliver_native_feesum _ _ _ _ Hd Hn) as Hf'.
  destruct (deliver_bctx _ _ _ _ Hd) as (_ & _ & _ & Hg & Hc & _).
  pose proof (deliver_native_frozen _ _ _ _ Hd Hn ltac:(intros _; exact Hu)) as Hsub.
  cbn [pending] in *. specialize (Hfs eq_refl).
  assert (Hexact : b_feesum (bctx s') = b_feesum (bctx s) + fee_of t).
  { rewrite Hf'. apply add256_small. pose proof (Hbal (t_from t)). pose proof (bal_le_total _ (t_from t) Hr). lia. }
  cbn [hist_inv pending gh_withdrawn gh_slashed gh_burned].
  split; [rewrite Hs', Hexact; lia|]. split; [exact Hr'|]. split; [lia|]. split; [exact Hsl|]. split; [exact Hbn|].
  split; [intros _; rewrite Hf'; apply add256_range|].
  rewrite (base_of_same _ _ Hc Hg). etransitivity; eassumption.
Qed.

Lemma hist_step_deliver_ok S0 s gh t s' g :
  deliver s t = (s', Ok g) -> run_ok s -> tx_wf t -> payload_wf t -> t_evm t = None ->
  hist_inv S0 (s, POpen, gh) -> S0 + (gh_withdrawn gh + withdrawn_of t) < supply_bound ->
  hist_inv S0 (s', POpen, {| gh_withdrawn := gh_withdrawn gh + withdrawn_of t; gh_slashed := gh_slashed gh;
                             gh_burned := gh_burned gh |}).
Proof.
  intros Hd Hok Hwf Hpl Hevm. apply (hist_step_deliver_ok_native _ _ _ _ _ _ Hd Hok Hwf Hpl).
  apply (native_of_ok _ _ _ _ Hd Hevm).
Qed.

Lemma hist_step_deliver_fail S0 s gh t s' r :
  deliver s t = (s', r) -> (forall g, r <> Ok g) -> run_ok s -> tx_wf t -> payload_wf t ->
  hist_inv S0 (s, POpen, gh) -> S0 + gh_withdrawn gh < supply_bound ->
  hist_inv S0 (s', POpen, gh).
Proof.
  intros Hd Hnok (Hu & Htot & Hpw & Hpar) Hwf Hpl Hinv Hbound.
  destruct (hist_inv_bal S0 s POpen gh (gh_withdrawn gh) Hinv Hpw ltac:(lia)) as (_ & _ & _ & Hbal).
  destruct Hinv as (Heq & Hr & Hw & Hsl & Hbn & Hfs & Hfz).
  destruct supply_bound_lt as (Hb255 & _).
  assert (Hlt : bal_of (work s) (t_from t) < two255) by (pose proof (Hbal (t_from t)); lia).
  destruct (deliver_fail_supply _ _ _ _ Hd Hnok Hwf Hpl Hpar Hr Hlt) as (Hs' & Hr' & Hf').
  destruct (deliver_bctx _ _ _ _ Hd) as (_ & _ & Hfsum & Hg & Hc & _).
  assert (Hfsame : b_feesum (bctx s') = b_feesum (bctx s)).
  { destruct r as [g|e|p]; [exfalso; apply (Hnok g); reflexivity|exact Hfsum..]. }
  cbn [hist_inv pending] in *.
  split; [rewrite Hs', Hfsame; exact Heq|]. split; [exact Hr'|]. split; [exact Hw|]. split; [exact Hsl|].
  split; [exact Hbn|]. split; [rewrite Hfsame; exact Hfs|].
  rewrite (base_of_same _ _ Hc Hg), Hf'. exact Hfz.
Qed.

Lemma paid_le_feesum b : 0 <= b_feesum b -> 0 <= paid_fees b <= b_feesum b.
Proof. intros H. unfold paid_fees. destruct (b_proposer b); [destruct (0 <? sign256 (b_feesum b))|]; lia. Qed.

Lemma end_fee_le b a : 0 <= b_feesum b -> 0 <= end_fee b a <= b_feesum b.
Proof.
  intros H. unfold end_fee. destruct (decide (b_proposer b = Some a)); [destruct (0 <? sign256 (b_feesum b))|]; lia.
Qed.

(* the hypotheses of [end_block_supply] follow from the history invariant *)
Lemma end_block_hyps_from_inv S0 s gh :
  run_ok s -> hist_inv S0 (s, POpen, gh) -> S0 + gh_withdrawn gh < supply_bound ->
  bal_range (work s) /\ 0 <= b_feesum (bctx s) < two256 /\ frozen_synced s /\
  (forall a, bal_of (work s) a + end_fee (bctx s) a +
             refunds_to (sorted_items (frozen (base_of s))) (b_height (bctx s)) a < two256).
Proof.
  intros (Hu & Htot & Hpw & Hpar) Hinv Hbound.
  destruct (hist_inv_bal S0 s POpen gh (gh_withdrawn gh) Hinv Hpw ltac:(lia)) as (Htb & Hpend & Hsup & Hbal).
  destruct Hinv as (Heq & Hr & Hw & Hsl & Hbn & Hfs & Hfz).
  destruct (powers_ok_parts _ Hpw) as (Hbp & Hfp & Hfr & _).
  destruct supply_bound_lt as (Hb255 & _). pose proof two255_two256 as H25.
  cbn [pending] in *. specialize (Hfs eq_refl).
  split; [exact Hr|]. split; [exact Hfs|]. split.
  - intros k s0 Hk _. pose proof (lookup_weaken _ _ _ _ Hk Hfz) as Hk'.
    split; [apply (Hfr k s0 Hk')|]. exists s0. auto.
  - intros a.
    pose proof (end_fee_le (bctx s) a (proj1 Hfs)) as Hef.
    assert (Hrf : refunds_to (sorted_items (frozen (base_of s))) (b_height (bctx s)) a
                  <= amountPerPower * frozen_power (work s)).
    { etransitivity; [apply refunds_le_frozen|].
      - intros k s0 Hk. apply (Hfr k s0). apply (lookup_weaken _ _ _ _ Hk Hfz).
      - rewrite frozen_power_map_sum.
        assert (Happ : 0 < amountPerPower) by (unfold amountPerPower; lia).
        apply Z.mul_le_mono_nonneg_l; [lia|]. apply map_sum_subseteq; [exact Hfz|].
        intros k x Hk. apply (Hfr k x Hk). }
    pose proof (bal_le_total _ a Hr) as Hbt.
    assert (Happ : 0 < amountPerPower) by (unfold amountPerPower; lia).
    unfold supply in Hsup. nia.
Qed.

Lemma hist_step_end S0 s gh s' ups :
  end_block s = (s', Ok ups) -> run_ok s ->
  hist_inv S0 (s, POpen, gh) -> S0 + gh_withdrawn gh < supply_bound ->
  hist_inv S0 (s', PEnded, {| gh_withdrawn := gh_withdrawn gh; gh_slashed := gh_slashed gh;
                              gh_burned := gh_burned gh + (b_feesum (bctx s) - paid_fees (bctx s)) |}).
Proof.
  intros He Hok Hinv Hbound.
  destruct (end_block_hyps_from_inv _ _ _ Hok Hinv Hbound) as (Hr & Hfs & Hsync & Hroom).
  destruct Hinv as (Heq & _ & Hw & Hsl & Hbn & _ & _). cbn [pending] in Heq.
  pose proof (end_block_supply _ _ _ He Hr Hfs Hsync Hroom) as Hs'.
  destruct (end_block_balances _ _ _ He Hr Hfs) as (Hr' & _).
  pose proof (paid_le_feesum (bctx s) (proj1 Hfs)) as Hpaid.
  cbn [hist_inv pending gh_withdrawn gh_slashed gh_burned].
  split; [rewrite Hs'; lia|]. split; [exact Hr'|]. split; [exact Hw|]. split; [exact Hsl|]. split; [lia|].
  split; [discriminate|exact I].
Qed.

Lemma hist_step_commit S0 s gh :
  hist_inv S0 (s, PEnded, gh) -> hist_inv S0 (commit s, PIdle, gh).
Proof.
  intros (Heq & Hr & Hw & Hsl & Hbn & _ & _). cbn [hist_inv pending] in *.
  split; [exact Heq|]. split; [exact Hr|]. split; [exact Hw|]. split; [exact Hsl|]. split; [exact Hbn|].
  split; [discriminate|]. unfold base_of, commit. cbn [committed work]. rewrite last_snoc. reflexivity.
Qed.

(* withdrawn totals only grow *)
Lemma hstep_withdrawn_mono s p gh o s' p' gh' :
  hstep (s, p, gh) o = Some (s', p', gh') ->
  (match o with SDeliver t => payload_wf t | _ => True end) ->
  gh_withdrawn gh <= gh_withdrawn gh'.
Proof.
  unfold hstep. destruct p, o as [hd|t| |]; try discriminate.
  - destruct (h_height hd =? last_height s + 1); [|discriminate].
    destruct (begin_block s hd) as [s1 [x|e|pp]]; [|discriminate..]. intros [= _ _ <-] _. cbn. lia.
  - destruct (deliver s t) as [s1 [x|e|pp]]; intros [= _ _ <-] Hp; cbn; try lia.
    pose proof (withdrawn_of_nonneg _ Hp). lia.
  - destruct (end_block s) as [s1 [x|e|pp]]; [|discriminate..]. intros [= _ _ <-] _. cbn. lia.
  - intros [= _ _ <-] _. lia.
Qed.

Lemma hrun_withdrawn_mono ops : forall s p gh s' p' gh',
  hrun (s, p, gh) ops = Some (s', p', gh') -> txs_ok ops -> gh_withdrawn gh <= gh_withdrawn gh'.
Proof.
  induction ops as [|o ops IH]; intros s p gh s' p' gh'; cbn [hrun].
  - intros [= _ _ <-] _. lia.
  - destruct (hstep (s, p, gh) o) as [[[s1 p1] gh1]|] eqn:E; [|discriminate].
    intros H Htx. apply Forall_cons in Htx as (Ho & Htx).
    pose proof (hstep_withdrawn_mono _ _ _ _ _ _ _ E) as H1.
    pose proof (IH _ _ _ _ _ _ H Htx) as H2.
    assert (gh_withdrawn gh <= gh_withdrawn gh1); [|lia].
    apply H1. destruct o; try exact I. apply Ho.
Qed.

Lemma hist_step S0 s p gh o s' p' gh' :
  hstep (s, p, gh) o = Some (s', p', gh') -> run_ok s ->
  (match o with SDeliver t => tx_wf t /\ payload_wf t /\ t_evm t = None | _ => True end) ->
  hist_inv S0 (s, p, gh) -> S0 + gh_withdrawn gh' < supply_bound ->
  hist_inv S0 (s', p', gh').
Proof.
  intros Hst Hok Ho Hinv Hbound.
  assert (Hmono : gh_withdrawn gh <= gh_withdrawn gh').
  { apply (hstep_withdrawn_mono _ _ _ _ _ _ _ Hst). destruct o; try exact I. apply Ho. }
  revert Hst. unfold hstep. destruct p, o as [hd|t| |]; try discriminate.
  - destruct (h_height hd =? last_height s + 1) eqn:Eh; [|discriminate]. apply Z.eqb_eq in Eh.
    destruct (begin_block s hd) as [s1 [x|e|pp]] eqn:Eb; [|discriminate..]. intros [= <- <- <-].
    apply (hist_step_begin _ _ _ _ _ _ Eb Eh Hok Hinv).
  - destruct Ho as (Hwf & Hpl & Hevm).
    destruct (deliver s t) as [s1 [x|e|pp]] eqn:Ed; intros [= <- <- <-].
    + apply (hist_step_deliver_ok _ _ _ _ _ _ Ed Hok Hwf Hpl Hevm Hinv). exact Hbound.
    + apply (hist_step_deliver_fail _ _ _ _ _ _ Ed); try assumption. intros g; discriminate.
    + apply (hist_step_deliver_fail _ _ _ _ _ _ Ed); try assumption. intros g; discriminate.
  - destruct (end_block s) as [s1 [x|e|pp]] eqn:Ee; [|discriminate..]. intros [= <- <- <-].
    apply (hist_step_end _ _ _ _ _ Ee Hok Hinv). exact Hbound.
  - intros [= <- <- <-]. apply hist_step_commit. exact Hinv.
Qed.

Lemma hist_run S0 ops : forall s p gh s' p' gh',
  hrun (s, p, gh) ops = Some (s', p', gh') -> along run_ok s ops -> txs_ok ops ->
  hist_inv S0 (s, p, gh) -> S0 + gh_withdrawn gh' < supply_bound ->
  hist_inv S0 (s', p', gh').
Proof.
  induction ops as [|o ops IH]; intros s p gh s' p' gh'; cbn [hrun along].
  - intros [= <- <- <-] _ _ Hinv _. exact Hinv.
  - destruct (hstep (s, p, gh) o) as [[[s1 p1] gh1]|] eqn:E; [|discriminate].
    intros H (Hok & Hal) Htx Hinv Hbound. apply Forall_cons in Htx as (Ho & Htx).
    pose proof (hstep_sstep _ _ _ _ _ _ _ E) as Hs1. subst s1.
    pose proof (hrun_withdrawn_mono _ _ _ _ _ _ _ H Htx) as Hmono.
    apply (IH _ _ _ _ _ _ H Hal Htx); [|exact Hbound].
    apply (hist_step _ _ _ _ _ _ _ _ E Hok Ho Hinv). lia.
Qed.

(* C02, history form.  For every genesis [g] and every history [ops] of a live node (ABCI order,
   BeginBlock / EndBlock succeed), if
   - the stake-ledger invariants and parameter ranges [run_ok] hold in every state of the run
     (C11; they fail exactly for runs that hit the genesis-hash collision, [C02_collision_refuted]),
   - delivered transactions carry Go-typed fields and no EVM execution succeeds ([txs_ok]),
   - genesis balances are in range and genesis supply + all rewards withdrawn during the run stay
     below 2^63 * 10^18 base units,
   then after the run: balances + bonded + unbonding (+ the fee sum of the open block) equal the
   genesis total + withdrawn rewards - slashed stake - fees not paid out (no proposer), and no
   balance has wrapped (all in [0, 2^256), in fact below the bound). *)
Theorem C02_history g ops s p gh :
  hrun (init_chain g, PIdle, ghost0) ops = Some (s, p, gh) ->
  (forall pre, pre `prefix_of` ops -> run_ok (srun (init_chain g) pre)) ->
  txs_ok ops ->
  bal_range (work (init_chain g)) ->
  supply (work (init_chain g)) + gh_withdrawn gh < supply_bound ->
  s = srun (init_chain g) ops /\
  C02_equation g s p gh /\
  bal_range (work s) /\
  (forall a, 0 <= bal_of (work s) a < supply_bound) /\
  0 <= gh_withdrawn gh /\ 0 <= gh_slashed gh /\ 0 <= gh_burned gh.
Proof.
  intros Hrun Hok Htx Hr0 Hbound.
  split; [apply (hrun_srun _ _ _ _ _ _ _ Hrun)|].
  assert (Hinv0 : hist_inv (supply (work (init_chain g))) (init_chain g, PIdle, ghost0)).
  { cbn [hist_inv pending ghost0 gh_withdrawn gh_slashed gh_burned].
    split; [lia|]. split; [exact Hr0|]. split; [lia|]. split; [lia|]. split; [lia|]. split; [discriminate|].
    destruct (init_chain_frozen g) as (Hf & Hc). unfold base_of. rewrite Hc, Hf. reflexivity. }
  pose proof (hist_run _ _ _ _ _ _ _ _ Hrun (along_prefixes _ _ _ Hok) Htx Hinv0 Hbound) as Hinv.
  assert (Hpw : powers_ok (work s)).
  { pose proof (hrun_srun _ _ _ _ _ _ _ Hrun) as ->. apply (Hok ops). reflexivity. }
  destruct (hist_inv_bal _ _ _ _ (gh_withdrawn gh) Hinv Hpw ltac:(lia)) as (_ & _ & _ & Hbal).
  destruct Hinv as (Heq & Hr & Hw & Hsl & Hbn & _).
  split; [exact Heq|]. split; [exact Hr|]. split; [intros a; specialize (Hbal a); lia|]. auto.
Qed.
Print Assumptions C02_history.

(* ================================================================== examples: the hypotheses are satisfiable *)
Fixpoint alongb (f : state -> bool) (s : state) (ops : list sop) : bool :=
  f s && match ops with [] => true | o :: r => alongb f (sstep s o) r end.

Lemma alongb_prefixes (f : state -> bool) (Q : state -> Prop) ops :
  (forall s, f s = true -> Q s) -> forall s, alongb f s ops = true ->
  forall pre, pre `prefix_of` ops -> Q (srun s pre).
Proof.
  intros HfQ. induction ops as [|o ops IH]; intros s Hb pre Hpre; cbn [alongb] in Hb;
    apply andb_prop in Hb as (Hs & Hrest).
  - apply prefix_nil_inv in Hpre. subst pre. apply HfQ. exact Hs.
  - destruct pre as [|o' pre]; [apply HfQ; exact Hs|].
    apply prefix_cons_inv_1 in Hpre as Ho. subst o'. apply prefix_cons_inv_2 in Hpre.
    unfold srun. cbn [foldl]. apply (IH _ Hrest pre Hpre).
Qed.

Definition run_okb (s : state) : bool :=
  bool_decide (NoDup (s_hash <$> (bonded_stakes (work s) ++ frozen_stakes (work s)))) &&
  bool_decide (map_Forall (fun (h : hash) (x : stake) => s_hash x = h) (frozen (work s))) &&
  bool_decide (map_Forall (fun (_ : addr) (d : delegatee) => d_total d = sum_power (d_stakes d)) (dels (work s))) &&
  bool_decide (Forall (fun x => 0 <= s_power x < two63) (bonded_stakes (work s) ++ frozen_stakes (work s))) &&
  (let g := gparams s in
   bool_decide (0 <= g_gasPrice g < 2 ^ 192) && bool_decide (0 <= g_minTrxGas g < two64) &&
   bool_decide (0 <= g_rewardPerPower g < 2 ^ 192) && bool_decide (0 <= g_slashRatio g <= 100) &&
   bool_decide (0 < g_maxValidatorCnt g) &&
   bool_decide (amountPerPower <= g_minValidatorStake g < two63 * amountPerPower) &&
   bool_decide (0 <= g_minDelegatorStake g < two63 * amountPerPower) &&
   bool_decide (0 <= g_lazyRewardBlocks g < two63) && bool_decide (0 <= g_signedBlocksWindow g) &&
   bool_decide (0 <= g_minSignedBlocks g) && bool_decide (0 <= g_minSelfStakeRatio g <= 100)).

Lemma run_okb_sound s : run_okb s = true -> run_ok s.
Proof.
  unfold run_okb, run_ok. intros H.
  repeat (apply andb_prop in H as (H & ?)).
  repeat match goal with X : bool_decide _ = true |- _ => apply bool_decide_eq_true in X end.
  split; [split|split; [|split]].
  - assumption.
  - intros h x Hx. match goal with X : map_Forall _ (frozen _) |- _ => apply (X h x Hx) end.
  - intros a d Hd. match goal with X : map_Forall _ (dels _) |- _ => apply (X a d Hd) end.
  - intros x Hx. match goal with X : Forall _ _ |- _ => rewrite Forall_forall in X; apply (X x Hx) end.
  - match goal with X : _ = true |- _ => rename X into Hp end.
    repeat (apply andb_prop in Hp as (Hp & ?)).
    repeat match goal with X : bool_decide _ = true |- _ => apply bool_decide_eq_true in X end.
    unfold params_ok. repeat split; lia.
Qed.

(* one validator (so no genesis-hash collision), three blocks: transfer, delegation and a failed
   transfer; unstaking in a block without proposer (its fee is burned); reward issuance by a signed
   vote, a reward withdrawal, and the refund of the matured unbonding stake *)
Definition hx_params : params := {|
  g_version := 1; g_maxValidatorCnt := 21; g_minValidatorStake := 7 * amountPerPower;
  g_minDelegatorStake := 0; g_rewardPerPower := 1000; g_lazyRewardBlocks := 1; g_lazyApplyingBlocks := 10;
  g_gasPrice := 10; g_minTrxGas := 4000; g_maxTrxGas := 25000000; g_maxBlockGas := 100000000;
  g_minVotingPeriodBlocks := 1; g_maxVotingPeriodBlocks := 100; g_minSelfStakeRatio := 50;
  g_maxUpdatableStakeRatio := 30; g_maxIndividualStakeRatio := 10000000; g_slashRatio := 50;
  g_signedBlocksWindow := 10000; g_minSignedBlocks := 500 |}.
Definition hx_genesis : genesis := {|
  gen_params := hx_params;
  gen_holders := [(1%N, 1000 * amountPerPower); (2%N, 1000 * amountPerPower); (3%N, 1000 * amountPerPower);
                  (11%N, 1000 * amountPerPower)];
  gen_validators := [(11%N, 100)] |}.
Definition hx_ops : list sop :=
  [SBegin (demo_hdr 1 (Some 11%N));
   SDeliver (demo_tx TRX_TRANSFER 1%N 2%N (5 * amountPerPower) 4000 0 PNone 100%N);
   SDeliver (demo_tx TRX_STAKING 3%N 11%N (20 * amountPerPower) 4000 0 PNone 102%N);
   SDeliver (demo_tx TRX_TRANSFER 1%N 2%N amountPerPower 4000 7 PNone 103%N);
   SEnd; SCommit;
   SBegin (demo_hdr 2 None);
   SDeliver (demo_tx TRX_UNSTAKING 3%N 11%N 0 4000 1 (PUnstake 102%N true) 104%N);
   SEnd; SCommit;
   SBegin {| h_height := 3; h_proposer := Some 11%N; h_votes := [(11%N, 120, true)]; h_evidence := [] |};
   SDeliver (demo_tx TRX_WITHDRAW 11%N 0%N 0 4000 0 (PWithdraw 5000) 105%N);
   SEnd; SCommit].

Example C02_history_example :
  exists s,
    hrun (init_chain hx_genesis, PIdle, ghost0) hx_ops =
      Some (s, PIdle, {| gh_withdrawn := 5000; gh_slashed := 0; gh_burned := 40000 |}) /\
    (forall pre, pre `prefix_of` hx_ops -> run_ok (srun (init_chain hx_genesis) pre)) /\
    txs_ok hx_ops /\
    bal_range (work (init_chain hx_genesis)) /\
    supply (work (init_chain hx_genesis)) + 5000 < supply_bound /\
    supply (work s) = supply (work (init_chain hx_genesis)) + 5000 - 40000.
Proof.
  eexists. split; [vm_compute; reflexivity|].
  split; [apply (alongb_prefixes run_okb run_ok _ run_okb_sound); vm_compute; reflexivity|].
  split.
  { unfold txs_ok, hx_ops. repeat apply Forall_cons_2; try exact I; try apply Forall_nil_2;
      (split; [zclosed|split; [|reflexivity]]); intros req Hty Hp; try discriminate Hty.
    injection Hp as <-. zclosed. }
  split; [apply bal_range_decide; vm_compute; reflexivity|].
  split; vm_compute; reflexivity.
Qed.

(* ================================================================== F4 / C02 on the EVM path *)
Definition evm_write (l : ledgers) (x : addr * Z * Z) : ledgers :=
  let '(a, bal, nonce) := x in
  let old := default acct0 (accts l !! a) in
  set_acct l a {| a_nonce := nonce; a_bal := bal; a_code := a_code old; a_name := a_name old; a_doc := a_doc old |}.

Lemma evm_fold_total (xs : list (addr * Z * Z)) : forall l,
  NoDup ((fun x : addr * Z * Z => x.1.1) <$> xs) ->
  total_balance (foldl evm_write l xs) = total_balance l + sumZ_with (fun x : addr * Z * Z => x.1.2 - bal_of l x.1.1) xs /\
  dels (foldl evm_write l xs) = dels l /\ frozen (foldl evm_write l xs) = frozen l /\
  (bal_range l -> (forall x, x ∈ xs -> 0 <= x.1.2 < two256) -> bal_range (foldl evm_write l xs)).
Proof.
  induction xs as [|[[a b] n] xs IH]; intros l Hnd; cbn [foldl].
  - split; [simpl; lia|]. auto.
  - rewrite fmap_cons in Hnd. apply NoDup_cons in Hnd as (Hnotin & Hnd). cbn [fst snd] in Hnotin.
    destruct (IH (evm_write l (a, b, n)) Hnd) as (Ht & Hd & Hf & Hr).
    split; [|split; [rewrite Hd; reflexivity|split; [rewrite Hf; reflexivity|]]].
    + rewrite Ht.
      assert (Hw : total_balance (evm_write l (a, b, n)) = total_balance l - bal_of l a + b).
      { unfold evm_write. rewrite total_balance_set_acct. reflexivity. }
      rewrite Hw. change (sumZ_with ?f ((a, b, n) :: xs)) with (f (a, b, n) + sumZ_with f xs). cbn [fst snd].
      assert (Hext : sumZ_with (fun x : addr * Z * Z => x.1.2 - bal_of (evm_write l (a, b, n)) x.1.1) xs =
                     sumZ_with (fun x : addr * Z * Z => x.1.2 - bal_of l x.1.1) xs).
      { apply sumZ_with_ext. intros x Hx. unfold evm_write. rewrite bal_of_set_acct.
        destruct (decide (a = x.1.1)) as [->|Hne]; [|reflexivity].
        exfalso. apply Hnotin. apply elem_of_list_fmap. exists x. auto. }
      rewrite Hext. lia.
    + intros Hrl Hxs. apply Hr.
      * unfold evm_write. apply bal_range_set_acct; [exact Hrl|]. cbn [a_bal].
        apply (Hxs (a, b, n)). apply elem_of_cons. auto.
      * intros x Hx. apply Hxs. apply elem_of_cons. auto.
Qed.

(* under the oracle hypothesis an EVM execution takes exactly gas used x price (+ what the contract
   semantics burnt) out of the supply; with [deliver_evm_gas] that amount is what enters the fee sum *)
Theorem deliver_evm_supply s t s' g e burn :
  deliver s t = (s', Ok g) -> ~ native s t -> t_evm t = Some e ->
  evm_effect_fee_ok (work s) t (g_gasPrice (gparams s)) e burn -> bal_range (work s) ->
  supply (work s') = supply (work s) - e_gas e * g_gasPrice (gparams s) - burn /\ bal_range (work s').
Proof.
  intros Hd Hn Hevm (Hnd & _ & Hrng & _ & Hsum) Hr.
  apply deliver_ok_inv in Hd as (sender & lim' & _ & _ & _ & _ & Hd). cbv zeta in Hd.
  rewrite receiver_of_eq in Hd. unfold native in Hn.
  destruct (evm_path_of t (acct_of (work s) (t_to t))); [|contradiction Hn; reflexivity].
  destruct Hd as (l' & He & ->). cbn [work with_bctx with_work] in *.
  change (work (with_lim (pre_state s t) lim')) with ((find_or_new (work s) (t_to t)).1) in He.
  unfold evm_execute in He. rewrite Hevm in He. destruct (e_ok e); [|discriminate]. cbn [negb] in He.
  set (l0 := (find_or_new (work s) (t_to t)).1) in *.
  change (foldl _ l0 (e_accts e)) with (foldl evm_write l0 (e_accts e)) in He.
  destruct (evm_fold_total (e_accts e) l0 Hnd) as (Ht & Hdl & Hfz & Hrr).
  set (l1 := foldl evm_write l0 (e_accts e)) in *.
  assert (Hr1 : bal_range l1) by (apply Hrr; [apply bal_range_find_or_new; exact Hr|exact Hrng]).
  assert (Hs1 : supply l1 = supply (work s) - e_gas e * g_gasPrice (gparams s) - burn).
  { unfold supply. rewrite Ht, (bonded_power_same _ _ Hdl), (frozen_power_same _ _ Hfz).
    assert (Hext : sumZ_with (fun x : addr * Z * Z => x.1.2 - bal_of l0 x.1.1) (e_accts e) =
                   sumZ_with (fun x : addr * Z * Z => x.1.2 - bal_of (work s) x.1.1) (e_accts e)).
    { apply sumZ_with_ext. intros x _. unfold l0. rewrite bal_of_find_or_new. reflexivity. }
    rewrite Hext, Hsum. fold (supply l0). unfold l0.
    pose proof (supply_find_or_new (work s) (t_to t)) as Hs0. unfold supply in Hs0. lia. }
  destruct (e_created e) as [c|]; injection He as <-.
  - rewrite supply_set_acct. cbn [a_bal]. split; [unfold bal_of, acct_of; lia|].
    apply bal_range_set_acct; [exact Hr1|]. cbn [a_bal]. apply (bal_range_bal_of _ c Hr1).
  - auto.
Qed.
Print Assumptions deliver_evm_supply.

(* ================================================================== what fails without the bounds *)
(* INTENDED: [deliver_native_supply] without [stake_amount_ok].  AmountToPower keeps the low 64 bits
   of amount / 10^18: a stake of (2^64 + 7) * 10^18 base units buys 7 units of power and the
   remaining 2^64 * 10^18 base units are destroyed. *)
Theorem staking_truncation_refuted :
  exists s t s' g,
    deliver s t = (s', Ok g) /\ native s t /\ tx_wf t /\ payload_wf t /\ bal_range (work s) /\
    params_ok (gparams s) /\ hashes_unique (work s) /\ totals_ok (work s) /\
    (forall a, room_for (work s) t a) /\
    supply (work s') = supply (work s) - fee_of t + withdrawn_of t - two64 * amountPerPower.
Proof.
  set (g := {| gen_params := demo_params;
               gen_holders := [(5%N, (2 ^ 64 + 1000) * amountPerPower); (11%N, 1000 * amountPerPower)];
               gen_validators := [(11%N, 100)] |}).
  set (s := (begin_block (init_chain g) (demo_hdr 1 (Some 11%N))).1).
  set (t := demo_tx TRX_STAKING 5%N 11%N ((2 ^ 64 + 7) * amountPerPower) 4000 0 PNone 200%N).
  assert (Hr : bal_range (work s)) by (apply bal_range_decide; vm_compute; reflexivity).
  exists s, t. eexists. eexists. split; [vm_compute; reflexivity|]. split; [vm_compute; reflexivity|].
  split; [zclosed|]. split; [intros req Hty; discriminate Hty|]. split; [exact Hr|]. split; [zclosed|].
  assert (Hok : run_ok s) by (apply run_okb_sound; vm_compute; reflexivity).
  destruct Hok as (Hu & Ht & _). split; [exact Hu|]. split; [exact Ht|].
  split.
  - intros a. right. change (tx_in t a) with 0. pose proof (bal_range_bal_of _ a Hr). lia.
  - vm_compute. reflexivity.
Qed.

(* ---- per-operation examples, on states of the run above *)
Lemma room_for_zero l t a : bal_range l -> tx_in t a = 0 -> room_for l t a.
Proof. intros Hr H0. right. rewrite H0. pose proof (bal_range_bal_of _ a Hr). lia. Qed.

(* S1: the unstaking of block 2 *)
Example deliver_native_supply_example :
  let s := srun (init_chain hx_genesis) (take 7 hx_ops) in
  let t := demo_tx TRX_UNSTAKING 3%N 11%N 0 4000 1 (PUnstake 102%N true) 104%N in
  exists s', deliver s t = (s', Ok 4000) /\ native s t /\ tx_wf t /\ payload_wf t /\ bal_range (work s) /\
    room_for (work s) t (t_to t) /\ room_for (work s) t (t_from t) /\ stake_amount_ok t /\ unstake_ok (work s) t /\
    supply (work s') = supply (work s) - 40000 /\ frozen_power (work s') = frozen_power (work s) + 20.
Proof.
  cbv zeta. set (s := srun (init_chain hx_genesis) (take 7 hx_ops)).
  assert (Hr : bal_range (work s)) by (apply bal_range_decide; vm_compute; reflexivity).
  assert (Hok : run_ok s) by (apply run_okb_sound; vm_compute; reflexivity).
  destruct Hok as (Hu & Ht & _).
  eexists. split; [vm_compute; reflexivity|]. split; [vm_compute; reflexivity|]. split; [zclosed|].
  split; [intros req Hty; discriminate Hty|]. split; [exact Hr|].
  split; [apply room_for_zero; [exact Hr|reflexivity]|].
  split; [apply room_for_zero; [exact Hr|reflexivity]|].
  split; [intros Hty; discriminate Hty|]. split; [intros _; auto|].
  split; vm_compute; reflexivity.
Qed.

(* S2: a block whose header reports validator 11 as byzantine (slash ratio 50): its own stake of 100
   loses 50, the delegated stake of 20 loses 10 *)
Example begin_block_supply_example :
  let s := srun (init_chain hx_genesis) (take 6 hx_ops) in
  let hd := {| h_height := 2; h_proposer := Some 11%N; h_votes := []; h_evidence := [11%N] |} in
  exists s', begin_block s hd = (s', Ok 0) /\ h_height hd = last_height s + 1 /\
    0 <= g_slashRatio (gparams s) <= 100 /\ hashes_unique (work s) /\ bonded_nonneg (work s) /\
    slashed_power s hd = 60 /\ supply (work s') = supply (work s) - 60 * amountPerPower.
Proof.
  cbv zeta. set (s := srun (init_chain hx_genesis) (take 6 hx_ops)).
  assert (Hok : run_ok s) by (apply run_okb_sound; vm_compute; reflexivity).
  destruct Hok as (Hu & _ & Hpw & _). destruct (powers_ok_parts _ Hpw) as (_ & _ & _ & Hnn).
  eexists. split; [vm_compute; reflexivity|]. split; [vm_compute; reflexivity|]. split; [zclosed|].
  split; [exact Hu|]. split; [exact Hnn|]. split; vm_compute; reflexivity.
Qed.

(* S3: the end of block 3: the proposer is paid 40000, the matured unbonding stake of 20 is refunded *)
Lemma hx_run12 : exists s, hrun (init_chain hx_genesis, PIdle, ghost0) (take 12 hx_ops) =
                             Some (s, POpen, {| gh_withdrawn := 5000; gh_slashed := 0; gh_burned := 40000 |}).
Proof. eexists. vm_compute. reflexivity. Qed.

Example end_block_supply_example :
  let s := srun (init_chain hx_genesis) (take 12 hx_ops) in
  exists s' ups, end_block s = (s', Ok ups) /\ bal_range (work s) /\ 0 <= b_feesum (bctx s) < two256 /\
    frozen_synced s /\
    (forall a, bal_of (work s) a + end_fee (bctx s) a +
               refunds_to (sorted_items (frozen (base_of s))) (b_height (bctx s)) a < two256) /\
    paid_fees (bctx s) = 40000 /\ supply (work s') = supply (work s) + 40000 /\
    frozen_power (work s) = 20 /\ frozen_power (work s') = 0 /\
    bal_of (work s') 3%N = bal_of (work s) 3%N + 20 * amountPerPower.
Proof.
  cbv zeta.
  (* the hypotheses come out of the history invariant at that prefix *)
  destruct hx_run12 as (s & Hrun).
  pose proof (hrun_srun _ _ _ _ _ _ _ Hrun) as Hs.
  assert (Hoks : forall pre, pre `prefix_of` take 12 hx_ops -> run_ok (srun (init_chain hx_genesis) pre)).
  { apply (alongb_prefixes run_okb run_ok _ run_okb_sound). vm_compute. reflexivity. }
  assert (Htx : txs_ok (take 12 hx_ops)).
  { unfold txs_ok, hx_ops. cbn [take]. repeat apply Forall_cons_2; try exact I; try apply Forall_nil_2;
      (split; [zclosed|split; [|reflexivity]]); intros req Hty Hpl; try discriminate Hty.
    injection Hpl as <-. zclosed. }
  assert (Hr0 : bal_range (work (init_chain hx_genesis))) by (apply bal_range_decide; vm_compute; reflexivity).
  assert (Hinv0 : hist_inv (supply (work (init_chain hx_genesis))) (init_chain hx_genesis, PIdle, ghost0)).
  { cbn [hist_inv pending ghost0 gh_withdrawn gh_slashed gh_burned].
    split; [lia|]. split; [exact Hr0|]. split; [lia|]. split; [lia|]. split; [lia|]. split; [discriminate|].
    destruct (init_chain_frozen hx_genesis) as (Hf & Hc). unfold base_of. rewrite Hc, Hf. reflexivity. }
  assert (Hbound : supply (work (init_chain hx_genesis)) + 5000 < supply_bound) by (vm_compute; reflexivity).
  pose proof (hist_run _ _ _ _ _ _ _ _ Hrun (along_prefixes _ _ _ Hoks) Htx Hinv0 Hbound) as Hinv.
  assert (Hok : run_ok s) by (rewrite Hs; apply Hoks; reflexivity).
  destruct (end_block_hyps_from_inv _ _ _ Hok Hinv Hbound) as (Hr & Hfs & Hsync & Hroom).
  rewrite <- Hs.
  assert (Hnum : exists s' ups, end_block s = (s', Ok ups) /\
    paid_fees (bctx s) = 40000 /\ supply (work s') = supply (work s) + 40000 /\
    frozen_power (work s) = 20 /\ frozen_power (work s') = 0 /\
    bal_of (work s') 3%N = bal_of (work s) 3%N + 20 * amountPerPower).
  { clear -Hs. subst s. eexists. eexists. split; [vm_compute; reflexivity|]. vm_compute. auto 10. }
  destruct Hnum as (s' & ups & He & Hn). exists s', ups. auto 10.
Qed.

(* F4: an observed effect that satisfies the oracle hypothesis: the call moves 7 units to the callee
   and uses 25000 of 30000 gas at price 10 *)
Example deliver_evm_supply_example :
  let s := demo_s1 in
  let e := {| e_ok := true; e_gas := 25000; e_created := None;
              e_accts := [(1%N, 1000 * amountPerPower - 250000 - 7, 1); (2%N, 1000 * amountPerPower + 7, 0)] |} in
  let t := {| t_type := TRX_CONTRACT; t_from := 1%N; t_to := 2%N; t_from_ok := true; t_to_ok := true; t_amount := 7;
              t_price := 10; t_gas := 30000; t_nonce := 0; t_payload := PContract 21000; t_hash := 400%N;
              t_sigok := true; t_evm := Some e |} in
  exists s', deliver s t = (s', Ok 25000) /\ ~ native s t /\
    evm_effect_fee_ok (work s) t (g_gasPrice (gparams s)) e 0 /\ bal_range (work s) /\
    supply (work s') = supply (work s) - 250000 /\ b_feesum (bctx s') = 250000.
Proof.
  cbv zeta. eexists. split; [vm_compute; reflexivity|]. split; [vm_compute; discriminate|].
  split.
  { split; [|split; [zclosed|split; [|split; [lia|vm_compute; reflexivity]]]].
    - cbn. repeat constructor; set_solver.
    - intros x Hx. cbn [e_accts] in Hx. apply elem_of_cons in Hx as [->|Hx]; [zclosed|].
      apply elem_of_list_singleton in Hx as ->. zclosed. }
  split; [apply bal_range_decide; vm_compute; reflexivity|]. split; vm_compute; reflexivity.
Qed.

(* ================================================================== assumptions of the main results *)
Print Assumptions deliver_native_supply.
Print Assumptions deliver_fail_supply.
Print Assumptions begin_block_supply.
Print Assumptions end_block_supply.
Print Assumptions commit_supply.
Print Assumptions deliver_evm_supply.
Print Assumptions C02_history.
Print Assumptions C02_collision_refuted.
Print Assumptions staking_truncation_refuted.

(* ================================================================== S5 with EVM executions under the oracle hypothesis *)
Lemma sum_distinct_le_map_sum {A} (f : A -> Z) (ks : list N) : forall m : gmap N A,
  NoDup ks -> (forall k x, m !! k = Some x -> 0 <= f x) ->
  sumZ_with (fun k => from_option f 0 (m !! k)) ks <= map_sum f m.
Proof.
  induction ks as [|k ks IH]; intros m Hnd Hnn; cbn [sumZ_with foldr].
  - apply map_sum_nonneg. exact Hnn.
  - apply NoDup_cons in Hnd as (Hk & Hnd).
    assert (Hext : sumZ_with (fun k0 => from_option f 0 (m !! k0)) ks =
                   sumZ_with (fun k0 => from_option f 0 (delete k m !! k0)) ks).
    { apply sumZ_with_ext. intros k0 Hk0. rewrite lookup_delete_ne; [reflexivity|]. intros ->. contradiction. }
    fold (sumZ_with (fun k0 => from_option f 0 (m !! k0)) ks). rewrite Hext.
    assert (Hle : sumZ_with (fun k0 => from_option f 0 (delete k m !! k0)) ks <= map_sum f (delete k m)).
    { apply IH; [exact Hnd|]. intros j x Hj. apply lookup_delete_Some in Hj as (_ & Hj). apply (Hnn j x Hj). }
    rewrite map_sum_delete in Hle. lia.
Qed.

(* what an EVM execution destroys beyond the gas fee, read off the observed effect *)
Definition evm_burn (s : state) (t : tx) : Z :=
  if evm_path_of t (acct_of (work s) (t_to t)) then
    match t_evm t with
    | Some e => - sumZ_with (fun x : addr * Z * Z => x.1.2 - bal_of (work s) x.1.1) (e_accts e)
                - e_gas e * g_gasPrice (gparams s)
    | None => 0 end
  else 0.

(* a delivery the history theorem covers: Go-typed fields, and either the native path, or an EVM
   call that fails (no effect), or an observed effect satisfying the oracle hypothesis *)
Definition deliver_covered (s : state) (t : tx) : Prop :=
  tx_wf t /\ payload_wf t /\
  (native s t \/ t_evm t = None \/
   exists e, t_evm t = Some e /\ evm_effect_fee_ok (work s) t (g_gasPrice (gparams s)) e (evm_burn s t)).

Definition hstepE (x : state * phase * ghost) (o : sop) : option (state * phase * ghost) :=
  let '(s, p, gh) := x in
  match p, o with
  | POpen, SDeliver t =>
      match deliver s t with
      | (s', Ok _) => Some (s', POpen, {| gh_withdrawn := gh_withdrawn gh + withdrawn_of t;
                                          gh_slashed := gh_slashed gh; gh_burned := gh_burned gh + evm_burn s t |})
      | (s', _) => Some (s', POpen, gh) end
  | _, _ => hstep x o
  end.

Fixpoint hrunE (x : state * phase * ghost) (ops : list sop) : option (state * phase * ghost) :=
  match ops with
  | [] => Some x
  | o :: r => match hstepE x o with Some y => hrunE y r | None => None end
  end.

Fixpoint covered (s : state) (ops : list sop) : Prop :=
  match ops with
  | [] => True
  | o :: r => (match o with SDeliver t => deliver_covered s t | _ => True end) /\ covered (sstep s o) r
  end.

Lemma evm_burn_native s t : native s t -> evm_burn s t = 0.
Proof. unfold native, evm_burn. intros ->. reflexivity. Qed.

Lemma evm_path_withdrawn t r : evm_path_of t r = true -> withdrawn_of t = 0.
Proof.
  unfold evm_path_of, withdrawn_of. intros H. destruct (t_type t =? TRX_WITHDRAW) eqn:E; [|reflexivity].
  apply Z.eqb_eq in E. rewrite E in H. discriminate H.
Qed.

Lemma hstepE_sstep s p gh o s' p' gh' : hstepE (s, p, gh) o = Some (s', p', gh') -> s' = sstep s o.
Proof.
  unfold hstepE. destruct p, o as [hd|t| |]; try apply hstep_sstep.
  unfold sstep. destruct (deliver s t) as [s1 [x|e|pp]]; intros [= <- _ _]; reflexivity.
Qed.

Lemma deliver_evm_frozen s t s' g : deliver s t = (s', Ok g) -> ~ native s t -> frozen (work s') = frozen (work s).
Proof.
  intros Hd Hn.
  apply deliver_ok_inv in Hd as (sender & lim' & _ & _ & _ & _ & Hd). cbv zeta in Hd.
  rewrite receiver_of_eq in Hd. unfold native in Hn.
  destruct (evm_path_of t (acct_of (work s) (t_to t))); [|contradiction Hn; reflexivity].
  destruct Hd as (l' & He & ->). cbn [work with_bctx with_work].
  change (work (with_lim (pre_state s t) lim')) with ((find_or_new (work s) (t_to t)).1) in He.
  unfold evm_execute in He. destruct (t_evm t) as [e|]; [|discriminate]. destruct (e_ok e); [|discriminate].
  cbn [negb] in He.
  change (foldl _ (find_or_new (work s) (t_to t)).1 (e_accts e))
    with (foldl evm_write (find_or_new (work s) (t_to t)).1 (e_accts e)) in He.
  assert (Hf : frozen (foldl evm_write (find_or_new (work s) (t_to t)).1 (e_accts e)) = frozen (work s)).
  { rewrite foldl_frozen_preserved by (intros l [[a b] n]; reflexivity). apply find_or_new_spec. }
  destruct (e_created e); injection He as <-; exact Hf.
Qed.

Lemma hist_step_deliver_evm S0 s gh t s' g e :
  deliver s t = (s', Ok g) -> ~ native s t -> t_evm t = Some e ->
  evm_effect_fee_ok (work s) t (g_gasPrice (gparams s)) e (evm_burn s t) ->
  run_ok s -> hist_inv S0 (s, POpen, gh) -> S0 + gh_withdrawn gh < supply_bound ->
  hist_inv S0 (s', POpen, {| gh_withdrawn := gh_withdrawn gh + withdrawn_of t; gh_slashed := gh_slashed gh;
                             gh_burned := gh_burned gh + evm_burn s t |}).
Proof.
  intros Hd Hn Hevm Hor (Hu & Htot & Hpw & Hpar) Hinv Hbound.
  destruct (hist_inv_bal S0 s POpen gh (gh_withdrawn gh) Hinv Hpw ltac:(lia)) as (Htb & Hpend & Hsup & Hbal).
  destruct Hinv as (Heq & Hr & Hw & Hsl & Hbn & Hfs & Hfz).
  destruct supply_bound_lt as (Hb255 & _). pose proof two255_two256 as H25.
  destruct (deliver_evm_supply _ _ _ _ _ _ Hd Hn Hevm Hor Hr) as (Hs' & Hr').
  destruct (deliver_evm_gas _ _ _ _ Hd Hn) as (e' & He' & _ & Hg & Hf' & _).
  rewrite Hevm in He'. injection He' as <-.
  destruct (deliver_bctx _ _ _ _ Hd) as (_ & _ & _ & Hgp & Hc & _).
  assert (Hw0 : withdrawn_of t = 0).
  { unfold native in Hn. destruct (evm_path_of t (acct_of (work s) (t_to t))) eqn:Ep; [|contradiction Hn; reflexivity].
    apply (evm_path_withdrawn _ _ Ep). }
  destruct Hor as (Hnd & Hgas & Hrng & Hburn & Hsum).
  (* the fee is bounded by what the touched accounts held *)
  assert (Hold : sumZ_with (fun x : addr * Z * Z => bal_of (work s) x.1.1) (e_accts e) <= total_balance (work s)).
  { rewrite total_balance_map_sum.
    pose proof (sum_distinct_le_map_sum a_bal ((fun x : addr * Z * Z => x.1.1) <$> e_accts e) (accts (work s)) Hnd
                  (fun k x Hk => proj1 (Hr k x Hk))) as Hle.
    assert (Hre : sumZ_with (fun k => from_option a_bal 0 (accts (work s) !! k)) ((fun x : addr * Z * Z => x.1.1) <$> e_accts e)
                  = sumZ_with (fun x : addr * Z * Z => bal_of (work s) x.1.1) (e_accts e)).
    { clear. induction (e_accts e) as [|x xs IH]; [reflexivity|]. rewrite fmap_cons. cbn [sumZ_with foldr].
      fold (sumZ_with (fun k => from_option a_bal 0 (accts (work s) !! k)) ((fun x : addr * Z * Z => x.1.1) <$> xs)).
      fold (sumZ_with (fun x : addr * Z * Z => bal_of (work s) x.1.1) xs).
      rewrite IH, bal_of_from_option. reflexivity. }
    unfold addr in *. lia. }
  assert (Hnew : 0 <= sumZ_with (fun x : addr * Z * Z => x.1.2) (e_accts e)).
  { clear -Hrng. induction (e_accts e) as [|x xs IH]; cbn [sumZ_with foldr]; [lia|].
    fold (sumZ_with (fun x : addr * Z * Z => x.1.2) xs).
    assert (0 <= x.1.2 < two256) by (apply Hrng, elem_of_cons; auto).
    assert (0 <= sumZ_with (fun x : addr * Z * Z => x.1.2) xs) by (apply IH; intros y Hy; apply Hrng, elem_of_cons; auto).
    lia. }
  assert (Hsplit : sumZ_with (fun x : addr * Z * Z => x.1.2 - bal_of (work s) x.1.1) (e_accts e) =
                   sumZ_with (fun x : addr * Z * Z => x.1.2) (e_accts e)
                   - sumZ_with (fun x : addr * Z * Z => bal_of (work s) x.1.1) (e_accts e)).
  { clear. induction (e_accts e) as [|x xs IH]; cbn [sumZ_with foldr]; [lia|].
    fold (sumZ_with (fun x : addr * Z * Z => x.1.2 - bal_of (work s) x.1.1) xs).
    fold (sumZ_with (fun x : addr * Z * Z => x.1.2) xs).
    fold (sumZ_with (fun x : addr * Z * Z => bal_of (work s) x.1.1) xs). lia. }
  assert (Hprice : 0 <= g_gasPrice (gparams s)) by (destruct Hpar as ((Hx & _) & _); exact Hx).
  assert (Hfeeb : 0 <= e_gas e * g_gasPrice (gparams s) <= total_balance (work s)).
  { split; [apply Z.mul_nonneg_nonneg; lia|]. lia. }
  cbn [pending] in *. specialize (Hfs eq_refl).
  assert (Hexact : b_feesum (bctx s') = b_feesum (bctx s) + e_gas e * g_gasPrice (gparams s)).
  { rewrite Hf'. rewrite mul256_small by lia. apply add256_small. lia. }
  cbn [hist_inv pending gh_withdrawn gh_slashed gh_burned].
  split; [rewrite Hs', Hexact, Hw0; lia|]. split; [exact Hr'|]. split; [lia|]. split; [exact Hsl|]. split; [lia|].
  split; [intros _; rewrite Hf'; apply add256_range|].
  rewrite (base_of_same _ _ Hc Hgp), (deliver_evm_frozen _ _ _ _ Hd Hn). exact Hfz.
Qed.

Lemma hstepE_withdrawn_mono s p gh o s' p' gh' :
  hstepE (s, p, gh) o = Some (s', p', gh') ->
  (match o with SDeliver t => payload_wf t | _ => True end) ->
  gh_withdrawn gh <= gh_withdrawn gh'.
Proof.
  unfold hstepE. destruct p, o as [hd|t| |]; try apply hstep_withdrawn_mono.
  destruct (deliver s t) as [s1 [x|e|pp]]; intros [= _ _ <-] Hp; cbn; try lia.
  pose proof (withdrawn_of_nonneg _ Hp). lia.
Qed.

Lemma covered_payload s o r : covered s (o :: r) -> match o with SDeliver t => payload_wf t | _ => True end.
Proof. intros (H & _). destruct o; try exact I. apply H. Qed.

Lemma hrunE_withdrawn_mono ops : forall s p gh s' p' gh',
  hrunE (s, p, gh) ops = Some (s', p', gh') -> covered s ops -> gh_withdrawn gh <= gh_withdrawn gh'.
Proof.
  induction ops as [|o ops IH]; intros s p gh s' p' gh'; cbn [hrunE].
  - intros [= _ _ <-] _. lia.
  - destruct (hstepE (s, p, gh) o) as [[[s1 p1] gh1]|] eqn:E; [|discriminate].
    intros H Hcov. pose proof (covered_payload _ _ _ Hcov) as Ho. destruct Hcov as (_ & Hcov).
    pose proof (hstepE_sstep _ _ _ _ _ _ _ E) as Hs1. subst s1.
    pose proof (hstepE_withdrawn_mono _ _ _ _ _ _ _ E Ho) as H1.
    pose proof (IH _ _ _ _ _ _ H Hcov) as H2. lia.
Qed.

Lemma hist_stepE S0 s p gh o s' p' gh' :
  hstepE (s, p, gh) o = Some (s', p', gh') -> run_ok s ->
  (match o with SDeliver t => deliver_covered s t | _ => True end) ->
  hist_inv S0 (s, p, gh) -> S0 + gh_withdrawn gh' < supply_bound ->
  hist_inv S0 (s', p', gh').
Proof.
  intros Hst Hok Ho Hinv Hbound.
  assert (Hmono : gh_withdrawn gh <= gh_withdrawn gh').
  { apply (hstepE_withdrawn_mono _ _ _ _ _ _ _ Hst). destruct o; try exact I. apply Ho. }
  destruct p, o as [hd|t| |];
    try (apply (hist_step S0 _ _ _ _ _ _ _ Hst Hok I Hinv Hbound)); try discriminate Hst.
  destruct Ho as (Hwf & Hpl & Hcase). unfold hstepE in Hst.
  destruct (deliver s t) as [s1 [x|e|pp]] eqn:Ed; injection Hst as <- <- <-.
  - cbn [gh_withdrawn] in *.
    assert (Hnat : native s t -> hist_inv S0 (s1, POpen,
              {| gh_withdrawn := gh_withdrawn gh + withdrawn_of t; gh_slashed := gh_slashed gh;
                 gh_burned := gh_burned gh + evm_burn s t |})).
    { intros Hn. rewrite (evm_burn_native _ _ Hn), Z.add_0_r.
      apply (hist_step_deliver_ok_native _ _ _ _ _ _ Ed Hok Hwf Hpl Hn Hinv). exact Hbound. }
    destruct Hcase as [Hn|[Hnone|(e & Hevm & Hor)]].
    + apply Hnat. exact Hn.
    + apply Hnat. apply (native_of_ok _ _ _ _ Ed Hnone).
    + destruct (evm_path_of t (acct_of (work s) (t_to t))) eqn:Ep; [|apply Hnat; exact Ep].
      apply (hist_step_deliver_evm _ _ _ _ _ _ e Ed); try assumption; [|lia].
      unfold native. rewrite Ep. discriminate.
  - apply (hist_step_deliver_fail _ _ _ _ _ _ Ed); try assumption. intros g; discriminate.
  - apply (hist_step_deliver_fail _ _ _ _ _ _ Ed); try assumption. intros g; discriminate.
Qed.

Lemma hist_runE S0 ops : forall s p gh s' p' gh',
  hrunE (s, p, gh) ops = Some (s', p', gh') -> along run_ok s ops -> covered s ops ->
  hist_inv S0 (s, p, gh) -> S0 + gh_withdrawn gh' < supply_bound ->
  hist_inv S0 (s', p', gh').
Proof.
  induction ops as [|o ops IH]; intros s p gh s' p' gh'; cbn [hrunE along].
  - intros [= <- <- <-] _ _ Hinv _. exact Hinv.
  - destruct (hstepE (s, p, gh) o) as [[[s1 p1] gh1]|] eqn:E; [|discriminate].
    intros H (Hok & Hal) Hcov Hinv Hbound. destruct Hcov as (Ho & Hcov).
    pose proof (hstepE_sstep _ _ _ _ _ _ _ E) as Hs1. subst s1.
    pose proof (hrunE_withdrawn_mono _ _ _ _ _ _ _ H Hcov) as Hmono.
    apply (IH _ _ _ _ _ _ H Hal Hcov); [|exact Hbound].
    apply (hist_stepE _ _ _ _ _ _ _ _ E Hok Ho Hinv). lia.
Qed.

Lemma hrunE_srun ops : forall s p gh s' p' gh', hrunE (s, p, gh) ops = Some (s', p', gh') -> s' = srun s ops.
Proof.
  induction ops as [|o ops IH]; intros s p gh s' p' gh'; cbn [hrunE].
  - intros [= <- _ _]. reflexivity.
  - destruct (hstepE (s, p, gh) o) as [[[s1 p1] gh1]|] eqn:E; [|discriminate].
    intros H. apply hstepE_sstep in E. subst s1. apply IH in H. exact H.
Qed.

(* C02, history form, with contract calls: as [C02_history], but deliveries may also run the EVM
   when the observed effect satisfies the oracle hypothesis [evm_effect_fee_ok]; what such a call
   destroys beyond its gas fee ([evm_burn]) is accounted under [gh_burned]. *)
Theorem C02_history_evm g ops s p gh :
  hrunE (init_chain g, PIdle, ghost0) ops = Some (s, p, gh) ->
  (forall pre, pre `prefix_of` ops -> run_ok (srun (init_chain g) pre)) ->
  covered (init_chain g) ops ->
  bal_range (work (init_chain g)) ->
  supply (work (init_chain g)) + gh_withdrawn gh < supply_bound ->
  s = srun (init_chain g) ops /\
  C02_equation g s p gh /\
  bal_range (work s) /\
  (forall a, 0 <= bal_of (work s) a < supply_bound) /\
  0 <= gh_withdrawn gh /\ 0 <= gh_slashed gh /\ 0 <= gh_burned gh.
Proof.
  intros Hrun Hok Hcov Hr0 Hbound.
  split; [apply (hrunE_srun _ _ _ _ _ _ _ Hrun)|].
  assert (Hinv0 : hist_inv (supply (work (init_chain g))) (init_chain g, PIdle, ghost0)).
  { cbn [hist_inv pending ghost0 gh_withdrawn gh_slashed gh_burned].
    split; [lia|]. split; [exact Hr0|]. split; [lia|]. split; [lia|]. split; [lia|]. split; [discriminate|].
    destruct (init_chain_frozen g) as (Hf & Hc). unfold base_of. rewrite Hc, Hf. reflexivity. }
  pose proof (hist_runE _ _ _ _ _ _ _ _ Hrun (along_prefixes _ _ _ Hok) Hcov Hinv0 Hbound) as Hinv.
  assert (Hpw : powers_ok (work s)).
  { pose proof (hrunE_srun _ _ _ _ _ _ _ Hrun) as ->. apply (Hok ops). reflexivity. }
  destruct (hist_inv_bal _ _ _ _ (gh_withdrawn gh) Hinv Hpw ltac:(lia)) as (_ & _ & _ & Hbal).
  destruct Hinv as (Heq & Hr & Hw & Hsl & Hbn & _).
  split; [exact Heq|]. split; [exact Hr|]. split; [intros a; specialize (Hbal a); lia|]. auto.
Qed.
Print Assumptions C02_history_evm.


(* a run with a successful contract call (the effect of [deliver_evm_supply_example]) *)
Definition hx_call : tx :=
  {| t_type := TRX_CONTRACT; t_from := 1%N; t_to := 2%N; t_from_ok := true; t_to_ok := true; t_amount := 7;
     t_price := 10; t_gas := 30000; t_nonce := 0; t_payload := PContract 21000; t_hash := 400%N; t_sigok := true;
     t_evm := Some {| e_ok := true; e_gas := 25000; e_created := None;
                      e_accts := [(1%N, 1000 * amountPerPower - 250000 - 7, 1); (2%N, 1000 * amountPerPower + 7, 0)] |} |}.
Definition hx_ops_evm : list sop := [SBegin (demo_hdr 1 (Some 11%N)); SDeliver hx_call; SEnd; SCommit].

Example C02_history_evm_example :
  exists s,
    hrunE (init_chain hx_genesis, PIdle, ghost0) hx_ops_evm = Some (s, PIdle, ghost0) /\
    (forall pre, pre `prefix_of` hx_ops_evm -> run_ok (srun (init_chain hx_genesis) pre)) /\
    covered (init_chain hx_genesis) hx_ops_evm /\
    ~ native (srun (init_chain hx_genesis) (take 1 hx_ops_evm)) hx_call /\
    bal_range (work (init_chain hx_genesis)) /\
    supply (work (init_chain hx_genesis)) + 0 < supply_bound /\
    supply (work s) = supply (work (init_chain hx_genesis)) /\
    bal_of (work s) 11%N = 1000 * amountPerPower + 250000.
Proof.
  eexists. split; [vm_compute; reflexivity|].
  split; [apply (alongb_prefixes run_okb run_ok _ run_okb_sound); vm_compute; reflexivity|].
  split.
  { cbn [covered hx_ops_evm]. split; [exact I|]. split; [|split; [exact I|split; [exact I|exact I]]].
    split; [zclosed|]. split; [intros req Hty; discriminate Hty|]. right. right.
    eexists. split; [reflexivity|].
    split; [cbn; repeat constructor; set_solver|]. split; [zclosed|]. split; [|split; [vm_compute; discriminate|vm_compute; reflexivity]].
    intros x Hx. cbn [e_accts] in Hx. apply elem_of_cons in Hx as [->|Hx]; [zclosed|].
    apply elem_of_list_singleton in Hx as ->. zclosed. }
  split; [vm_compute; discriminate|].
  split; [apply bal_range_decide; vm_compute; reflexivity|].
  split; [vm_compute; reflexivity|]. split; vm_compute; reflexivity.
Qed.

(* INTENDED: [begin_block_supply] without [hashes_unique].  The same genesis-hash collision strikes
   when two genesis validators are jailed in one BeginBlock (both missed the previous block, window 1):
   both stake lists are filed under key 0 of the frozen map; 100 units of power vanish with nothing
   slashed. *)
Theorem begin_block_collision_refuted :
  exists s hd s',
    begin_block s hd = (s', Ok 0) /\ h_height hd = last_height s + 1 /\
    params_ok (gparams s) /\ bonded_nonneg (work s) /\ slashed_power s hd = 0 /\
    supply (work s') = supply (work s) - 100 * amountPerPower /\ ~ hashes_unique (work s).
Proof.
  set (pr := {|
    g_version := 1; g_maxValidatorCnt := 21; g_minValidatorStake := 7 * amountPerPower;
    g_minDelegatorStake := 0; g_rewardPerPower := 1000; g_lazyRewardBlocks := 10; g_lazyApplyingBlocks := 10;
    g_gasPrice := 10; g_minTrxGas := 4000; g_maxTrxGas := 25000000; g_maxBlockGas := 100000000;
    g_minVotingPeriodBlocks := 1; g_maxVotingPeriodBlocks := 100; g_minSelfStakeRatio := 50;
    g_maxUpdatableStakeRatio := 30; g_maxIndividualStakeRatio := 10000000; g_slashRatio := 50;
    g_signedBlocksWindow := 1; g_minSignedBlocks := 1 |}).
  set (g := {| gen_params := pr; gen_holders := [(1%N, 1000 * amountPerPower)];
               gen_validators := [(11%N, 100); (12%N, 50)] |}).
  set (s := srun (init_chain g) [SBegin (demo_hdr 1 (Some 11%N)); SEnd; SCommit]).
  exists s, {| h_height := 2; h_proposer := Some 11%N; h_votes := [(11%N, 100, false); (12%N, 50, false)];
               h_evidence := [] |}.
  eexists. split; [vm_compute; reflexivity|]. split; [vm_compute; reflexivity|]. split; [zclosed|].
  split.
  { intros a d Hd. apply Forall_forall. intros x Hx.
    assert (Hall : Forall (fun x => 0 <= s_power x) (bonded_stakes (work s))).
    { apply (bool_decide_unpack _). vm_compute. exact I. }
    rewrite Forall_forall in Hall. apply Hall. eapply elem_of_bonded; eassumption. }
  split; [vm_compute; reflexivity|]. split; [vm_compute; reflexivity|].
  intros (Hnd & _). revert Hnd. vm_compute. intros Hnd.
  apply NoDup_cons in Hnd as (Hx & _). apply Hx. left.
Qed.
Print Assumptions begin_block_collision_refuted.
