(* InvSupply.v — property C02: conservation of value.
   supply = all balances + 10^18 * (bonded power + unbonding power).  Per-operation accounting
   (S1 deliver, S2 begin_block, S3 end_block, S4 commit), the history theorem and the refutation
   by the genesis-hash collision. *)
From Rigo Require Import Base.
From stdpp Require Import gmap sorting.
From Rigo Require Import Spec SpecProps InvFee.
Local Open Scope Z_scope.

Local Opaque two256 two255 two64 two63.
Arguments Z.pow : simpl never.

(* ================================================================== sums over maps *)
Lemma sumZ_with_app {A} (f : A -> Z) l k : sumZ_with f (l ++ k) = sumZ_with f l + sumZ_with f k.
Proof. induction l as [|x l IH]; simpl; [lia|]. rewrite IH. lia. Qed.

Lemma sumZ_with_perm {A} (f : A -> Z) l k : l ≡ₚ k -> sumZ_with f l = sumZ_with f k.
Proof. induction 1 as [|x l k _ IH|x y l|l k m _ IH1 _ IH2]; simpl; lia. Qed.

Lemma sumZ_with_ext {A} (f g : A -> Z) l : (forall x, x ∈ l -> f x = g x) -> sumZ_with f l = sumZ_with g l.
Proof.
  induction l as [|x l IH]; intros H; simpl; [reflexivity|].
  rewrite (H x) by (apply elem_of_cons; auto). rewrite IH; [reflexivity|].
  intros y Hy. apply H. apply elem_of_cons. auto.
Qed.

Definition map_sum {A} (f : A -> Z) (m : gmap N A) : Z := sumZ_with (fun kv : N * A => f kv.2) (map_to_list m).

Lemma map_sum_empty {A} (f : A -> Z) : map_sum f ∅ = 0.
Proof. unfold map_sum. rewrite map_to_list_empty. reflexivity. Qed.

Lemma map_sum_insert_None {A} (f : A -> Z) m i x : m !! i = None -> map_sum f (<[i := x]> m) = map_sum f m + f x.
Proof.
  intros H. unfold map_sum. rewrite (sumZ_with_perm _ _ _ (map_to_list_insert m i x H)). simpl. lia.
Qed.

Lemma map_sum_delete_Some {A} (f : A -> Z) m i x : m !! i = Some x -> map_sum f (delete i m) = map_sum f m - f x.
Proof.
  intros H. unfold map_sum. rewrite <- (sumZ_with_perm _ _ _ (map_to_list_delete m i x H)). simpl. lia.
Qed.

Lemma map_sum_delete {A} (f : A -> Z) m i : map_sum f (delete i m) = map_sum f m - from_option f 0 (m !! i).
Proof.
  destruct (m !! i) as [x|] eqn:E; simpl.
  - apply map_sum_delete_Some. exact E.
  - rewrite delete_notin by exact E. lia.
Qed.

Lemma map_sum_insert {A} (f : A -> Z) m i x :
  map_sum f (<[i := x]> m) = map_sum f m - from_option f 0 (m !! i) + f x.
Proof.
  rewrite <- insert_delete_insert. rewrite map_sum_insert_None by apply lookup_delete.
  rewrite map_sum_delete. reflexivity.
Qed.

Lemma map_sum_nonneg {A} (f : A -> Z) m : (forall i x, m !! i = Some x -> 0 <= f x) -> 0 <= map_sum f m.
Proof.
  intros H. unfold map_sum.
  assert (G : forall kv, kv ∈ map_to_list m -> 0 <= f kv.2).
  { intros [i x] Hin. apply elem_of_map_to_list in Hin. apply (H i x Hin). }
  induction (map_to_list m) as [|kv l IH]; simpl; [lia|].
  assert (0 <= f kv.2) by (apply G, elem_of_cons; auto).
  assert (0 <= sumZ_with (fun kv : N * A => f kv.2) l) by (apply IH; intros kv' Hk; apply G, elem_of_cons; auto).
  lia.
Qed.

Lemma map_sum_lookup_le {A} (f : A -> Z) m i x :
  (forall j y, m !! j = Some y -> 0 <= f y) -> m !! i = Some x -> f x <= map_sum f m.
Proof.
  intros H Hi. pose proof (map_sum_delete_Some f m i x Hi) as Hd.
  assert (0 <= map_sum f (delete i m)).
  { apply map_sum_nonneg. intros j y Hj. apply lookup_delete_Some in Hj as (_ & Hj). apply (H j y Hj). }
  lia.
Qed.

(* the three parts of [supply] as map sums *)
Lemma sum_power_app l k : sum_power (l ++ k) = sum_power l + sum_power k.
Proof. induction l as [|s l IH]; simpl; [lia|]. unfold sum_power in *. simpl. rewrite IH. lia. Qed.

Lemma sum_power_cons s l : sum_power (s :: l) = s_power s + sum_power l.
Proof. reflexivity. Qed.

Lemma sum_power_perm l k : l ≡ₚ k -> sum_power l = sum_power k.
Proof. induction 1 as [|x l k _ IH|x y l|l k m _ IH1 _ IH2]; rewrite ?sum_power_cons in *; lia. Qed.

Lemma foldr_uncurry_sum {K A} (f : A -> Z) (r : list (K * A)) :
  foldr (uncurry (fun (_ : K) (a : A) (acc : Z) => f a + acc)) 0 r = sumZ_with (fun kv : K * A => f kv.2) r.
Proof. induction r as [|[k v] r IH]; simpl; [reflexivity|]. rewrite IH. reflexivity. Qed.

Lemma total_balance_map_sum l : total_balance l = map_sum a_bal (accts l).
Proof. unfold total_balance, map_sum, map_fold, compose. apply (foldr_uncurry_sum a_bal). Qed.

Lemma sum_power_concat {A} (g : A -> list stake) (r : list A) :
  sum_power (concat (g <$> r)) = sumZ_with (fun x => sum_power (g x)) r.
Proof. induction r as [|x r IH]; [reflexivity|]. rewrite fmap_cons. cbn [concat]. rewrite sum_power_app, IH. reflexivity. Qed.

Lemma sum_power_fmap {A} (g : A -> stake) (r : list A) :
  sum_power (g <$> r) = sumZ_with (fun x => s_power (g x)) r.
Proof. induction r as [|x r IH]; [reflexivity|]. rewrite fmap_cons, sum_power_cons, IH. reflexivity. Qed.

Lemma bonded_power_map_sum l : bonded_power l = map_sum (fun d => sum_power (d_stakes d)) (dels l).
Proof.
  unfold bonded_power, bonded_stakes, map_sum.
  apply (sum_power_concat (fun kv : addr * delegatee => d_stakes kv.2)).
Qed.

Lemma frozen_power_map_sum l : frozen_power l = map_sum s_power (frozen l).
Proof.
  unfold frozen_power, frozen_stakes, map_sum.
  apply (sum_power_fmap (fun kv : hash * stake => kv.2)).
Qed.

Lemma bal_of_from_option l a : bal_of l a = from_option a_bal 0 (accts l !! a).
Proof. unfold bal_of, acct_of. destruct (accts l !! a); reflexivity. Qed.

Lemma total_balance_set_acct l a x : total_balance (set_acct l a x) = total_balance l - bal_of l a + a_bal x.
Proof. rewrite !total_balance_map_sum, accts_set_acct, map_sum_insert, bal_of_from_option. reflexivity. Qed.

Lemma total_balance_same l l' : accts l' = accts l -> total_balance l' = total_balance l.
Proof. intros H. unfold total_balance. rewrite H. reflexivity. Qed.
Lemma bonded_power_same l l' : dels l' = dels l -> bonded_power l' = bonded_power l.
Proof. intros H. unfold bonded_power, bonded_stakes. rewrite H. reflexivity. Qed.
Lemma frozen_power_same l l' : frozen l' = frozen l -> frozen_power l' = frozen_power l.
Proof. intros H. unfold frozen_power, frozen_stakes. rewrite H. reflexivity. Qed.

Lemma supply_same_money l l' : same_money l l' -> supply l' = supply l.
Proof.
  intros (Ha & Hd & Hf & _). unfold supply.
  rewrite (total_balance_same _ _ Ha), (bonded_power_same _ _ Hd), (frozen_power_same _ _ Hf). reflexivity.
Qed.

Lemma total_balance_find_or_new l a : total_balance (find_or_new l a).1 = total_balance l.
Proof.
  unfold find_or_new. destruct (accts l !! a) as [x|] eqn:E; simpl; [reflexivity|].
  rewrite total_balance_set_acct, bal_of_from_option, E. simpl. lia.
Qed.

Lemma supply_find_or_new l a : supply (find_or_new l a).1 = supply l.
Proof.
  unfold supply. rewrite total_balance_find_or_new.
  destruct (find_or_new_spec l a) as (_ & _ & _ & _ & _ & Hd & Hf & _).
  rewrite (bonded_power_same _ _ Hd), (frozen_power_same _ _ Hf). reflexivity.
Qed.

Lemma bal_le_total l a : bal_range l -> bal_of l a <= total_balance l.
Proof.
  intros Hr. rewrite total_balance_map_sum, bal_of_from_option.
  destruct (accts l !! a) as [x|] eqn:E; simpl.
  - apply map_sum_lookup_le with a; [|exact E]. intros j y Hj. apply (Hr j y Hj).
  - apply map_sum_nonneg. intros j y Hj. apply (Hr j y Hj).
Qed.

(* two distinct accounts together hold at most the total *)
Lemma bal2_le_total l a b : bal_range l -> a <> b -> bal_of l a + bal_of l b <= total_balance l.
Proof.
  intros Hr Hne. rewrite total_balance_map_sum, !bal_of_from_option.
  assert (Hnn : forall m : gmap N account, (forall j y, m !! j = Some y -> 0 <= a_bal y) -> 0 <= map_sum a_bal m)
    by (intros m; apply map_sum_nonneg).
  destruct (accts l !! a) as [x|] eqn:Ea; simpl.
  - rewrite (Z.add_comm (a_bal x)). pose proof (map_sum_delete_Some a_bal _ _ _ Ea) as Hd.
    assert (Hb : accts l !! b = delete a (accts l) !! b) by (rewrite lookup_delete_ne by exact Hne; reflexivity).
    rewrite Hb.
    assert (from_option a_bal 0 (delete a (accts l) !! b) <= map_sum a_bal (delete a (accts l))).
    { assert (Hr' : forall j y, delete a (accts l) !! j = Some y -> 0 <= a_bal y).
      { intros j y Hj. apply lookup_delete_Some in Hj as (_ & Hj). apply (Hr j y Hj). }
      destruct (delete a (accts l) !! b) as [y|] eqn:Eb; simpl.
      - apply map_sum_lookup_le with b; assumption.
      - apply Hnn. exact Hr'. }
    unfold addr in *. lia.
  - assert (from_option a_bal 0 (accts l !! b) <= map_sum a_bal (accts l)); [|lia].
    destruct (accts l !! b) as [y|] eqn:Eb; simpl.
    + apply map_sum_lookup_le with b; [|exact Eb]. intros j z Hj. apply (Hr j z Hj).
    + apply Hnn. intros j z Hj. apply (Hr j z Hj).
Qed.

(* ================================================================== stake lists *)
Lemma find_stake_Some h l s0 :
  find_stake h l = Some s0 -> s_hash s0 = h /\ l ≡ₚ s0 :: remove_stake h l.
Proof.
  induction l as [|s l IH]; simpl; [discriminate|].
  destruct (s_hash s =? h)%N eqn:E.
  - intros [= <-]. apply N.eqb_eq in E. split; [exact E|reflexivity].
  - intros H. destruct (IH H) as (Hh & Hp). split; [exact Hh|].
    rewrite Hp at 1. apply perm_swap.
Qed.

Lemma sum_power_remove h l s0 : find_stake h l = Some s0 -> sum_power (remove_stake h l) = sum_power l - s_power s0.
Proof. intros H. apply find_stake_Some in H as (_ & Hp). rewrite (sum_power_perm _ _ Hp), sum_power_cons. lia. Qed.

Lemma del_stake_found d h s0 :
  find_stake h (d_stakes d) = Some s0 ->
  d_stakes (del_stake d h) = remove_stake h (d_stakes d) /\ d_total (del_stake d h) = d_total d - s_power s0.
Proof. intros H. unfold del_stake. rewrite H. simpl. auto. Qed.

(* freezing a list of stakes under fresh, pairwise distinct keys adds exactly their power *)
Lemma freeze_all_cons fr refund s ss :
  freeze_all fr refund (s :: ss) = freeze_all (<[s_hash s := with_refund refund s]> fr) refund ss.
Proof. reflexivity. Qed.

Lemma freeze_all_sum refund ss : forall fr,
  NoDup (s_hash <$> ss) -> (forall s, s ∈ ss -> fr !! s_hash s = None) ->
  map_sum s_power (freeze_all fr refund ss) = map_sum s_power fr + sum_power ss.
Proof.
  induction ss as [|s ss IH]; intros fr Hnd Hfresh.
  - unfold freeze_all. simpl. unfold sum_power. simpl. lia.
  - rewrite freeze_all_cons, fmap_cons in *. apply NoDup_cons in Hnd as (Hnotin & Hnd).
    rewrite IH; [|exact Hnd|].
    + rewrite map_sum_insert_None by (apply Hfresh, elem_of_cons; auto). rewrite sum_power_cons. simpl. lia.
    + intros s' Hs'. rewrite lookup_insert_ne.
      * apply Hfresh, elem_of_cons. auto.
      * intros Heq. apply Hnotin. rewrite Heq. apply elem_of_list_fmap. exists s'. auto.
Qed.

Lemma freeze_all_lookup_other refund ss : forall fr k,
  k ∉ (s_hash <$> ss) -> freeze_all fr refund ss !! k = fr !! k.
Proof.
  induction ss as [|s ss IH]; intros fr k Hk; [reflexivity|].
  rewrite freeze_all_cons, fmap_cons in *. apply not_elem_of_cons in Hk as (Hne & Hk).
  rewrite IH by exact Hk. apply lookup_insert_ne. congruence.
Qed.

(* ================================================================== what hashes_unique gives *)
Definition totals_ok (l : ledgers) : Prop :=
  forall a d, dels l !! a = Some d -> d_total d = sum_power (d_stakes d).

Lemma bonded_stakes_delete l a d :
  dels l !! a = Some d -> bonded_stakes l ≡ₚ d_stakes d ++ bonded_stakes (set_dels l (delete a (dels l))).
Proof.
  intros H. unfold bonded_stakes. rewrite dels_set_dels.
  rewrite <- (map_to_list_delete _ _ _ H). rewrite fmap_cons. reflexivity.
Qed.

Lemma hashes_unique_delegatee l a d :
  hashes_unique l -> dels l !! a = Some d ->
  NoDup (s_hash <$> d_stakes d) /\ (forall s, s ∈ d_stakes d -> frozen l !! s_hash s = None).
Proof.
  intros (Hnd & Hkey) Hd.
  rewrite (bonded_stakes_delete _ _ _ Hd) in Hnd. rewrite <- app_assoc, fmap_app in Hnd.
  apply NoDup_app in Hnd as (Hnd1 & Hdisj & _). split; [exact Hnd1|].
  intros s Hs. destruct (frozen l !! s_hash s) as [s1|] eqn:E; [|reflexivity]. exfalso.
  apply (Hdisj (s_hash s)); [apply elem_of_list_fmap; exists s; auto|].
  rewrite fmap_app. apply elem_of_app. right.
  apply elem_of_list_fmap. exists s1. split; [symmetry; apply (Hkey _ _ E)|].
  unfold frozen_stakes. apply elem_of_list_fmap. exists (s_hash s, s1). split; [reflexivity|].
  apply elem_of_map_to_list. exact E.
Qed.

Lemma hashes_unique_same l l' : dels l' = dels l -> frozen l' = frozen l -> hashes_unique l -> hashes_unique l'.
Proof. intros Hd Hf. unfold hashes_unique, bonded_stakes, frozen_stakes. rewrite Hd, Hf. auto. Qed.

Lemma totals_ok_same l l' : dels l' = dels l -> totals_ok l -> totals_ok l'.
Proof. intros Hd. unfold totals_ok. rewrite Hd. auto. Qed.

(* ================================================================== S1: deliver *)
Lemma amount_to_power_exact a p :
  0 <= a < two64 * amountPerPower -> amount_to_power a = Some p -> a mod amountPerPower = 0 ->
  0 <= p < two63 /\ a = p * amountPerPower.
Proof.
  intros Ha Hp Hm. unfold amount_to_power in Hp.
  assert (Happ : 0 < amountPerPower) by (unfold amountPerPower; lia).
  assert (Hq : 0 <= a / amountPerPower < two64).
  { split; [apply Z.div_pos; lia|]. apply Z.div_lt_upper_bound; lia. }
  rewrite (Z.mod_small _ _ Hq) in Hp.
  pose proof two63_two64 as H64. pose proof two64_pos.
  destruct (Z_lt_le_dec (a / amountPerPower) two63) as [Hlt|Hge].
  - rewrite wrap64_small in Hp by (unfold in64; lia).
    destruct (a / amountPerPower <? 0); [discriminate|]. injection Hp as <-.
    split; [lia|]. pose proof (Z.div_mod a amountPerPower ltac:(lia)). lia.
  - exfalso. unfold wrap64 in Hp.
    replace (a / amountPerPower + two63) with ((a / amountPerPower - two63) + 1 * two64) in Hp by lia.
    rewrite Z.mod_add, Z.mod_small in Hp by lia.
    destruct (a / amountPerPower - two63 - two63 <? 0) eqn:E; [discriminate|]. apply Z.ltb_ge in E. lia.
Qed.

Lemma stake_validate_staking_inv s1 t lim' :
  t_type t = TRX_STAKING -> stake_validate s1 t = Ok lim' ->
  t_amount t mod amountPerPower = 0 /\ exists txp, amount_to_power (t_amount t) = Some txp.
Proof.
  intros Hty. unfold stake_validate. rewrite Hty. change (TRX_STAKING =? TRX_STAKING) with true. cbv iota zeta.
  destruct (t_amount t / amountPerPower <=? 0); [discriminate|].
  destruct (t_amount t mod amountPerPower =? 0) eqn:Er; [|discriminate]. apply Z.eqb_eq in Er. cbn [negb].
  destruct (amount_to_power (t_amount t)) as [txp|]; [|discriminate].
  intros _. split; [exact Er|]. exists txp. reflexivity.
Qed.

Lemma validated_of_staking s1 r t lim' :
  t_type t = TRX_STAKING -> validated_of s1 r t = Ok lim' -> stake_validate s1 t = Ok lim'.
Proof. intros Hty. unfold validated_of. rewrite Hty. cbn. auto. Qed.

(* rewards withdrawn by a transaction *)
Definition withdrawn_of (t : tx) : Z :=
  if t_type t =? TRX_WITHDRAW then match t_payload t with PWithdraw req => req | _ => 0 end else 0.

Lemma supply_set_acct l a x : supply (set_acct l a x) = supply l - bal_of l a + a_bal x.
Proof. unfold supply. rewrite total_balance_set_acct. change (bonded_power (set_acct l a x)) with (bonded_power l).
  change (frozen_power (set_acct l a x)) with (frozen_power l). lia. Qed.

Lemma supply_set_rewards l m : supply (set_rewards l m) = supply l.   Proof. reflexivity. Qed.
Lemma supply_set_props l m : supply (set_props l m) = supply l.       Proof. reflexivity. Qed.
Lemma supply_set_fprops l m : supply (set_fprops l m) = supply l.     Proof. reflexivity. Qed.
Lemma supply_set_lparams l m : supply (set_lparams l m) = supply l.   Proof. reflexivity. Qed.

Lemma bonded_power_set_dels_insert l a d :
  bonded_power (set_dels l (<[a := d]> (dels l))) =
  bonded_power l - from_option (fun d0 => sum_power (d_stakes d0)) 0 (dels l !! a) + sum_power (d_stakes d).
Proof. rewrite !bonded_power_map_sum, dels_set_dels, map_sum_insert. reflexivity. Qed.

Lemma bonded_power_set_dels_delete l a :
  bonded_power (set_dels l (delete a (dels l))) =
  bonded_power l - from_option (fun d0 => sum_power (d_stakes d0)) 0 (dels l !! a).
Proof. rewrite !bonded_power_map_sum, dels_set_dels, map_sum_delete. reflexivity. Qed.

Lemma supply_parts l l' :
  total_balance l' = total_balance l -> bonded_power l' + frozen_power l' = bonded_power l + frozen_power l ->
  supply l' = supply l.
Proof. intros H1 H2. unfold supply. rewrite H1, H2. reflexivity. Qed.

(* unstaking: one stake (or, when the self power drops to 0, all stakes) of a delegatee moves
   into the frozen map; value is kept iff the keys are fresh — this is where the frozen MAP,
   keyed by hash, overwrites on collision *)
Lemma stake_execute_unstaking_supply s2 l t l' :
  t_type t = TRX_UNSTAKING -> stake_execute s2 l t = Ok l' ->
  hashes_unique l -> totals_ok l ->
  accts l' = accts l /\ bonded_power l' + frozen_power l' = bonded_power l + frozen_power l.
Proof.
  intros Hty He Hu Htot.
  pose proof (stake_execute_unstaking_accts _ _ _ _ Hty He) as (Hacc & _). split; [exact Hacc|].
  revert He. unfold stake_execute. rewrite Hty.
  change (TRX_UNSTAKING =? TRX_STAKING) with false. change (TRX_UNSTAKING =? TRX_UNSTAKING) with true. cbv iota zeta.
  destruct (dels l !! t_to t) as [d|] eqn:Ed; [|discriminate].
  destruct (t_payload t) as [|hs lenok| | | | |]; try discriminate.
  destruct (find_stake hs (d_stakes d)) as [s0|] eqn:Ef; [|discriminate].
  destruct (negb (s_from s0 =? t_from t)%N); [discriminate|].
  destruct (hashes_unique_delegatee _ _ _ Hu Ed) as (Hnd & Hfresh).
  unfold addr, hash in *.
  pose proof (find_stake_Some _ _ _ Ef) as (Hh & Hperm).
  destruct (del_stake_found _ _ _ Ef) as (Hst1 & Htot1).
  pose proof (Htot _ _ Ed) as Htd.
  pose proof (sum_power_remove _ _ _ Ef) as Hrem.
  (* hashes of s0 :: remaining stakes are distinct and fresh *)
  assert (Hnd' : NoDup (s_hash <$> (s0 :: remove_stake hs (d_stakes d)))) by (rewrite <- Hperm; exact Hnd).
  assert (Hfresh' : forall s, s ∈ s0 :: remove_stake hs (d_stakes d) -> frozen l !! s_hash s = None).
  { intros s Hs. apply Hfresh. rewrite Hperm. exact Hs. }
  rewrite fmap_cons in Hnd'. apply NoDup_cons in Hnd' as (Hnotin & Hnd').
  set (refund := b_height (bctx s2) + g_lazyRewardBlocks (gparams s2)).
  assert (Hfr1 : map_sum s_power (<[s_hash s0 := with_refund refund s0]> (frozen l)) = map_sum s_power (frozen l) + s_power s0).
  { rewrite map_sum_insert_None by (apply Hfresh', elem_of_cons; auto). reflexivity. }
  destruct (d_self (del_stake d hs) =? 0) eqn:Eself.
  - (* all remaining stakes are frozen too *)
    unfold del_all_stakes. cbn [d_total d_stakes].
    assert (Hfr2 : map_sum s_power (freeze_all (<[s_hash s0 := with_refund refund s0]> (frozen l)) refund (d_stakes (del_stake d hs)))
                   = map_sum s_power (frozen l) + sum_power (d_stakes d)).
    { rewrite Hst1, freeze_all_sum; [rewrite Hfr1; lia|exact Hnd'|].
      intros s Hs. rewrite lookup_insert_ne.
      - apply Hfresh', elem_of_cons. auto.
      - intros Heq. apply Hnotin. rewrite Heq. apply elem_of_list_fmap. exists s. auto. }
    destruct (d_total (del_stake d hs) - sum_power (d_stakes (del_stake d hs)) =? 0); intros [= Heq]; subst l'.
    + rewrite !bonded_power_map_sum, !frozen_power_map_sum. cbn [dels frozen set_dels set_frozen].
      rewrite map_sum_delete, Ed. cbn [from_option]. unfold addr, hash in *. rewrite Hfr2. lia.
    + rewrite !bonded_power_map_sum, !frozen_power_map_sum. cbn [dels frozen set_dels set_frozen].
      rewrite map_sum_insert, Ed. cbn [from_option d_stakes]. unfold addr, hash in *. rewrite Hfr2. change (sum_power []) with 0. lia.
  - destruct (d_total (del_stake d hs) =? 0) eqn:Et; intros [= Heq]; subst l'.
    + apply Z.eqb_eq in Et.
      rewrite !bonded_power_map_sum, !frozen_power_map_sum. cbn [dels frozen set_dels set_frozen].
      rewrite map_sum_delete, Ed. cbn [from_option]. unfold addr, hash in *. rewrite Hfr1. lia.
    + rewrite !bonded_power_map_sum, !frozen_power_map_sum. cbn [dels frozen set_dels set_frozen].
      rewrite map_sum_insert, Ed. cbn [from_option]. unfold addr, hash in *. rewrite Hfr1, Hst1. lia.
Qed.

Lemma exec_native_supply s1 s2 t l' lim' r :
  validated_of s1 r t = Ok lim' -> evm_path_of t r = false ->
  exec_native s2 t = Ok l' -> tx_wf t -> payload_wf t -> bal_range (work s2) ->
  room_for (work s2) t (t_to t) -> room_for (work s2) t (t_from t) ->
  (t_type t = TRX_STAKING -> t_amount t < two64 * amountPerPower) ->
  (t_type t = TRX_UNSTAKING -> hashes_unique (work s2) /\ totals_ok (work s2)) ->
  supply l' = supply (work s2) + withdrawn_of t.
Proof.
  intros Hv Hp He Hwf Hpl Hr Hroomto Hroomfrom Hstk Hunstk.
  pose proof Hwf as (Hamt & _). pose proof two256_pos as H256.
  destruct (validated_native_types _ _ _ _ Hv Hp) as [Hty|[Hty|[Hty|[Hty|[Hty|[Hty|Hty]]]]]];
    unfold withdrawn_of; rewrite Hty;
    cbn [Z.eqb Pos.eqb TRX_TRANSFER TRX_STAKING TRX_UNSTAKING TRX_PROPOSAL TRX_VOTING TRX_SETDOC TRX_WITHDRAW].
  - (* transfer *)
    rewrite exec_native_transfer in He by exact Hty.
    apply acct_execute_transfer_inv in He as (sender & receiver & sender' & recv' & Hs & Hrc & Hsub & Hadd & ->);
      [|exact Hty].
    pose proof (Hr _ _ Hs) as Hsr. pose proof (Hr _ _ Hrc) as Hrr.
    apply sub_balance_Some in Hsub as (Hle & Hb' & _); [|lia|exact Hsr].
    apply add_balance_Some in Hadd as (_ & Hrb & _); [|lia].
    rewrite !supply_set_acct, bal_of_set_acct.
    pose proof (bal_of_lookup _ _ _ Hs) as Hbs. pose proof (bal_of_lookup _ _ _ Hrc) as Hbr.
    destruct (t_from t =? t_to t)%N eqn:Eft.
    + apply N.eqb_eq in Eft. rewrite <- Eft in *.
      destruct (decide (t_from t = t_from t)); [|congruence].
      rewrite Hrb, Hb', add256_small by lia. lia.
    + apply N.eqb_neq in Eft. destruct (decide (t_from t = t_to t)); [contradiction|].
      destruct Hroomto as [(_ & Hx)|Hroom]; [congruence|].
      unfold tx_in in Hroom. rewrite Hty in Hroom. cbn in Hroom.
      destruct (decide (t_to t = t_to t)); [|congruence].
      rewrite Hrb, add256_small by lia. lia.
  - (* staking *)
    apply validated_of_staking in Hv; [|exact Hty].
    apply stake_validate_staking_inv in Hv as (Hmod & txp & Htxp); [|exact Hty].
    destruct (amount_to_power_exact _ _ (conj (proj1 Hamt) (Hstk Hty)) Htxp Hmod) as (Hpr & Hexact).
    assert (Hpow : power_of (t_amount t) = txp) by (unfold power_of; rewrite Htxp; reflexivity).
    rewrite exec_native_staking in He by exact Hty.
    apply stake_execute_staking_inv in He as (d & sender & sender' & Hd & Hs & Hsub & ->); [|exact Hty].
    pose proof (Hr _ _ Hs) as Hsr.
    apply sub_balance_Some in Hsub as (Hle & Hb' & _); [|lia|exact Hsr].
    pose proof (bal_of_lookup _ _ _ Hs) as Hbs.
    unfold supply.
    rewrite (total_balance_same (set_acct (work s2) (t_from t) sender') (set_dels _ _)) by reflexivity.
    rewrite total_balance_set_acct.
    change (frozen_power (set_dels (set_acct (work s2) (t_from t) sender') ?m)) with (frozen_power (work s2)).
    rewrite !bonded_power_map_sum. cbn [dels set_dels set_acct]. rewrite map_sum_insert.
    assert (Hsum : sum_power (d_stakes (add_stake d (stake_of_tx t (b_height (bctx s2)) (power_of (t_amount t)))))
                   - from_option (fun d0 => sum_power (d_stakes d0)) 0 (dels (work s2) !! t_to t) = txp).
    { unfold add_stake. cbn [d_stakes]. rewrite sum_power_app. unfold sum_power at 2. cbn. rewrite Hpow.
      destruct Hd as [Hd|(Hd & _ & ->)]; rewrite Hd; cbn; lia. }
    unfold addr in *. lia.
  - (* unstaking *)
    rewrite exec_native_unstaking in He by exact Hty. destruct (Hunstk Hty) as (Hu & Htot).
    destruct (stake_execute_unstaking_supply _ _ _ _ Hty He Hu Htot) as (Ha & Hbf).
    rewrite (supply_parts _ _ (total_balance_same _ _ Ha) Hbf). lia.
  - (* proposal *)
    rewrite exec_native_proposal in He by exact Hty. apply gov_execute_accts in He.
    rewrite (supply_same_money _ _ He). lia.
  - (* voting *)
    rewrite exec_native_voting in He by exact Hty. apply gov_execute_accts in He.
    rewrite (supply_same_money _ _ He). lia.
  - (* setdoc *)
    rewrite exec_native_setdoc in He by exact Hty.
    apply acct_execute_setdoc_inv in He as (sender & x & Hs & Hb & _ & _ & ->); [|exact Hty].
    rewrite supply_set_acct, (bal_of_lookup _ _ _ Hs). lia.
  - (* withdraw *)
    rewrite exec_native_withdraw in He by exact Hty.
    apply stake_execute_withdraw_inv in He as (req & r0 & r' & x & x' & Hpay & _ & Hx & Hadd & ->); [|exact Hty].
    specialize (Hpl req Hty Hpay). rewrite Hpay.
    apply add_balance_Some in Hadd as (_ & Hb' & _); [|lia].
    pose proof (Hr _ _ Hx) as Hxr. pose proof (bal_of_lookup _ _ _ Hx) as Hbx.
    rewrite supply_set_acct, supply_set_rewards, bal_of_set_rewards.
    destruct Hroomfrom as [(Hx1 & _)|Hroom]; [rewrite Hty in Hx1; discriminate|].
    unfold tx_in in Hroom. rewrite Hty, Hpay in Hroom. cbn in Hroom.
    destruct (decide (t_from t = t_from t)); [|congruence].
    rewrite Hb', add256_small by lia. lia.
Qed.

Definition unstake_ok (l : ledgers) (t : tx) : Prop :=
  t_type t = TRX_UNSTAKING -> hashes_unique l /\ totals_ok l.
Definition stake_amount_ok (t : tx) : Prop :=
  t_type t = TRX_STAKING -> t_amount t < two64 * amountPerPower.

(* C02, one successful native transaction: the fee leaves the supply (it sits in the block's fee
   sum until the end of the block), a withdrawn reward enters it, nothing else changes.
   INTENDED without [stake_amount_ok] and [unstake_ok]; both are needed:
   - staking amount >= 2^64 * 10^18: AmountToPower keeps the low 64 bits of amount/10^18, the
     sender pays the whole amount ([staking_truncation_refuted]);
   - unstaking under a hash already present in the frozen map overwrites that entry
     ([C02_collision_refuted]). *)
Theorem deliver_native_supply s t s' g :
  deliver s t = (s', Ok g) -> native s t -> tx_wf t -> payload_wf t -> bal_range (work s) ->
  room_for (work s) t (t_to t) -> room_for (work s) t (t_from t) ->
  stake_amount_ok t -> unstake_ok (work s) t ->
  supply (work s') = supply (work s) - fee_of t + withdrawn_of t.
Proof.
  intros Hd Hn Hwf Hpl Hr Hrt Hrf Hstk Hun.
  apply deliver_ok_inv in Hd as (sender & lim' & Hs & H0 & H1 & Hv & Hd). cbv zeta in Hd.
  rewrite receiver_of_eq in Hv, Hd. unfold native in Hn. rewrite Hn in Hd.
  destruct Hd as (l' & snd' & snd'' & He & Hsn & Hsub & -> & ->).
  set (s2 := with_lim (pre_state s t) lim') in *.
  assert (Hw2 : work s2 = (find_or_new (work s) (t_to t)).1) by reflexivity.
  assert (Hr0 : bal_range (work s2)) by (rewrite Hw2; apply bal_range_find_or_new; exact Hr).
  destruct (find_or_new_spec (work s) (t_to t)) as (_ & _ & _ & _ & _ & Hd0 & Hf0 & _).
  assert (Hroom : forall a, room_for (work s) t a -> room_for (work s2) t a).
  { intros a. unfold room_for. rewrite Hw2, bal_of_find_or_new. auto. }
  assert (Hun2 : t_type t = TRX_UNSTAKING -> hashes_unique (work s2) /\ totals_ok (work s2)).
  { intros Hty. destruct (Hun Hty) as (Hu & Ht). rewrite Hw2. split.
    - apply (hashes_unique_same (work s)); assumption.
    - apply (totals_ok_same (work s)); assumption. }
  pose proof (exec_native_supply _ _ _ _ _ _ Hv Hn He Hwf Hpl Hr0 (Hroom _ Hrt) (Hroom _ Hrf) Hstk Hun2) as Hsup.
  destruct (exec_native_balances _ _ _ _ _ _ Hv Hn He Hwf Hpl Hr0) as (Hr' & _).
  pose proof (Hr' _ _ Hsn) as Hsr. pose proof (fee_of_range t) as Hfr.
  apply sub_balance_Some in Hsub as (Hle & Hb'' & _); [|lia|exact Hsr].
  cbn [work with_bctx with_work].
  rewrite supply_set_acct, add_nonce_bal, (bal_of_lookup _ _ _ Hsn), Hb'', Hsup, Hw2, supply_find_or_new. lia.
Qed.
Print Assumptions deliver_native_supply.

(* ---- a failed delivery *)
Lemma common_validation1_None sender t :
  common_validation1 sender t = None -> add256 (fee_of t) (t_amount t) <= a_bal sender /\ a_nonce sender = t_nonce t.
Proof.
  unfold common_validation1. destruct (a_bal sender <? add256 (fee_of t) (t_amount t)) eqn:E; [discriminate|].
  destruct (a_nonce sender =? t_nonce t) eqn:En; [|discriminate]. intros _.
  apply Z.ltb_ge in E. apply Z.eqb_eq in En. auto.
Qed.

Lemma fee_lt_two255 g t : params_ok g -> common_validation0 g t = None -> 0 <= t_gas t -> fee_of t < two255.
Proof.
  intros (Hgp & _) H0 Hg. apply common_validation0_None in H0 as (_ & _ & _ & Hmax & _ & Hp & _).
  unfold fee_of. rewrite Hp. pose proof (mul256_range (g_gasPrice g) (t_gas t)) as Hr.
  assert (Hlt : g_gasPrice g * t_gas t < two255).
  { Local Transparent two255. unfold two255, maxInt64 in *. Local Opaque two255.
    replace (2 ^ 255) with (2 ^ 192 * 2 ^ 63) by (rewrite <- Z.pow_add_r by lia; reflexivity).
    destruct (Z.eq_dec (g_gasPrice g) 0) as [->|Hne]; [lia|].
    apply Z.le_lt_trans with (g_gasPrice g * (2 ^ 63 - 1)); [apply Z.mul_le_mono_nonneg_l; lia|].
    apply Z.lt_le_trans with (g_gasPrice g * 2 ^ 63); [apply Z.mul_lt_mono_pos_l; lia|].
    apply Z.mul_le_mono_nonneg_r; lia. }
  rewrite mul256_small; [exact Hlt|]. pose proof two255_two256.
  split; [apply Z.mul_nonneg_nonneg; lia|lia].
Qed.

Lemma sub_balance_succeeds x amt : 0 <= amt < two255 -> amt <= a_bal x -> sub_balance x amt <> None.
Proof.
  intros Ha Hle. unfold sub_balance.
  assert (Hs : (sign256 amt <? 0) = false) by (apply sign256_nonneg_iff; lia). rewrite Hs.
  assert (Hl : (a_bal x <? amt) = false) by (apply Z.ltb_ge; lia). rewrite Hl. discriminate.
Qed.

(* C02, a failed (or panicking) delivery: at most an empty account appears; supply is unchanged.
   [params_ok] and the room of the sender exclude the one branch of postRunTrx in which the
   transaction has been executed but the fee cannot be taken. *)
Theorem deliver_fail_supply s t s' r :
  deliver s t = (s', r) -> (forall g, r <> Ok g) ->
  tx_wf t -> payload_wf t -> params_ok (gparams s) -> bal_range (work s) ->
  room_for (work s) t (t_from t) ->
  supply (work s') = supply (work s).
Proof.
  intros Hd Hnok Hwf Hpl Hpar Hr Hroom.
  rewrite deliver_eq in Hd. destruct (accts (work s) !! t_from t) as [sender|] eqn:Es; [|injection Hd as <- <-; reflexivity].
  unfold deliver_body in Hd.
  assert (H1s : supply (work (pre_state s t)) = supply (work s)) by (rewrite pre_state_work; apply supply_find_or_new).
  destruct (common_validation0 (gparams s) t) as [e|] eqn:E0; [injection Hd as <- <-; exact H1s|].
  destruct (common_validation1 sender t) as [e|] eqn:E1; [injection Hd as <- <-; exact H1s|].
  destruct (validated_of (pre_state s t) (receiver_of s t) t) as [lim'|e|p] eqn:Ev; [|injection Hd as <- <-; exact H1s..].
  set (s2 := with_lim (pre_state s t) lim') in *.
  assert (H2s : supply (work s2) = supply (work s)) by exact H1s.
  destruct (evm_path_of t (receiver_of s t)) eqn:Ep.
  - destruct (evm_execute (work s2) t) as [[l' gas]|e|p]; injection Hd as <- <-; [|exact H2s..].
    exfalso. apply (Hnok gas). reflexivity.
  - destruct (exec_native s2 t) as [l'|e|p] eqn:Ee; [|injection Hd as <- <-; exact H2s..].
    unfold post_run in Hd.
    destruct (accts l' !! t_from t) as [snd'|] eqn:Esn; [|injection Hd as <- <-; exact H2s].
    destruct (sub_balance snd' (fee_of t)) as [snd''|] eqn:Esb; [injection Hd as <- <-; exfalso; apply (Hnok (t_gas t)); reflexivity|].
    exfalso.
    assert (Hw2 : work s2 = (find_or_new (work s) (t_to t)).1) by reflexivity.
    assert (Hr0 : bal_range (work s2)) by (rewrite Hw2; apply bal_range_find_or_new; exact Hr).
    destruct (exec_native_balances _ _ _ _ _ _ Ev Ep Ee Hwf Hpl Hr0) as (Hr' & Hbal).
    assert (Hroom2 : room_for (work s2) t (t_from t)).
    { unfold room_for in *. rewrite Hw2, bal_of_find_or_new. exact Hroom. }
    specialize (Hbal _ Hroom2). rewrite Hw2, bal_of_find_or_new in Hbal.
    destruct (decide (t_from t = t_from t)); [|congruence].
    rewrite (bal_of_lookup _ _ _ Esn), (bal_of_lookup _ _ _ Es) in Hbal.
    apply common_validation1_None in E1 as (Hfund & _).
    pose proof Hwf as (Hamt & _ & Hgas & _).
    pose proof (fee_lt_two255 _ _ Hpar E0 (proj1 Hgas)) as Hfee.
    apply common_validation0_None in E0 as (_ & _ & Hsa & _).
    apply sign256_nonneg_iff in Hsa; [|lia].
    pose proof (fee_of_range t) as Hfr. pose proof two255_two256 as H25.
    rewrite add256_small in Hfund by lia.
    pose proof (tx_in_nonneg t (t_from t) Hwf Hpl) as Hin.
    assert (Hout : tx_out t <= t_amount t) by (unfold tx_out; destruct (_ || _); lia).
    apply (sub_balance_succeeds snd' (fee_of t)); [lia|lia|exact Esb].
Qed.
Print Assumptions deliver_fail_supply.

(* ================================================================== S3: end_block *)
Lemma two63_app_lt : two63 * amountPerPower < two256.
Proof. vm_compute. reflexivity. Qed.

Lemma power_to_amount_exact p : 0 <= p < two63 -> power_to_amount p = p * amountPerPower.
Proof.
  intros Hp. unfold power_to_amount. pose proof two63_two64. pose proof two63_app_lt as Hlt.
  assert (Happ : 0 < amountPerPower) by (unfold amountPerPower; lia).
  rewrite Z.mod_small by lia. apply mul256_small. split; [apply Z.mul_nonneg_nonneg; lia|].
  apply Z.le_lt_trans with (two63 * amountPerPower); [apply Z.mul_le_mono_nonneg_r; lia|exact Hlt].
Qed.

(* fees the proposer is paid at the end of the block *)
Definition paid_fees (b : blockctx) : Z :=
  match b_proposer b with
  | Some _ => if 0 <? sign256 (b_feesum b) then b_feesum b else 0
  | None => 0 end.

Lemma pay_proposer_supply l2 b l3 :
  pay_proposer l2 b = Some l3 -> bal_range l2 -> 0 <= b_feesum b < two256 ->
  (forall a, bal_of l2 a + end_fee b a < two256) ->
  supply l3 = supply l2 + paid_fees b.
Proof.
  unfold pay_proposer, paid_fees, end_fee. intros Hp Hr Hf Hroom.
  destruct (b_proposer b) as [pa|]; [|injection Hp as <-; lia].
  destruct (0 <? sign256 (b_feesum b)) eqn:Es; [|injection Hp as <-; lia].
  destruct (add_balance (default acct0 (accts l2 !! pa)) (b_feesum b)) as [x|] eqn:Ea; [|discriminate].
  injection Hp as <-. apply add_balance_Some in Ea as (_ & Hb & _); [|lia].
  change (a_bal (default acct0 (accts l2 !! pa))) with (bal_of l2 pa) in Hb.
  specialize (Hroom pa). destruct (decide (Some pa = Some pa)); [|congruence].
  pose proof (bal_range_bal_of _ pa Hr).
  rewrite supply_set_acct, Hb, add256_small by lia. lia.
Qed.

Lemma unfreeze_fold_supply h items : forall l l4,
  NoDup items.*1 ->
  (forall kp, kp ∈ items -> s_refund kp.2 <= h ->
     0 <= s_power kp.2 < two63 /\ exists s1, frozen l !! kp.1 = Some s1 /\ s_power s1 = s_power kp.2) ->
  foldl (unfreeze_step h) (Ok l) items = Ok l4 -> bal_range l ->
  (forall a, bal_of l a + refunds_to items h a < two256) ->
  supply l4 = supply l.
Proof.
  induction items as [|kp items IH]; intros l l4 Hnd Hsync Hf Hr Hroom.
  - simpl in Hf. injection Hf as <-. reflexivity.
  - cbn [foldl] in Hf. destruct (unfreeze_step h (Ok l) kp) as [l1|e|p] eqn:E.
    2:{ rewrite foldl_stuck_Err in Hf by apply unfreeze_step_stuck. discriminate. }
    2:{ rewrite foldl_stuck_Panic in Hf by apply unfreeze_step_stuck. discriminate. }
    rewrite fmap_cons in Hnd. apply NoDup_cons in Hnd as (Hnotin & Hnd).
    assert (Hrefund_split : forall a, refunds_to (kp :: items) h a = refund_of h a kp + refunds_to items h a) by reflexivity.
    apply unfreeze_step_inv in E as [(Em & ->)|(Em & x & x' & Hx & Ha & ->)].
    + apply (IH _ _ Hnd); [|exact Hf|exact Hr|].
      * intros kp' Hin. apply Hsync. apply elem_of_cons. auto.
      * intros a. specialize (Hroom a). rewrite Hrefund_split in Hroom.
        pose proof (refund_of_nonneg h a kp). lia.
    + apply Z.leb_le in Em.
      destruct (Hsync kp (elem_of_list_here _ _) Em) as (Hpr & s1 & Hs1 & Hpow).
      pose proof (power_to_amount_range (s_power kp.2)) as Hamt.
      apply add_balance_Some in Ha as (_ & Hb' & _); [|lia].
      pose proof (bal_of_lookup _ _ _ Hx) as Hbx. pose proof (Hr _ _ Hx) as Hxr.
      assert (Hroomx : bal_of l (s_from kp.2) + power_to_amount (s_power kp.2) < two256).
      { specialize (Hroom (s_from kp.2)). rewrite Hrefund_split in Hroom. unfold refund_of at 1 in Hroom.
        apply Z.leb_le in Em. rewrite Em, N.eqb_refl in Hroom. cbn [andb] in Hroom.
        pose proof (refunds_to_nonneg items h (s_from kp.2)). lia. }
      set (l1 := set_frozen (set_acct l (s_from kp.2) x') (delete kp.1 (frozen l))) in *.
      assert (Hsup1 : supply l1 = supply l).
      { unfold supply, l1.
        rewrite (total_balance_same (set_acct l (s_from kp.2) x') (set_frozen _ _)) by reflexivity.
        rewrite total_balance_set_acct.
        change (bonded_power (set_frozen (set_acct l (s_from kp.2) x') ?m)) with (bonded_power l).
        rewrite !frozen_power_map_sum. cbn [frozen set_frozen set_acct].
        rewrite (map_sum_delete_Some _ _ _ _ Hs1), Hpow.
        rewrite Hb', add256_small by lia. rewrite power_to_amount_exact by exact Hpr. lia. }
      rewrite <- Hsup1. apply (IH _ _ Hnd); [|exact Hf| |].
      * intros kp' Hin Hm. destruct (Hsync kp' (elem_of_list_further _ _ _ Hin) Hm) as (Hpr' & s1' & Hs1' & Hpow').
        split; [exact Hpr'|]. exists s1'. split; [|exact Hpow'].
        unfold l1. cbn [frozen set_frozen]. rewrite lookup_delete_ne; [exact Hs1'|].
        intros Heq. apply Hnotin. rewrite Heq. apply elem_of_list_fmap. exists kp'. auto.
      * intros a y. unfold l1. rewrite accts_set_frozen. apply bal_range_set_acct; [exact Hr|].
        rewrite Hb'. apply add256_range.
      * intros a. specialize (Hroom a). rewrite Hrefund_split in Hroom. unfold refund_of at 1 in Hroom.
        apply Z.leb_le in Em. rewrite Em in Hroom. cbn [andb] in Hroom.
        unfold l1. rewrite bal_of_set_frozen, bal_of_set_acct.
        destruct (decide (s_from kp.2 = a)) as [<-|Hne].
        -- rewrite N.eqb_refl in Hroom. rewrite Hb', add256_small by lia. lia.
        -- apply N.eqb_neq in Hne. rewrite Hne in Hroom. lia.
Qed.

(* the matured stakes of the committed frozen tree are still in the working tree, same power *)
Definition frozen_synced (s : state) : Prop :=
  forall k s0, frozen (base_of s) !! k = Some s0 -> s_refund s0 <= b_height (bctx s) ->
    0 <= s_power s0 < two63 /\ exists s1, frozen (work s) !! k = Some s1 /\ s_power s1 = s_power s0.

Lemma sorted_items_perm {A} (m : gmap N A) : sorted_items m ≡ₚ map_to_list m.
Proof. unfold sorted_items. apply merge_sort_Permutation. Qed.

(* C02, end of block: the fee sum enters the supply when there is a proposer (and the sum is
   positive as the code tests it); refunds move unbonding stake into balances one to one;
   proposals and parameter changes do not touch value. *)
Theorem end_block_supply s s' ups :
  end_block s = (s', Ok ups) -> bal_range (work s) -> 0 <= b_feesum (bctx s) < two256 -> frozen_synced s ->
  (forall a, bal_of (work s) a + end_fee (bctx s) a +
             refunds_to (sorted_items (frozen (base_of s))) (b_height (bctx s)) a < two256) ->
  supply (work s') = supply (work s) + paid_fees (bctx s).
Proof.
  intros He Hr Hf Hsync Hroom.
  apply end_block_inv in He as (l1 & l2 & np & l3 & H1 & H2 & H3 & H4 & _).
  apply freeze_proposals_money in H1. apply apply_proposals_money in H2.
  pose proof (same_money_trans _ _ _ H1 H2) as H12. pose proof H12 as (Ha2 & _ & Hf2 & _).
  assert (Hr2 : bal_range l2) by (intros a x; rewrite Ha2; apply Hr).
  assert (Hb2 : forall a, bal_of l2 a = bal_of (work s) a) by (intros a; apply bal_of_same_accts; exact Ha2).
  set (items := sorted_items (frozen (base_of s))) in *. set (h := b_height (bctx s)) in *.
  assert (Hroom2 : forall a, bal_of l2 a + end_fee (bctx s) a < two256).
  { intros a. rewrite Hb2. specialize (Hroom a). pose proof (refunds_to_nonneg items h a). lia. }
  pose proof (pay_proposer_supply _ _ _ H3 Hr2 Hf Hroom2) as Hs3.
  destruct (pay_proposer_balances _ _ _ H3 Hr2 Hf) as (_ & Hf3 & _ & Hr3 & Hb3).
  rewrite unfreeze_eq in H4. fold items h in H4.
  rewrite <- (supply_same_money _ _ H12), <- Hs3.
  apply (unfreeze_fold_supply h items); [| |exact H4|exact Hr3|].
  - unfold items. rewrite sorted_items_perm. apply NoDup_fst_map_to_list.
  - intros [k s0] Hin Hm. unfold items in Hin. rewrite sorted_items_perm in Hin.
    apply elem_of_map_to_list in Hin. destruct (Hsync k s0 Hin Hm) as (Hp & s1 & Hs1 & Hpw).
    split; [exact Hp|]. exists s1. rewrite Hf3, Hf2. auto.
  - intros a. specialize (Hroom a). specialize (Hb3 a). cbv zeta in Hb3. rewrite Hb2 in Hb3.
    unfold end_fee in Hroom. rewrite Hb3.
    + destruct (decide (b_proposer (bctx s) = Some a)); lia.
    + intros Hpa. destruct (decide (b_proposer (bctx s) = Some a)); [|contradiction].
      pose proof (refunds_to_nonneg items h a). lia.
Qed.
Print Assumptions end_block_supply.

Lemma end_block_fail_same s s' r : end_block s = (s', r) -> (forall u, r <> Ok u) -> s' = s.
Proof. intros He Hn. apply end_block_inv in He. destruct r as [u|e|p]; [exfalso; apply (Hn u); reflexivity|exact He..]. Qed.

(* ================================================================== S4: commit *)
Theorem commit_supply s : supply (work (commit s)) = supply (work s).
Proof. reflexivity. Qed.

(* ================================================================== S2: begin_block *)
(* ---- GovCtrler.BeginBlock touches proposals only *)
Lemma gov_punish_money l ratio evi : same_money l (gov_punish l ratio evi).
Proof.
  unfold gov_punish. revert l. induction evi as [|a evi IH]; intros l; [apply same_money_refl|].
  cbn [foldl]. eapply same_money_trans; [|apply IH].
  generalize (List.filter (fun kp : hash * proposal => match p_voters kp.2 !! a with Some _ => true | None => false end)
                (sorted_items (props l))). intros targets.
  generalize l at 1 3. induction targets as [|kp targets IHt]; intros l0; [apply same_money_refl|].
  cbn [foldl]. eapply same_money_trans; [|apply IHt].
  destruct (props l0 !! kp.1); [repeat split|apply same_money_refl].
Qed.

(* ---- doSlashAll *)
Lemma NoDup_sublist {A} (l1 l2 : list A) : l1 `sublist_of` l2 -> NoDup l2 -> NoDup l1.
Proof.
  induction 1 as [|x l1 l2 Hs IH|x l1 l2 Hs IH]; intros Hnd; [constructor| |].
  - apply NoDup_cons in Hnd as (Hx & Hnd). apply NoDup_cons. split; [|apply IH; exact Hnd].
    intros Hin. apply Hx. eapply elem_of_submseteq; [exact Hin|apply sublist_submseteq; exact Hs].
  - apply NoDup_cons in Hnd as (_ & Hnd). apply IH. exact Hnd.
Qed.

Definition pow_nonneg (l : list stake) : Prop := Forall (fun s => 0 <= s_power s) l.

Lemma sum_power_nonneg l : pow_nonneg l -> 0 <= sum_power l.
Proof. induction 1 as [|s l Hs _ IH]; [unfold sum_power; simpl; lia|]. rewrite sum_power_cons. lia. Qed.

Lemma remove_stake_props h l :
  (s_hash <$> remove_stake h l) `sublist_of` (s_hash <$> l) /\
  (pow_nonneg l -> pow_nonneg (remove_stake h l) /\ sum_power (remove_stake h l) <= sum_power l).
Proof.
  induction l as [|s l (IH1 & IH2)]; simpl.
  - split; [constructor|]. intros H. split; [exact H|lia].
  - destruct (s_hash s =? h)%N.
    + split; [rewrite fmap_cons; apply sublist_cons; reflexivity|].
      intros H. apply Forall_cons in H as (Hs & Hl). split; [exact Hl|]. rewrite sum_power_cons. lia.
    + split; [rewrite !fmap_cons; apply sublist_skip; exact IH1|].
      intros H. apply Forall_cons in H as (Hs & Hl). destruct (IH2 Hl) as (Hn & Hle).
      split; [apply Forall_cons; auto|]. rewrite !sum_power_cons. lia.
Qed.

Lemma foldl_remove_props (removing : list stake) : forall l,
  (s_hash <$> foldl (fun l s => remove_stake (s_hash s) l) l removing) `sublist_of` (s_hash <$> l) /\
  (pow_nonneg l -> pow_nonneg (foldl (fun l s => remove_stake (s_hash s) l) l removing) /\
                   sum_power (foldl (fun l s => remove_stake (s_hash s) l) l removing) <= sum_power l).
Proof.
  induction removing as [|s removing IH]; intros l; cbn [foldl].
  - split; [reflexivity|]. intros H. split; [exact H|lia].
  - destruct (IH (remove_stake (s_hash s) l)) as (I1 & I2).
    destruct (remove_stake_props (s_hash s) l) as (R1 & R2).
    split; [etransitivity; eassumption|].
    intros H. destruct (R2 H) as (Hn & Hle). destruct (I2 Hn) as (Hn' & Hle'). split; [exact Hn'|lia].
Qed.

Lemma quot_slash_bounds p ratio : 0 <= p -> 0 <= ratio <= 100 -> 0 <= (p * ratio) `quot` 100 <= p.
Proof.
  intros Hp Hr. rewrite Z.quot_div_nonneg by nia. split; [apply Z.div_pos; nia|].
  apply Z.div_le_upper_bound; nia.
Qed.

Lemma slash_all_props d ratio :
  0 <= ratio <= 100 -> 
  (s_hash <$> d_stakes (slash_all d ratio).1) `sublist_of` (s_hash <$> d_stakes d) /\
  (pow_nonneg (d_stakes d) ->
     pow_nonneg (d_stakes (slash_all d ratio).1) /\
     sum_power (d_stakes (slash_all d ratio).1) <= sum_power (d_stakes d)).
Proof.
  intros Hr. unfold slash_all. cbn [fst d_stakes].
  set (small := fun s : stake => (s_power s * ratio) `quot` 100 <? 1).
  set (slashed := map (fun s => if small s then s else with_power (s_power s - (s_power s * ratio) `quot` 100) s) (d_stakes d)).
  destruct (foldl_remove_props (List.filter small (d_stakes d)) slashed) as (F1 & F2).
  assert (Hh : s_hash <$> slashed = s_hash <$> d_stakes d).
  { unfold slashed. induction (d_stakes d) as [|s l IH]; [reflexivity|].
    cbn [map]. rewrite !fmap_cons, IH. destruct (small s); reflexivity. }
  split; [rewrite <- Hh; exact F1|].
  intros Hn.
  assert (Hsl : pow_nonneg slashed /\ sum_power slashed <= sum_power (d_stakes d)).
  { unfold slashed. induction Hn as [|s l Hs Hl (IH1 & IH2)]; [split; [constructor|reflexivity]|].
    cbn [map]. pose proof (quot_slash_bounds _ _ Hs Hr) as Hq.
    split.
    - apply Forall_cons. split; [|exact IH1]. destruct (small s); cbn; lia.
    - rewrite !sum_power_cons. destruct (small s); cbn; lia. }
  destruct Hsl as (Hsn & Hsle). destruct (F2 Hsn) as (Hkn & Hkle). split; [exact Hkn|lia].
Qed.

(* ---- StakeCtrler slashing over the evidence list; power destroyed by it *)
Fixpoint slashed_by (l : ledgers) (ratio : Z) (evi : list addr) : Z :=
  match evi with
  | [] => 0
  | a :: rest =>
      match dels l !! a with
      | Some d =>
          (sum_power (d_stakes d) - sum_power (d_stakes (slash_all d ratio).1))
          + slashed_by (set_dels l (<[a := (slash_all d ratio).1]> (dels l))) ratio rest
      | None => slashed_by l ratio rest
      end
  end.

(* total power removed by the slashing of [begin_block s hd] *)
Definition slashed_power (s : state) (hd : header) : Z :=
  slashed_by (gov_punish (work s) (g_slashRatio (gparams s)) (h_evidence hd)) (g_slashRatio (gparams s)) (h_evidence hd).

Definition bonded_nonneg (l : ledgers) : Prop := forall a d, dels l !! a = Some d -> pow_nonneg (d_stakes d).

Lemma bonded_stakes_insert l a d' :
  bonded_stakes (set_dels l (<[a := d']> (dels l))) ≡ₚ d_stakes d' ++ bonded_stakes (set_dels l (delete a (dels l))).
Proof.
  unfold bonded_stakes. rewrite !dels_set_dels. rewrite <- insert_delete_insert.
  rewrite map_to_list_insert by apply lookup_delete. rewrite fmap_cons. reflexivity.
Qed.

Lemma elem_of_bonded l a d s : dels l !! a = Some d -> s ∈ d_stakes d -> s ∈ bonded_stakes l.
Proof. intros Hd Hs. rewrite (bonded_stakes_delete _ _ _ Hd). apply elem_of_app. auto. Qed.

Lemma ranges_ok_bonded_nonneg l : ranges_ok l -> bonded_nonneg l.
Proof.
  intros (_ & Hp & _) a d Hd. apply Forall_forall. intros s Hs.
  apply Hp. apply elem_of_app. left. eapply elem_of_bonded; eassumption.
Qed.

Lemma hashes_unique_update_del l a d d' :
  hashes_unique l -> dels l !! a = Some d ->
  (s_hash <$> d_stakes d') `sublist_of` (s_hash <$> d_stakes d) ->
  hashes_unique (set_dels l (<[a := d']> (dels l))).
Proof.
  intros (Hnd & Hk) Hd Hsub. split; [|exact Hk].
  rewrite (bonded_stakes_delete _ _ _ Hd) in Hnd.
  change (frozen_stakes (set_dels l (<[a:=d']> (dels l)))) with (frozen_stakes l).
  rewrite bonded_stakes_insert. rewrite <- app_assoc, fmap_app in *.
  eapply NoDup_sublist; [|exact Hnd]. apply sublist_app; [exact Hsub|reflexivity].
Qed.

Lemma stake_punish_cons l ratio a evi :
  stake_punish l ratio (a :: evi) =
  stake_punish (match dels l !! a with
                | Some d => set_dels l (<[a := (slash_all d ratio).1]> (dels l))
                | None => l end) ratio evi.
Proof. reflexivity. Qed.

Lemma stake_punish_props ratio evi : forall l,
  0 <= ratio <= 100 -> hashes_unique l -> bonded_nonneg l ->
  let l' := stake_punish l ratio evi in
  accts l' = accts l /\ frozen l' = frozen l /\ rewards l' = rewards l /\
  hashes_unique l' /\ bonded_nonneg l' /\
  bonded_power l' = bonded_power l - slashed_by l ratio evi /\ 0 <= slashed_by l ratio evi.
Proof.
  induction evi as [|a evi IH]; intros l Hr Hu Hn; cbv zeta.
  - unfold stake_punish. simpl. repeat split; try assumption; lia.
  - rewrite stake_punish_cons. cbn [slashed_by]. destruct (dels l !! a) as [d|] eqn:Ed.
    + destruct (slash_all_props d ratio Hr) as (Hsub & Hpow). destruct (Hpow (Hn _ _ Ed)) as (Hn' & Hle).
      set (l1 := set_dels l (<[a := (slash_all d ratio).1]> (dels l))) in *.
      assert (Hu1 : hashes_unique l1) by (apply (hashes_unique_update_del _ _ _ _ Hu Ed Hsub)).
      assert (Hn1 : bonded_nonneg l1).
      { intros b d0. unfold l1. rewrite dels_set_dels. destruct (decide (a = b)) as [<-|Hne].
        - rewrite lookup_insert. intros [= <-]. exact Hn'.
        - rewrite lookup_insert_ne by exact Hne. apply Hn. }
      destruct (IH l1 Hr Hu1 Hn1) as (Ha & Hf & Hrw & Hu' & Hn'' & Hb & Hs0).
      assert (Hb1 : bonded_power l1 = bonded_power l - sum_power (d_stakes d) + sum_power (d_stakes (slash_all d ratio).1)).
      { unfold l1. rewrite bonded_power_set_dels_insert. unfold addr in *. rewrite Ed. reflexivity. }
      refine (conj Ha (conj Hf (conj Hrw (conj Hu' (conj Hn'' (conj _ _)))))); lia.
    + apply IH; assumption.
Qed.
