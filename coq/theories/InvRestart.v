(* InvRestart.v — property C07 of Spec.v: a node stopped after a commit and restarted from its data
   directory continues exactly like a node that kept running.

   What survives a stop is the data directory: every committed version of every ledger, i.e. the
   field [committed] of the model state.  Everything else of [state] is memory.  [restart] is what
   the node start-up code builds from the data directory (NewRigoApp / Info: the ledgers are opened
   at their last version, GovCtrler loads the parameters of that version, StakeCtrler.RestoreValidators
   recomputes lastValidators, the block context is reset to the last height). *)
From Rigo Require Import Base.
From stdpp Require Import gmap sorting.
From Rigo Require Import Spec SpecProps InvValSet.
Local Open Scope Z_scope.
Local Opaque two256 two255 two64 two63.

(* ================================================================== 1. the model of a restart *)
(* StakeCtrler.RestoreValidators (ctrlers/stake/ctrler.go): with N the last committed version,
   lastValidators is the selection EndBlock of block N made, from the delegatees committed at N-1
   under the parameters committed at N-1; nothing if N < 2 *)
Definition rebuild_lastvals (s : state) : list (addr * Z) :=
  let n := length (committed s) in
  if (n <? 2)%nat then [] else
  match committed s !! (n - 2)%nat with
  | Some prev =>
      let g := lparams prev in
      map (λ d, (d_addr d, d_total d))
          (take (Z.to_nat (g_maxValidatorCnt g))
                (sort_power (List.filter (λ d, min_power g <=? d_self d) (snd <$> sorted_items (dels prev)))))
  | None => []
  end.

Definition restart (s : state) : state :=
  let w := default (empty_ledgers (gparams s)) (last (committed s)) in
  {| committed := committed s;
     work := w;                              (* all caches are gone: reads return the last saved version *)
     gparams := lparams w;
     newparams := None;
     alldels := [];
     lastvals := rebuild_lastvals s;
     lim := limiter_reset [] (lparams w);
     bctx := {| b_height := last_height s; b_proposer := None; b_feesum := 0; b_txs := 0 |};
     last_height := last_height s |}.

(* the same, as a function of the data directory alone: the last height is the version number of
   the ledgers.  No data directory content (no commit yet): nothing to recover, the consensus
   engine replays InitChain. *)
Definition recover (c : list ledgers) : option state :=
  match last c with
  | None => None
  | Some w =>
      Some {| committed := c; work := w; gparams := lparams w; newparams := None; alldels := [];
              lastvals := rebuild_lastvals {| committed := c; work := w; gparams := lparams w; newparams := None;
                                              alldels := []; lastvals := []; lim := limiter_reset [] (lparams w);
                                              bctx := {| b_height := 0; b_proposer := None; b_feesum := 0; b_txs := 0 |};
                                              last_height := 0 |};
              lim := limiter_reset [] (lparams w);
              bctx := {| b_height := Z.of_nat (length c); b_proposer := None; b_feesum := 0; b_txs := 0 |};
              last_height := Z.of_nat (length c) |}
  end.

(* the behaviour before the repair of the Go code: lastValidators stays empty after a restart *)
Definition restart_norebuild (s : state) : state :=
  let r := restart s in
  {| committed := committed r; work := work r; gparams := gparams r; newparams := newparams r; alldels := alldels r;
     lastvals := []; lim := lim r; bctx := bctx r; last_height := last_height r |}.

Lemma rebuild_announced s : rebuild_lastvals s = announced s.
Proof.
  unfold rebuild_lastvals, announced, prev_version. cbv zeta.
  destruct (length (committed s) <? 2)%nat; [reflexivity|].
  destruct (committed s !! _); reflexivity.
Qed.

(* ================================================================== 2. (T1) the state right after a commit *)
Definition after_commit_ok (s : state) : Prop :=
  last (committed s) = Some (work s) ∧
  newparams s = None ∧
  gparams s = lparams (work s) ∧
  last_height s = Z.of_nat (length (committed s)) ∧
  lastvals s = rebuild_lastvals s.

Lemma after_commit_of_boundary s : boundary_ok s → committed s ≠ [] → after_commit_ok s.
Proof.
  intros Hb Hn. split; [apply (bo_last s Hb Hn)|]. split; [apply (bo_newparams s Hb)|].
  split; [symmetry; apply (bo_params s Hb)|]. split; [apply (bo_height s Hb)|].
  rewrite rebuild_announced. apply (bo_lastvals s Hb).
Qed.

(* (T1) after every block of a well-bracketed run from genesis in which BeginBlock and EndBlock
   answer Ok.  The substantive part is [lastvals]: EndBlock of block n took the first
   maxValidatorCnt of allDelegatees, which BeginBlock of block n computed from committed version
   n-1 under gparams, and gparams during block n are the parameters committed at n-1. *)
Theorem after_commit_ok_run g bs sf upss :
  bs ≠ [] → run_blocks (init_chain g) bs = Some (sf, upss) → after_commit_ok sf.
Proof.
  intros Hne Hr. destruct (run_blocks_boundary bs _ _ _ (init_chain_boundary g) Hr) as [Hb Hlen].
  apply after_commit_of_boundary; [exact Hb|]. intros Hc. rewrite Hc in Hlen. simpl in Hlen.
  destruct bs; [contradiction | simpl in Hlen; lia].
Qed.

(* one block, for any state that satisfies the invariant *)
Lemma after_commit_ok_block s hd txs s' ups :
  boundary_ok s → do_block s hd txs = Some (s', ups) → after_commit_ok s'.
Proof.
  intros Hb Hd. destruct (do_block_inv _ _ _ _ _ Hb Hd) as (Hb' & Hc & _).
  apply after_commit_of_boundary; [exact Hb'|]. rewrite Hc. intros H. apply app_eq_nil in H as [_ H]. discriminate H.
Qed.

(* ================================================================== 3. (T2) the restarted node continues identically *)
(* BeginBlock overwrites alldels, lim and bctx and reads nothing of them -- provided the header
   carries the next height.  (Otherwise BeginBlock panics; the model reports the panic and keeps the
   state as it was, so the two results differ in the memory fields.) *)
Lemma begin_block_ext s1 s2 hd :
  committed s1 = committed s2 → work s1 = work s2 → gparams s1 = gparams s2 → newparams s1 = newparams s2 →
  lastvals s1 = lastvals s2 → last_height s1 = last_height s2 →
  h_height hd = last_height s2 + 1 →
  begin_block s1 hd = begin_block s2 hd.
Proof.
  destruct s1 as [c1 w1 g1 n1 a1 v1 l1 b1 h1], s2 as [c2 w2 g2 n2 a2 v2 l2 b2 h2].
  cbn [committed work gparams newparams lastvals last_height].
  intros -> -> -> -> -> -> Hh. unfold begin_block. cbn [last_height].
  replace (h_height hd =? h2 + 1) with true by (symmetry; apply Z.eqb_eq; exact Hh).
  reflexivity.
Qed.

Lemma restart_fields s : after_commit_ok s →
  committed (restart s) = committed s ∧ work (restart s) = work s ∧ gparams (restart s) = gparams s ∧
  newparams (restart s) = newparams s ∧ lastvals (restart s) = lastvals s ∧ last_height (restart s) = last_height s.
Proof.
  intros (Hl & Hn & Hg & Hh & Hv). unfold restart. rewrite Hl. cbn.
  repeat split; congruence.
Qed.

Theorem restart_begin_block s hd :
  after_commit_ok s → h_height hd = last_height s + 1 → begin_block (restart s) hd = begin_block s hd.
Proof.
  intros H Hh. destruct (restart_fields s H) as (H1 & H2 & H3 & H4 & H5 & H6). apply begin_block_ext; assumption.
Qed.

(* what a node shows to the consensus engine and to clients, operation by operation: the answers
   of BeginBlock / DeliverTx / EndBlock and, at Commit, the ledgers the application hash is
   computed from *)
Inductive sobs :=
| OBegin (r : res Z)
| ODeliver (r : res Z)
| OEnd (r : res (list (addr * Z)))
| OCommit (l : ledgers).

Definition sobserve (s : state) (o : sop) : sobs :=
  match o with
  | SBegin h => OBegin (begin_block s h).2
  | SDeliver t => ODeliver (deliver s t).2
  | SEnd => OEnd (end_block s).2
  | SCommit => OCommit (work s)
  end.

Fixpoint strace (s : state) (ops : list sop) : list sobs :=
  match ops with [] => [] | o :: r => sobserve s o :: strace (sstep s o) r end.

(* (T2) INTENDED: for every header.  That is false when the header does not carry the next height
   (see [restart_equiv_wrong_height_refuted]): BeginBlock then panics on both nodes and the model
   leaves both states as they were, memory fields included.  The consensus engine always supplies
   the next height; with that hypothesis (implied by BeginBlock answering Ok): *)
Theorem restart_equiv s : after_commit_ok s → ∀ hd ops,
  h_height hd = last_height s + 1 →
  srun (restart s) (SBegin hd :: ops) = srun s (SBegin hd :: ops) ∧
  strace (restart s) (SBegin hd :: ops) = strace s (SBegin hd :: ops).
Proof.
  intros H hd ops Hh. pose proof (restart_begin_block s hd H Hh) as E.
  unfold srun. cbn [foldl strace sstep sobserve]. rewrite E. auto.
Qed.

Lemma begin_block_ok_height s hd : sstep_ok s (SBegin hd) = true → h_height hd = last_height s + 1.
Proof.
  unfold sstep_ok. destruct ((begin_block s hd).2) as [r| |] eqn:E; try discriminate. intros _.
  apply (begin_block_ok s hd r E).
Qed.

Corollary restart_equiv_ok s hd ops : after_commit_ok s → sstep_ok s (SBegin hd) = true →
  srun (restart s) (SBegin hd :: ops) = srun s (SBegin hd :: ops) ∧
  strace (restart s) (SBegin hd :: ops) = strace s (SBegin hd :: ops).
Proof. intros H Hok. apply restart_equiv; [exact H | apply begin_block_ok_height, Hok]. Qed.

(* whatever the header, the answer of that first BeginBlock is the same *)
Lemma restart_begin_answer s hd : after_commit_ok s → (begin_block (restart s) hd).2 = (begin_block s hd).2.
Proof.
  intros H. destruct (Z.eq_dec (h_height hd) (last_height s + 1)) as [Hh|Hh].
  - rewrite (restart_begin_block s hd H Hh). reflexivity.
  - unfold begin_block. destruct (restart_fields s H) as (_ & _ & _ & _ & _ & ->).
    apply Z.eqb_neq in Hh. rewrite Hh. reflexivity.
Qed.

(* what the restarted node reports in Info: the height and the committed ledgers (the application
   hash is a function of them) of the block after which it was stopped; and the restarted state is
   a function of the data directory only *)
Theorem restart_reports s : after_commit_ok s →
  last_height (restart s) = last_height s ∧
  last_height (restart s) = Z.of_nat (length (committed s)) ∧
  last (committed (restart s)) = Some (work s) ∧
  recover (committed s) = Some (restart s).
Proof.
  intros (Hl & Hn & Hg & Hh & Hv). split; [reflexivity|]. split; [exact Hh|]. split; [exact Hl|].
  unfold recover, restart. rewrite Hl. cbn [default]. rewrite <- Hh. reflexivity.
Qed.

(* restarting is idempotent with respect to the invariant: a restarted node can be stopped again *)
Lemma restart_after_commit_ok s : after_commit_ok s → after_commit_ok (restart s).
Proof.
  intros (Hl & Hn & Hg & Hh & Hv). unfold after_commit_ok, restart. rewrite Hl. cbn.
  repeat split; try reflexivity; assumption.
Qed.

(* C07 for runs from genesis *)
Theorem C07_restart g bs sf upss :
  bs ≠ [] → run_blocks (init_chain g) bs = Some (sf, upss) →
  recover (committed sf) = Some (restart sf) ∧
  last_height (restart sf) = Z.of_nat (length bs) ∧
  last (committed (restart sf)) = Some (work sf) ∧
  ∀ hd ops, h_height hd = Z.of_nat (length bs) + 1 →
            srun (restart sf) (SBegin hd :: ops) = srun sf (SBegin hd :: ops) ∧
            strace (restart sf) (SBegin hd :: ops) = strace sf (SBegin hd :: ops).
Proof.
  intros Hne Hr. pose proof (after_commit_ok_run g bs sf upss Hne Hr) as Hok.
  destruct (restart_reports sf Hok) as (_ & H2 & H3 & H4).
  destruct (run_blocks_boundary bs _ _ _ (init_chain_boundary g) Hr) as [_ Hlen].
  split; [exact H4|]. split; [rewrite H2, Hlen; reflexivity|]. split; [exact H3|].
  intros hd ops Hh. apply restart_equiv; [exact Hok|].
  destruct Hok as (_ & _ & _ & -> & _). rewrite Hlen. exact Hh.
Qed.
Print Assumptions after_commit_ok_run.
Print Assumptions restart_equiv.
Print Assumptions C07_restart.

(* ================================================================== 4. examples and (T3) the refutation *)
(* the run of InvValSet.v: genesis validators 1 and 2, account 3 becomes a validator in block 2,
   validator 1 leaves in block 3 *)
Definition s3 : state := run_state (init_chain ex_genesis) (take 3 good_blocks).

Example after_commit_ok_ex : after_commit_ok s3 ∧ lastvals s3 = [(2%N, 20); (1%N, 10); (3%N, 5)].
Proof.
  split; [|vm_compute; reflexivity].
  eapply (after_commit_ok_run ex_genesis (take 3 good_blocks)); [discriminate|].
  apply run_blocks_proj. vm_compute. reflexivity.
Qed.

(* block 4 on the continuous and on the restarted node: the same answers (the removal of 1) *)
Example restart_equiv_ex :
  let ops := block_ops (ex_hd 4) [] in
  strace (restart s3) ops = strace s3 ops ∧
  (end_block (begin_block (restart s3) (ex_hd 4)).1).2 = Ok [(1%N, 0)].
Proof.
  split; [apply (restart_equiv s3 (proj1 after_commit_ok_ex)); vm_compute; reflexivity|]. vm_compute. reflexivity.
Qed.

(* why [restart_equiv] needs the height hypothesis *)
Theorem restart_equiv_wrong_height_refuted :
  ∃ s hd ops, after_commit_ok s ∧ strace (restart s) (SBegin hd :: ops) ≠ strace s (SBegin hd :: ops).
Proof.
  exists s3, (ex_hd 9), [SEnd]. split; [exact (proj1 after_commit_ok_ex)|].
  intros H. apply (f_equal (λ l : list sobs, match l with [_; OEnd r] => Some r | _ => None end)) in H.
  revert H. vm_compute. discriminate.
Qed.
Print Assumptions restart_equiv_wrong_height_refuted.

(* (T3) without the rebuild (the Go code before the repair) the restarted node answers EndBlock of
   the next block with an announcement of the whole set, and misses the removal of validator 1,
   where the continuous node answers with that removal only *)
Theorem restart_without_rebuild_refuted :
  ∃ s hd, after_commit_ok s ∧
    (end_block (begin_block s hd).1).2 = Ok [(1%N, 0)] ∧
    (end_block (begin_block (restart s) hd).1).2 = Ok [(1%N, 0)] ∧
    (end_block (begin_block (restart_norebuild s) hd).1).2 = Ok [(2%N, 20); (3%N, 5)] ∧
    (end_block (begin_block (restart_norebuild s) hd).1).2 ≠ (end_block (begin_block s hd).1).2.
Proof.
  exists s3, (ex_hd 4). split; [exact (proj1 after_commit_ok_ex)|].
  split; [vm_compute; reflexivity|]. split; [vm_compute; reflexivity|]. split; [vm_compute; reflexivity|].
  vm_compute. discriminate.
Qed.
Print Assumptions restart_without_rebuild_refuted.
