(* InvSlash.v — property C14: slashing for misbehaviour evidence (stake ledger and open
   proposals) and jailing of validators that miss too many blocks.  Statements about Spec.v. *)
From Rigo Require Import Base.
From stdpp Require Import gmap sorting.
From Rigo Require Import Spec SpecProps.
From Rigo Require Import InvReward.   (* the vote loop and the reward side of begin_block (C13) *)
Local Open Scope Z_scope.

Local Opaque two256 two255 two64 two63.
Arguments Z.pow : simpl never.

(* ================================================================== projections *)
Lemma set_dels_id l : set_dels l (dels l) = l.       Proof. destruct l; reflexivity. Qed.
Lemma set_props_id l : set_props l (props l) = l.    Proof. destruct l; reflexivity. Qed.
Lemma set_dels_set_dels l m m' : set_dels (set_dels l m) m' = set_dels l m'. Proof. reflexivity. Qed.
Lemma set_props_set_props l m m' : set_props (set_props l m) m' = set_props l m'. Proof. reflexivity. Qed.

(* ================================================================== L1: slash_all *)
(* what one stake loses: floor(power * ratio / 100) *)
Definition cut (ratio : Z) (s : stake) : Z := s_power s * ratio / 100.
(* a stake survives iff it loses at least 1 *)
Definition survives (ratio : Z) (s : stake) : bool := 1 <=? cut ratio s.
Definition slashed_stake (ratio : Z) (s : stake) : stake := with_power (s_power s - cut ratio s) s.
(* the surviving stakes, each reduced, in their old order *)
Definition slash_kept (ratio : Z) (l : list stake) : list stake :=
  map (slashed_stake ratio) (List.filter (survives ratio) l).

Lemma slashed_stake_fields ratio s :
  s_from (slashed_stake ratio s) = s_from s ∧ s_to (slashed_stake ratio s) = s_to s ∧
  s_hash (slashed_stake ratio s) = s_hash s ∧ s_start (slashed_stake ratio s) = s_start s ∧
  s_refund (slashed_stake ratio s) = s_refund s ∧ s_power (slashed_stake ratio s) = s_power s - cut ratio s.
Proof. repeat split. Qed.

Lemma cut_range ratio s : 0 ≤ ratio ≤ 100 → 0 ≤ s_power s → 0 ≤ cut ratio s ≤ s_power s.
Proof.
  intros Hr Hp. unfold cut. split.
  - apply Z.div_pos; nia.
  - apply Z.div_le_upper_bound; nia.
Qed.

Section remove.
  Lemma filter_all_true {A} (f : A → bool) l : (∀ x, In x l → f x = true) → List.filter f l = l.
  Proof.
    induction l as [|x l IH]; simpl; intros H; [reflexivity|].
    rewrite H by auto. f_equal. apply IH; auto.
  Qed.

  Lemma remove_stake_filter h l :
    NoDup (map s_hash l) → remove_stake h l = List.filter (λ s, negb (s_hash s =? h)%N) l.
  Proof.
    induction l as [|s l IH]; simpl; intros Hnd; [reflexivity|].
    apply NoDup_cons in Hnd as [Hni Hnd].
    destruct (s_hash s =? h)%N eqn:E; simpl.
    - apply N.eqb_eq in E. symmetry. apply filter_all_true. intros x Hx.
      apply negb_true_iff, N.eqb_neq. intros Heq. apply Hni.
      apply elem_of_list_In, in_map_iff. exists x. split; [congruence|assumption].
    - f_equal. apply IH, Hnd.
  Qed.

  Lemma NoDup_map_filter {A B} (g : A → B) (f : A → bool) l : NoDup (map g l) → NoDup (map g (List.filter f l)).
  Proof.
    induction l as [|x l IH]; simpl; intros Hnd; [constructor|].
    apply NoDup_cons in Hnd as [Hni Hnd].
    destruct (f x); simpl; [|auto].
    apply NoDup_cons. split; [|auto].
    intros Hin. apply Hni. apply elem_of_list_In, in_map_iff in Hin as (y & Hy & Hin).
    apply filter_In in Hin as [Hin _].
    apply elem_of_list_In, in_map_iff. eauto.
  Qed.

  Lemma remove_all_filter rem l :
    NoDup (map s_hash l) →
    foldl (λ l s, remove_stake (s_hash s) l) l rem
    = List.filter (λ s, negb (existsb (λ r, (s_hash s =? s_hash r)%N) rem)) l.
  Proof.
    revert l. induction rem as [|r rem IH]; simpl; intros l Hnd.
    - symmetry. apply filter_all_true. reflexivity.
    - rewrite remove_stake_filter by assumption.
      rewrite IH by (apply NoDup_map_filter; assumption).
      clear. induction l as [|s l IHl]; simpl; [reflexivity|].
      destruct (s_hash s =? s_hash r)%N; simpl; [assumption|].
      destruct (existsb _ rem); simpl; [assumption|]. f_equal. assumption.
  Qed.

  (* two members of a list without duplicate hashes that have the same hash are the same stake *)
  Lemma hash_inj l s1 s2 : NoDup (map s_hash l) → In s1 l → In s2 l → s_hash s1 = s_hash s2 → s1 = s2.
  Proof.
    induction l as [|x l IH]; simpl; intros Hnd H1 H2 Hh; [contradiction|].
    apply NoDup_cons in Hnd as [Hni Hnd].
    destruct H1 as [->|H1], H2 as [->|H2]; auto.
    - exfalso. apply Hni. rewrite Hh. apply elem_of_list_In, in_map. assumption.
    - exfalso. apply Hni. rewrite <- Hh. apply elem_of_list_In, in_map. assumption.
  Qed.
End remove.

(* the model's own (truncating) quotient, with no assumption on signs *)
Definition cutq (ratio : Z) (s : stake) : Z := (s_power s * ratio) `quot` 100.

Lemma slash_all_quot d ratio :
  NoDup (map s_hash (d_stakes d)) →
  let big := λ s, negb (cutq ratio s <? 1) in
  let kept := map (λ s, with_power (s_power s - cutq ratio s) s) (List.filter big (d_stakes d)) in
  slash_all d ratio =
    ({| d_addr := d_addr d; d_self := sum_power_of (d_addr d) kept; d_total := sum_power kept;
        d_stakes := kept; d_marks := d_marks d |},
     sum_power (List.filter big (d_stakes d)) - sum_power kept).
Proof.
  intros Hnd big kept. unfold slash_all. fold (cutq ratio).
  set (small := λ s : stake, cutq ratio s <? 1).
  set (g := λ s : stake, if small s then s else with_power (s_power s - cutq ratio s) s).
  assert (Hkept : foldl (λ l s, remove_stake (s_hash s) l) (map g (d_stakes d)) (List.filter small (d_stakes d)) = kept).
  { assert (Hg : ∀ s, s_hash (g s) = s_hash s) by (intros s; unfold g; destruct (small s); reflexivity).
    rewrite remove_all_filter.
    2:{ rewrite map_map. erewrite map_ext; [exact Hnd|]. exact Hg. }
    subst kept.
    assert (Hsub : ∀ l, (∀ s, In s l → In s (d_stakes d)) →
      List.filter (λ s, negb (existsb (λ r, (s_hash s =? s_hash r)%N) (List.filter small (d_stakes d)))) (map g l)
      = map (λ s, with_power (s_power s - cutq ratio s) s) (List.filter big l)).
    { induction l as [|s l IH]; simpl; intros Hin; [reflexivity|].
      rewrite Hg.
      assert (Hex : existsb (λ r, (s_hash s =? s_hash r)%N) (List.filter small (d_stakes d)) = small s).
      { destruct (small s) eqn:Es.
        - apply existsb_exists. exists s. split; [|apply N.eqb_refl].
          apply filter_In. split; [apply Hin; left; reflexivity|assumption].
        - apply not_true_is_false. intros Hex. apply existsb_exists in Hex as (r & Hr & Hh).
          apply filter_In in Hr as [Hr Hsm]. apply N.eqb_eq in Hh.
          assert (s = r) by (eapply hash_inj; eauto; apply Hin; left; reflexivity).
          subst r. congruence. }
      rewrite Hex. change (big s) with (negb (small s)). unfold g at 1.
      destruct (small s); simpl; [|f_equal]; apply IH; intros; apply Hin; right; assumption. }
    apply Hsub. auto. }
  subst g small. unfold cutq in Hkept. cbv beta in Hkept. rewrite Hkept. reflexivity.
Qed.

Lemma cutq_cut ratio s : 0 ≤ ratio → 0 ≤ s_power s → cutq ratio s = cut ratio s.
Proof. intros. unfold cutq, cut. apply Z.quot_div_nonneg; nia. Qed.

Lemma sum_power_slash_kept ratio l :
  sum_power (slash_kept ratio l) = sum_power (List.filter (survives ratio) l) - sumZ_with (cut ratio) (List.filter (survives ratio) l).
Proof.
  unfold slash_kept. generalize (List.filter (survives ratio) l). intros k.
  induction k as [|s k IH]; [reflexivity|].
  change (s_power s - cut ratio s + sum_power (map (slashed_stake ratio) k)
          = s_power s + sum_power k - (cut ratio s + sumZ_with (cut ratio) k)).
  rewrite IH. lia.
Qed.

(* L1.  [slash_all] on a delegatee whose stake hashes are pairwise distinct. *)
Theorem slash_all_spec d ratio :
  0 ≤ ratio →
  Forall (λ s, 0 ≤ s_power s) (d_stakes d) →
  NoDup (s_hash <$> d_stakes d) →
  slash_all d ratio =
    ({| d_addr := d_addr d;
        d_self := sum_power_of (d_addr d) (slash_kept ratio (d_stakes d));
        d_total := sum_power (slash_kept ratio (d_stakes d));
        d_stakes := slash_kept ratio (d_stakes d);
        d_marks := d_marks d |},
     sumZ_with (cut ratio) (List.filter (survives ratio) (d_stakes d))).
Proof.
  intros Hr Hpw Hnd. rewrite slash_all_quot by exact Hnd. cbv zeta.
  assert (Hf : List.filter (λ s, negb (cutq ratio s <? 1)) (d_stakes d) = List.filter (survives ratio) (d_stakes d)).
  { apply filter_ext_in. intros s Hs. rewrite Forall_forall in Hpw.
    rewrite cutq_cut by (auto; apply Hpw, elem_of_list_In, Hs). unfold survives. lia. }
  rewrite Hf.
  assert (Hm : map (λ s, with_power (s_power s - cutq ratio s) s) (List.filter (survives ratio) (d_stakes d))
               = slash_kept ratio (d_stakes d)).
  { unfold slash_kept. apply map_ext_in. intros s Hs. apply filter_In in Hs as [Hs _].
    rewrite Forall_forall in Hpw. unfold slashed_stake.
    rewrite cutq_cut by (auto; apply Hpw, elem_of_list_In, Hs). reflexivity. }
  rewrite Hm. f_equal. rewrite sum_power_slash_kept. lia.
Qed.
Print Assumptions slash_all_spec.

(* ------------------------------------------------------------------ consequences of L1 *)
Lemma slash_kept_elem ratio l s' :
  In s' (slash_kept ratio l) ↔ ∃ s, In s l ∧ 1 ≤ cut ratio s ∧ s' = slashed_stake ratio s.
Proof.
  unfold slash_kept. rewrite in_map_iff. split.
  - intros (s & <- & Hs). apply filter_In in Hs as [Hs Hc]. exists s. unfold survives in Hc. split; [assumption|]. split; [lia|reflexivity].
  - intros (s & Hs & Hc & ->). exists s. split; [reflexivity|]. apply filter_In. unfold survives. split; [assumption|lia].
Qed.

(* a stake that would lose less than 1 is forfeited: nothing with its hash remains *)
Lemma slash_kept_forfeited ratio l s :
  NoDup (s_hash <$> l) → In s l → cut ratio s < 1 → ¬ In (s_hash s) (map s_hash (slash_kept ratio l)).
Proof.
  intros Hnd Hs Hc Hin. apply in_map_iff in Hin as (s' & Hh & Hs').
  apply slash_kept_elem in Hs' as (s0 & Hs0 & Hc0 & ->). simpl in Hh.
  assert (s0 = s) by (eapply hash_inj; eauto). subst s0. lia.
Qed.

Lemma slash_kept_hashes ratio l : map s_hash (slash_kept ratio l) = map s_hash (List.filter (survives ratio) l).
Proof. unfold slash_kept. rewrite map_map. reflexivity. Qed.

Lemma sublist_List_filter {A} (f : A → bool) l : sublist (List.filter f l) l.
Proof. induction l as [|x l IH]; simpl; [constructor|]. destruct (f x); [apply sublist_skip|apply sublist_cons]; assumption. Qed.

(* order is preserved: the remaining hashes are a subsequence of the old ones *)
Lemma slash_kept_order ratio l : sublist (map s_hash (slash_kept ratio l)) (map s_hash l).
Proof. rewrite slash_kept_hashes. apply (fmap_sublist s_hash), sublist_List_filter. Qed.

Lemma slash_kept_NoDup ratio l : NoDup (s_hash <$> l) → NoDup (s_hash <$> slash_kept ratio l).
Proof. intros H. change (NoDup (map s_hash (slash_kept ratio l))). rewrite slash_kept_hashes. apply NoDup_map_filter, H. Qed.

Lemma slash_kept_powers ratio l (B : Z) :
  0 ≤ ratio ≤ 100 → Forall (λ s, 0 ≤ s_power s < B) l → Forall (λ s, 0 ≤ s_power s < B) (slash_kept ratio l).
Proof.
  intros Hr Hl. rewrite Forall_forall in *. intros s' Hs'. apply elem_of_list_In, slash_kept_elem in Hs' as (s & Hs & Hc & ->).
  apply elem_of_list_In, Hl in Hs. pose proof (cut_range ratio s Hr ltac:(lia)). simpl. lia.
Qed.

Lemma slash_kept_to ratio l a : Forall (λ s, s_to s = a) l → Forall (λ s, s_to s = a) (slash_kept ratio l).
Proof.
  intros Hl. rewrite Forall_forall in *. intros s' Hs'. apply elem_of_list_In, slash_kept_elem in Hs' as (s & Hs & Hc & ->).
  apply elem_of_list_In, Hl in Hs. exact Hs.
Qed.

(* the returned number is the total reduction of the kept stakes, and the new total power is
   the power of the surviving stakes minus that number *)
Corollary slash_all_total d ratio :
  0 ≤ ratio → Forall (λ s, 0 ≤ s_power s) (d_stakes d) → NoDup (s_hash <$> d_stakes d) →
  d_total (slash_all d ratio).1 = sum_power (List.filter (survives ratio) (d_stakes d)) - (slash_all d ratio).2.
Proof. intros Hr Hp Hnd. rewrite slash_all_spec by assumption. simpl. apply sum_power_slash_kept. Qed.

(* the delegatee's bookkeeping (C11) survives a slash *)
Corollary slash_all_delegatee_ok a d ratio :
  0 ≤ ratio → Forall (λ s, 0 ≤ s_power s) (d_stakes d) → NoDup (s_hash <$> d_stakes d) →
  delegatee_ok a d → delegatee_ok a (slash_all d ratio).1.
Proof.
  intros Hr Hp Hnd (Ha & _ & _ & Hto). rewrite slash_all_spec by assumption. simpl.
  unfold delegatee_ok; simpl. rewrite Ha. repeat split; auto. apply slash_kept_to, Hto.
Qed.

(* L1 with duplicate hashes inside one delegatee is false: removal is by hash and takes the
   first stake carrying it.  Here the large stake (power 1000, cut to 900) stands before a
   small one with the same hash; the small one is to be forfeited, but the large one is what
   gets removed and the small one stays, unslashed. *)
Definition dup_big : stake := {| s_from := 1%N; s_to := 1%N; s_hash := 7%N; s_start := 1; s_refund := 0; s_power := 1000 |}.
Definition dup_small : stake := {| s_from := 2%N; s_to := 1%N; s_hash := 7%N; s_start := 2; s_refund := 0; s_power := 1 |}.
Definition dup_d : delegatee := {| d_addr := 1%N; d_self := 1000; d_total := 1001; d_stakes := [dup_big; dup_small]; d_marks := [] |}.

Lemma slash_dup_hash_refuted :
  ∃ d ratio, 0 ≤ ratio ≤ 100 ∧ Forall (λ s, 0 ≤ s_power s) (d_stakes d) ∧
    d_stakes (slash_all d ratio).1 = [dup_small] ∧ slash_kept ratio (d_stakes d) = [with_power 900 dup_big].
Proof.
  exists dup_d, 10. split; [lia|]. split.
  - repeat constructor; simpl; lia.
  - split; vm_compute; reflexivity.
Qed.

Example slash_all_example :
  let d := {| d_addr := 1%N; d_self := 1000; d_total := 1009;
              d_stakes := [dup_big; {| s_from := 2%N; s_to := 1%N; s_hash := 8%N; s_start := 2; s_refund := 0; s_power := 9 |}];
              d_marks := [] |} in
  0 ≤ 10 ∧ Forall (λ s, 0 ≤ s_power s) (d_stakes d) ∧ NoDup (s_hash <$> d_stakes d) ∧
  slash_all d 10 = ({| d_addr := 1%N; d_self := 900; d_total := 900; d_stakes := [with_power 900 dup_big]; d_marks := [] |}, 100).
Proof.
  cbv zeta. split; [lia|]. split; [repeat constructor; simpl; lia|]. split.
  - simpl. apply NoDup_cons. split; [set_solver|]. apply NoDup_singleton.
  - vm_compute. reflexivity.
Qed.

(* ================================================================== L2: stake_punish *)
Definition slash1 (ratio : Z) (d : delegatee) : delegatee := (slash_all d ratio).1.

Definition punish_dels (ratio : Z) (m : gmap addr delegatee) (evi : list addr) : gmap addr delegatee :=
  foldl (λ m a, match m !! a with Some d => <[a := slash1 ratio d]> m | None => m end) m evi.

Lemma stake_punish_eq l ratio evi : stake_punish l ratio evi = set_dels l (punish_dels ratio (dels l) evi).
Proof.
  unfold stake_punish, punish_dels. revert l. induction evi as [|a evi IH]; intros l; simpl.
  - symmetry. apply set_dels_id.
  - rewrite IH. destruct (dels l !! a) as [d|]; reflexivity.
Qed.

(* how often an address is named *)
Definition times (a : addr) (evi : list addr) : nat := length (List.filter (λ b, (b =? a)%N) evi).

Lemma punish_dels_lookup ratio m evi a :
  punish_dels ratio m evi !! a = Nat.iter (times a evi) (slash1 ratio) <$> m !! a.
Proof.
  unfold punish_dels. revert m. induction evi as [|b evi IH]; intros m; simpl.
  - destruct (m !! a); reflexivity.
  - rewrite IH. unfold times; simpl. destruct (b =? a)%N eqn:E.
    + apply N.eqb_eq in E. subst b. simpl length.
      destruct (m !! a) as [d|] eqn:Em; [rewrite lookup_insert|rewrite Em]; [|reflexivity].
      simpl. rewrite <- Nat.iter_succ_r. reflexivity.
    + apply N.eqb_neq in E. destruct (m !! b) as [d|]; [rewrite lookup_insert_ne by assumption|]; reflexivity.
Qed.

(* L2.  Evidence is applied once per item: a delegatee named n times is slashed n times, all
   other delegatees and all other ledgers are untouched. *)
Theorem stake_punish_spec l ratio evi :
  (∀ a, dels (stake_punish l ratio evi) !! a = Nat.iter (times a evi) (slash1 ratio) <$> dels l !! a) ∧
  (∀ a, a ∉ evi → dels (stake_punish l ratio evi) !! a = dels l !! a) ∧
  accts (stake_punish l ratio evi) = accts l ∧ frozen (stake_punish l ratio evi) = frozen l ∧
  rewards (stake_punish l ratio evi) = rewards l ∧ props (stake_punish l ratio evi) = props l ∧
  fprops (stake_punish l ratio evi) = fprops l ∧ lparams (stake_punish l ratio evi) = lparams l.
Proof.
  rewrite stake_punish_eq. simpl. split; [|split]; [| |repeat split].
  - intros a. apply punish_dels_lookup.
  - intros a Ha. rewrite punish_dels_lookup.
    assert (Ht : times a evi = 0%nat).
    { unfold times. induction evi as [|b evi IH]; simpl; [reflexivity|].
      destruct (b =? a)%N eqn:E.
      - apply N.eqb_eq in E. subst. exfalso. apply Ha. left.
      - apply IH. intros Hin. apply Ha. right. assumption. }
    rewrite Ht. simpl. destruct (dels l !! a); reflexivity.
Qed.
Print Assumptions stake_punish_spec.

(* one evidence item against a bonded validator, spelled out with L1 *)
Corollary stake_punish_one l ratio a d :
  0 ≤ ratio → dels l !! a = Some d → Forall (λ s, 0 ≤ s_power s) (d_stakes d) → NoDup (s_hash <$> d_stakes d) →
  dels (stake_punish l ratio [a]) !! a =
    Some {| d_addr := d_addr d; d_self := sum_power_of (d_addr d) (slash_kept ratio (d_stakes d));
            d_total := sum_power (slash_kept ratio (d_stakes d)); d_stakes := slash_kept ratio (d_stakes d);
            d_marks := d_marks d |}.
Proof.
  intros Hr Hd Hp Hnd. destruct (stake_punish_spec l ratio [a]) as (H & _). rewrite H, Hd.
  unfold times; simpl. rewrite N.eqb_refl. simpl. unfold slash1. rewrite slash_all_spec by assumption. reflexivity.
Qed.

(* ================================================================== L3: gov_punish *)
Lemma two_facts : two63 = 2 ^ 63 ∧ two64 = 2 ^ 64 ∧ two255 = 2 ^ 255 ∧ two256 = 2 ^ 256.
Proof. repeat split. Qed.

(* the detour through uint64 / uint256 in GovProposal.DoPunish is the identity on int64 powers
   and percentages *)
Lemma punish_arith pw ratio :
  0 ≤ pw < two63 → 0 ≤ ratio ≤ 100 →
  wrap64 ((((pw mod two64) * (ratio mod two64)) mod two256 / 100) mod two64) = pw * ratio / 100.
Proof.
  intros Hp Hr. destruct two_facts as (E63 & E64 & _ & E256).
  assert (H63 : two63 = 9223372036854775808) by (rewrite E63; reflexivity).
  assert (H64 : two64 = 18446744073709551616) by (rewrite E64; reflexivity).
  assert (H256 : two64 * two64 ≤ two256) by (rewrite E64, E256; vm_compute; discriminate).
  rewrite (Z.mod_small pw) by lia. rewrite (Z.mod_small ratio) by lia.
  rewrite (Z.mod_small (pw * ratio)) by nia.
  assert (Hq : 0 ≤ pw * ratio / 100 ≤ pw).
  { split; [apply Z.div_pos; nia|apply Z.div_le_upper_bound; nia]. }
  rewrite Z.mod_small by lia. apply wrap64_small. unfold in64. lia.
Qed.

(* the proposal after its voter [a] (stored as [v]) has lost [sl] of its weight *)
Definition punished_prop (p : proposal) (a : addr) (v : voter) (sl : Z) : proposal :=
  {| p_hash := p_hash p; p_start := p_start p; p_end := p_end p; p_apply := p_apply p;
     p_total := p_total p - sl; p_majority := ((p_total p - sl) * 2) `quot` 3;
     p_voters := if v_power v - sl <=? 0 then delete a (p_voters p)
                 else <[a := {| v_power := v_power v - sl; v_choice := v_choice v |}]> (p_voters p);
     p_opttype := p_opttype p;
     p_options := if 0 <=? v_choice v
                  then alter (λ o, set_votes (o_votes o - sl) o) (Z.to_nat (v_choice v)) (p_options p)
                  else p_options p;
     p_major := p_major p |}.

Lemma prop_punish_absent p a ratio : p_voters p !! a = None → prop_punish p a ratio = (p, 0).
Proof. intros H. unfold prop_punish. rewrite H. reflexivity. Qed.

(* L3, one proposal: the voter's power shrinks by floor(power*ratio/100) (the voter is removed when
   nothing is left), the option it had chosen loses exactly that amount, the total shrinks by it
   and the majority threshold is recomputed; nothing else changes. *)
Theorem prop_punish_spec p a ratio v :
  p_voters p !! a = Some v → 0 ≤ v_power v < two63 → 0 ≤ ratio ≤ 100 →
  prop_punish p a ratio = (punished_prop p a v (v_power v * ratio / 100), v_power v * ratio / 100).
Proof.
  intros Hv Hp Hr. unfold prop_punish. rewrite Hv. unfold cancel_vote.
  set (sl := v_power v * ratio / 100).
  assert (Hsl : 0 ≤ sl ≤ v_power v).
  { subst sl. split; [apply Z.div_pos; nia|apply Z.div_le_upper_bound; nia]. }
  unfold punished_prop. fold sl.
  destruct (0 <=? v_choice v) eqn:Ec; cbn [v_power v_choice]; rewrite punish_arith by assumption; fold sl.
  - destruct (v_power v - sl <=? 0) eqn:En.
    + f_equal. f_equal. apply list_alter_ext; [|reflexivity]. intros o _.
      assert (sl = v_power v) by lia. congruence.
    + unfold do_vote. rewrite Ec. cbn [v_power v_choice].
      f_equal. f_equal. rewrite <- list_alter_compose. apply list_alter_ext; [|reflexivity].
      intros o _. unfold compose, set_votes; simpl. f_equal. lia.
  - destruct (v_power v - sl <=? 0) eqn:En; reflexivity.
Qed.
Print Assumptions prop_punish_spec.

(* with a non-negative remaining total the threshold is floor(2*total/3) *)
Lemma majority_floor t : 0 ≤ t → (t * 2) `quot` 3 = t * 2 / 3.
Proof. intros. apply Z.quot_div_nonneg; lia. Qed.

(* readable consequences of [prop_punish_spec] *)
Corollary prop_punish_voters p a ratio v b :
  p_voters p !! a = Some v → 0 ≤ v_power v < two63 → 0 ≤ ratio ≤ 100 → b ≠ a →
  p_voters (prop_punish p a ratio).1 !! b = p_voters p !! b.
Proof.
  intros Hv Hp Hr Hb. rewrite (prop_punish_spec p a ratio v) by assumption. simpl.
  destruct (_ <=? 0); [apply lookup_delete_ne|apply lookup_insert_ne]; congruence.
Qed.

Corollary prop_punish_voter p a ratio v :
  p_voters p !! a = Some v → 0 ≤ v_power v < two63 → 0 ≤ ratio ≤ 100 →
  let sl := v_power v * ratio / 100 in
  p_voters (prop_punish p a ratio).1 !! a =
    if v_power v - sl <=? 0 then None else Some {| v_power := v_power v - sl; v_choice := v_choice v |}.
Proof.
  intros Hv Hp Hr sl. rewrite (prop_punish_spec p a ratio v) by assumption. simpl. fold sl.
  destruct (_ <=? 0); [apply lookup_delete|apply lookup_insert].
Qed.

(* ------------------------------------------------------------------ the fold over proposals *)
Definition punish1 (ratio : Z) (a : addr) (p : proposal) : proposal := (prop_punish p a ratio).1.

Lemma fold_targets_ledgers (f : proposal → proposal) (L : list (hash * proposal)) l :
  foldl (λ l kp, match props l !! kp.1 with
                 | Some p => set_props l (<[kp.1 := f p]> (props l))
                 | None => l end) l L
  = set_props l (foldl (λ m (kp : hash * proposal), match m !! kp.1 with Some p => <[kp.1 := f p]> m | None => m end) (props l) L).
Proof.
  revert l. induction L as [|kp L IH]; intros l; simpl.
  - symmetry. apply set_props_id.
  - rewrite IH. destruct (props l !! kp.1); reflexivity.
Qed.

Lemma fold_targets_lookup (f : proposal → proposal) (L : list (hash * proposal)) (m : gmap hash proposal) k :
  NoDup L.*1 →
  foldl (λ m (kp : hash * proposal), match m !! kp.1 with Some p => <[kp.1 := f p]> m | None => m end) m L !! k
  = if decide (k ∈ L.*1) then f <$> m !! k else m !! k.
Proof.
  revert m. induction L as [|kp L IH]; intros m Hnd; simpl.
  - reflexivity.
  - apply NoDup_cons in Hnd as [Hni Hnd]. rewrite IH by assumption.
    destruct (decide (k = kp.1)) as [->|Hne].
    + rewrite decide_False by assumption. rewrite decide_True by left.
      destruct (m !! kp.1) as [p|] eqn:Em; [rewrite lookup_insert|rewrite Em]; reflexivity.
    + assert (Hm : match m !! kp.1 with Some p => <[kp.1 := f p]> m | None => m end !! k = m !! k).
      { destruct (m !! kp.1); [apply lookup_insert_ne; congruence|reflexivity]. }
      rewrite Hm. destruct (decide (k ∈ L.*1)) as [Hin|Hin].
      * rewrite decide_True by (right; assumption). reflexivity.
      * rewrite decide_False; [reflexivity|]. intros Hc. apply elem_of_cons in Hc as [?|?]; contradiction.
Qed.

(* one evidence item: every open proposal is passed through [prop_punish] (the identity on
   proposals where the address is no voter) *)
Lemma gov_punish_step l ratio a :
  let targets := List.filter (λ kp : hash * proposal, match p_voters kp.2 !! a with Some _ => true | None => false end) (sorted_items (props l)) in
  foldl (λ l kp, match props l !! kp.1 with
                 | Some p => set_props l (<[kp.1 := (prop_punish p a ratio).1]> (props l))
                 | None => l end) l targets
  = set_props l (punish1 ratio a <$> props l).
Proof.
  intros targets. rewrite (fold_targets_ledgers (punish1 ratio a)). f_equal.
  assert (Hperm : sorted_items (props l) ≡ₚ map_to_list (props l)) by apply merge_sort_Permutation.
  assert (Hsub : sublist targets (sorted_items (props l))) by apply sublist_List_filter.
  assert (Hnd : NoDup targets.*1).
  { apply (NoDup_map_filter fst). change (NoDup (sorted_items (props l)).*1).
    rewrite Hperm. apply NoDup_fst_map_to_list. }
  apply map_eq. intros k. rewrite fold_targets_lookup by assumption. rewrite lookup_fmap.
  destruct (decide (k ∈ targets.*1)) as [Hin|Hin]; [reflexivity|].
  destruct (props l !! k) as [p|] eqn:Ep; [|reflexivity]. simpl. f_equal.
  destruct (p_voters p !! a) as [v|] eqn:Ev.
  - exfalso. apply Hin. apply elem_of_list_fmap. exists (k, p). split; [reflexivity|].
    apply elem_of_list_In, filter_In. split.
    + apply elem_of_list_In. rewrite Hperm. apply elem_of_map_to_list. assumption.
    + simpl. rewrite Ev. reflexivity.
  - unfold punish1. rewrite prop_punish_absent by assumption. reflexivity.
Qed.

Definition punish_props (ratio : Z) (m : gmap hash proposal) (evi : list addr) : gmap hash proposal :=
  foldl (λ m a, punish1 ratio a <$> m) m evi.

Lemma gov_punish_eq l ratio evi : gov_punish l ratio evi = set_props l (punish_props ratio (props l) evi).
Proof.
  unfold gov_punish, punish_props. revert l. induction evi as [|a evi IH]; intros l; simpl.
  - symmetry. apply set_props_id.
  - rewrite gov_punish_step. rewrite IH. reflexivity.
Qed.

Lemma punish_props_lookup ratio m evi h :
  punish_props ratio m evi !! h = (λ p, foldl (λ p a, punish1 ratio a p) p evi) <$> m !! h.
Proof.
  unfold punish_props. revert m. induction evi as [|a evi IH]; intros m; simpl.
  - destruct (m !! h); reflexivity.
  - rewrite IH, lookup_fmap. destruct (m !! h); reflexivity.
Qed.

(* L3.  Every open proposal is punished once per evidence item, in order, independently of the
   other proposals; nothing outside [props] changes. *)
Theorem gov_punish_spec l ratio evi :
  (∀ h, props (gov_punish l ratio evi) !! h = (λ p, foldl (λ p a, punish1 ratio a p) p evi) <$> props l !! h) ∧
  accts (gov_punish l ratio evi) = accts l ∧ dels (gov_punish l ratio evi) = dels l ∧
  frozen (gov_punish l ratio evi) = frozen l ∧ rewards (gov_punish l ratio evi) = rewards l ∧
  fprops (gov_punish l ratio evi) = fprops l ∧ lparams (gov_punish l ratio evi) = lparams l.
Proof.
  rewrite gov_punish_eq. simpl. split; [|repeat split]. intros h. apply punish_props_lookup.
Qed.
Print Assumptions gov_punish_spec.

(* proposals in which none of the named validators is a voter are unchanged *)
Corollary gov_punish_other l ratio evi h p :
  props l !! h = Some p → (∀ a, a ∈ evi → p_voters p !! a = None) →
  props (gov_punish l ratio evi) !! h = Some p.
Proof.
  intros Hp Hno. destruct (gov_punish_spec l ratio evi) as (H & _). rewrite H, Hp. simpl. f_equal. clear H.
  induction evi as [|a evi IH]; simpl; [reflexivity|].
  unfold punish1 at 2. rewrite prop_punish_absent by (apply Hno; left).
  apply IH. intros b Hb. apply Hno. right. assumption.
Qed.

(* voter powers stay in the int64 range, so the arithmetic lemma applies item after item *)
Definition voters_ok (p : proposal) : Prop := ∀ a v, p_voters p !! a = Some v → 0 ≤ v_power v < two63.

Lemma punish1_voters_ok ratio a p : 0 ≤ ratio ≤ 100 → voters_ok p → voters_ok (punish1 ratio a p).
Proof.
  intros Hr Hok. unfold punish1. destruct (p_voters p !! a) as [v|] eqn:Ev.
  - pose proof (Hok _ _ Ev) as Hv. intros b w Hw.
    destruct (decide (b = a)) as [->|Hne].
    + rewrite (prop_punish_voter p a ratio v) in Hw by assumption. cbv zeta in Hw.
      assert (0 ≤ v_power v * ratio / 100 ≤ v_power v).
      { split; [apply Z.div_pos; nia|apply Z.div_le_upper_bound; nia]. }
      destruct (_ <=? 0) eqn:E; [discriminate|]. injection Hw as <-. simpl. lia.
    + rewrite (prop_punish_voters p a ratio v) in Hw by assumption. eapply Hok, Hw.
  - rewrite prop_punish_absent by assumption. exact Hok.
Qed.

(* one evidence item, one proposal in which the validator votes: the full picture *)
Corollary gov_punish_one l ratio a h p v :
  props l !! h = Some p → p_voters p !! a = Some v → 0 ≤ v_power v < two63 → 0 ≤ ratio ≤ 100 →
  props (gov_punish l ratio [a]) !! h = Some (punished_prop p a v (v_power v * ratio / 100)).
Proof.
  intros Hp Hv Hpw Hr. destruct (gov_punish_spec l ratio [a]) as (H & _). rewrite H, Hp. simpl.
  unfold punish1. rewrite (prop_punish_spec p a ratio v) by assumption. reflexivity.
Qed.

(* ================================================================== L4: missed blocks and jailing *)
(* ------------------------------------------------------------------ the block marker *)
Notation incr := (StronglySorted Z.lt).

Lemma mark_eq m h :
  mark m h = if (match last m with Some l => h <=? l | None => false end) then m else m ++ [h].
Proof. unfold mark. destruct (last m) as [l|]; [destruct (h <=? l)|]; reflexivity. Qed.

Lemma incr_snoc m h : incr m → Forall (λ x, x < h) m → incr (m ++ [h]).
Proof.
  induction m as [|x m IH]; intros Hs Hl; simpl.
  - repeat constructor.
  - apply StronglySorted_inv in Hs as [Hs Hx]. apply Forall_cons in Hl as [Hxh Hl]. constructor.
    + apply IH; assumption.
    + apply Forall_app. split; [exact Hx|]. constructor; [exact Hxh|constructor].
Qed.

Lemma incr_le_last m l : incr m → last m = Some l → Forall (λ x, x ≤ l) m.
Proof.
  induction m as [|x m IH]; intros Hs Hl; [constructor|].
  apply StronglySorted_inv in Hs as [Hs Hx].
  destruct m as [|y m].
  - injection Hl as <-. constructor; [lia|constructor].
  - change (last (y :: m) = Some l) in Hl. specialize (IH Hs Hl).
    constructor; [|exact IH]. apply Forall_cons in Hx as [Hxy _]. apply Forall_cons in IH as [Hyl _]. lia.
Qed.

(* marks stay strictly increasing *)
Lemma mark_incr m h : incr m → incr (mark m h).
Proof.
  intros Hs. rewrite mark_eq. destruct (last m) as [l|] eqn:El.
  - destruct (h <=? l) eqn:E; [exact Hs|]. apply incr_snoc; [exact Hs|].
    eapply Forall_impl; [apply incr_le_last; eassumption|]. intros x Hx. simpl in Hx. lia.
  - apply last_None in El. subst m. repeat constructor.
Qed.

Section window.
  Variables h0 h1 : Z.
  Definition in_window (x : Z) : bool := (h0 <=? x) && (x <=? h1).
  Definition before_window (x : Z) : bool := x <? h0.

  Lemma filter_none {A} (f : A → bool) l : (∀ x, In x l → f x = false) → List.filter f l = [].
  Proof. induction l as [|x l IH]; simpl; intros H; [reflexivity|]. rewrite H by auto. apply IH; auto. Qed.

  Lemma count_window_spec m : ∀ i cnt pre,
    incr m → h0 ≤ h1 →
    count_window m h0 h1 i cnt pre =
      (cnt + Z.of_nat (length (List.filter in_window m)),
       match length (List.filter before_window m) with O => pre | S k => Some (i + k)%nat end).
  Proof.
    induction m as [|h r IH]; intros i cnt pre Hs Hle; simpl.
    - rewrite Z.add_0_r. reflexivity.
    - apply StronglySorted_inv in Hs as [Hs Hh]. rewrite Forall_forall in Hh.
      fold (in_window h). fold (before_window h).
      destruct (h1 <=? h) eqn:E1.
      + (* the scan stops here; nothing after h is in or before the window *)
        assert (Hb : before_window h = false) by (unfold before_window; lia). rewrite Hb.
        rewrite (filter_none in_window r), (filter_none before_window r).
        * destruct (in_window h); simpl; f_equal; lia.
        * intros x Hx. apply elem_of_list_In, Hh in Hx. unfold before_window. lia.
        * intros x Hx. apply elem_of_list_In, Hh in Hx. unfold in_window. lia.
      + rewrite IH by assumption. f_equal.
        * destruct (in_window h); simpl length; lia.
        * destruct (before_window h) eqn:Eb.
          -- simpl length. destruct (length (List.filter before_window r)); f_equal; lia.
          -- rewrite (filter_none before_window r); [reflexivity|].
             intros x Hx. apply elem_of_list_In, Hh in Hx. unfold before_window in *. lia.
  Qed.

  (* the marks before the window form a prefix of an increasing list *)
  Lemma drop_before m : incr m → drop (length (List.filter before_window m)) m = List.filter (λ x, negb (before_window x)) m.
  Proof.
    induction m as [|h r IH]; intros Hs; simpl; [reflexivity|].
    apply StronglySorted_inv in Hs as [Hs Hh]. rewrite Forall_forall in Hh.
    destruct (before_window h) eqn:Eb; simpl; [apply IH, Hs|].
    rewrite (filter_none before_window r); simpl.
    - f_equal. symmetry. apply filter_all_true. intros x Hx. apply elem_of_list_In, Hh in Hx. unfold before_window in *. lia.
    - intros x Hx. apply elem_of_list_In, Hh in Hx. unfold before_window in *. lia.
  Qed.

  (* CountInWindow(h0, h1, rewind): on strictly increasing marks it returns the number of marks in
     [h0, h1], and afterwards the marks below h0 are gone — provided there were at least two of
     them (the code tests preIdx > 0, so a single mark below the window stays) *)
  Theorem count_in_window_spec m :
    incr m → h0 ≤ h1 →
    count_in_window m h0 h1 =
      (Z.of_nat (length (List.filter in_window m)),
       if (2 <=? length (List.filter before_window m))%nat
       then List.filter (λ x, negb (before_window x)) m else m).
  Proof.
    intros Hs Hle. unfold count_in_window. destruct (h1 <? h0) eqn:E; [lia|].
    rewrite count_window_spec by assumption. rewrite Z.add_0_l. f_equal.
    rewrite <- drop_before by assumption.
    destruct (length (List.filter before_window m)) as [|[|k]]; reflexivity.
  Qed.

  Lemma count_in_window_suffix m : ∃ k, (count_in_window m h0 h1).2 = drop k m.
  Proof.
    unfold count_in_window. destruct (h1 <? h0); [exists 0%nat; reflexivity|].
    destruct (count_window m h0 h1 0 0 None) as [c [[|i]|]]; simpl; eauto; exists 0%nat; reflexivity.
  Qed.
End window.

Lemma incr_drop k m : incr m → incr (drop k m).
Proof.
  revert m. induction k as [|k IH]; intros m Hs; [exact Hs|]. destruct m as [|x m]; [exact Hs|].
  apply StronglySorted_inv in Hs as [Hs _]. simpl. apply IH, Hs.
Qed.

Lemma count_in_window_incr m h0 h1 : incr m → incr (count_in_window m h0 h1).2.
Proof. intros Hs. destruct (count_in_window_suffix h0 h1 m) as [k ->]. apply incr_drop, Hs. Qed.

(* ------------------------------------------------------------------ freezing *)
Lemma freeze_all_lookup_other fr refund ss k :
  (∀ s, In s ss → s_hash s ≠ k) → freeze_all fr refund ss !! k = fr !! k.
Proof.
  unfold freeze_all. revert fr. induction ss as [|s ss IH]; intros fr H; simpl; [reflexivity|].
  rewrite IH by (intros; apply H; right; assumption).
  apply lookup_insert_ne. apply H. left. reflexivity.
Qed.

Lemma freeze_all_lookup fr refund ss s :
  NoDup (s_hash <$> ss) → In s ss → freeze_all fr refund ss !! s_hash s = Some (with_refund refund s).
Proof.
  unfold freeze_all. revert fr. induction ss as [|x ss IH]; intros fr Hnd Hin; simpl; [contradiction|].
  simpl in Hnd. apply NoDup_cons in Hnd as [Hni Hnd]. destruct Hin as [->|Hin].
  - fold (freeze_all (<[s_hash s := with_refund refund s]> fr) refund ss).
    rewrite freeze_all_lookup_other; [apply lookup_insert|].
    intros y Hy Heq. apply Hni. rewrite <- Heq. apply elem_of_list_In, in_map, Hy.
  - apply IH; assumption.
Qed.

(* ------------------------------------------------------------------ one missed block *)
Definition with_marks (d : delegatee) (m : list Z) : delegatee :=
  {| d_addr := d_addr d; d_self := d_self d; d_total := d_total d; d_stakes := d_stakes d; d_marks := m |}.

(* what the not-signed branch does to validator [a] at block height [h] *)
Definition jail_step (g : params) (h : Z) (l : ledgers) (a : addr) : ledgers :=
  match dels l !! a with
  | None => l
  | Some d =>
      let sh := h - 1 in
      let m1 := mark (d_marks d) sh in
      let s0 := if sh - g_signedBlocksWindow g <? 0 then 0 else sh - g_signedBlocksWindow g in
      let '(cnt, m2) := count_in_window m1 s0 sh in
      if g_signedBlocksWindow g - cnt <? g_minSignedBlocks g
      then set_frozen (set_dels l (delete a (dels l))) (freeze_all (frozen l) (h + g_lazyRewardBlocks g) (d_stakes d))
      else set_dels l (<[a := with_marks d m2]> (dels l))
  end.

Lemma vote_step_unsigned s old h l i a pw :
  vote_step s old h (Ok (l, i)) (a, pw, false) = Ok (jail_step (gparams s) h l a, i).
Proof.
  unfold vote_step, jail_step. destruct (dels l !! a) as [d|]; [|reflexivity]. cbv zeta.
  destruct (count_in_window _ _ _) as [cnt m2].
  destruct (_ <? g_minSignedBlocks (gparams s)); [|reflexivity].
  unfold del_all_stakes. cbn [dels set_dels set_frozen frozen d_stakes]. rewrite delete_insert_delete. reflexivity.
Qed.

Lemma vote_step_signed s old h l i a pw l' i' :
  vote_step s old h (Ok (l, i)) (a, pw, true) = Ok (l', i') → l' = set_rewards l (rewards l').
Proof.
  unfold vote_step. intros H. assert (Hid : l = set_rewards l (rewards l)) by (destruct l; reflexivity).
  destruct (dels old !! a) as [d|]; [|injection H as <- _; exact Hid].
  destruct (negb (d_total d =? pw)); [injection H as <- _; exact Hid|].
  destruct (reward_to _ _ _ _) as [[rw iss]| |]; try discriminate. injection H as <- _. reflexivity.
Qed.

(* L4, one vote.  For a validator that did not sign and is still bonded: the missed height h-1 is
   marked, the marks inside the signing window [max(0, h-1-window), h-1] are counted, and exactly
   when window - count < minSigned every stake bonded to it is moved to the unbonding ledger with
   refund height h + lazyRewardBlocks and the delegatee is deleted; otherwise only its marks
   change (marks below the window are dropped).  Nothing else in the ledgers changes. *)
Theorem jail_step_spec g h l a d :
  dels l !! a = Some d → incr (d_marks d) → 0 ≤ g_signedBlocksWindow g → 1 ≤ h →
  let sh := h - 1 in
  let m1 := mark (d_marks d) sh in
  let s0 := Z.max 0 (sh - g_signedBlocksWindow g) in
  let cnt := Z.of_nat (length (List.filter (in_window s0 sh) m1)) in
  let m2 := if (2 <=? length (List.filter (before_window s0) m1))%nat
            then List.filter (λ x, negb (before_window s0 x)) m1 else m1 in
  jail_step g h l a =
    if g_signedBlocksWindow g - cnt <? g_minSignedBlocks g
    then set_frozen (set_dels l (delete a (dels l))) (freeze_all (frozen l) (h + g_lazyRewardBlocks g) (d_stakes d))
    else set_dels l (<[a := with_marks d m2]> (dels l)).
Proof.
  intros Hd Hs Hw Hh sh m1 s0 cnt m2. unfold jail_step. rewrite Hd. cbv zeta. fold sh. fold m1.
  assert (Es0 : (if sh - g_signedBlocksWindow g <? 0 then 0 else sh - g_signedBlocksWindow g) = s0).
  { subst s0. destruct (sh - g_signedBlocksWindow g <? 0) eqn:E; lia. }
  rewrite Es0. rewrite count_in_window_spec; [reflexivity|apply mark_incr, Hs|subst s0 sh; lia].
Qed.
Print Assumptions jail_step_spec.

Lemma jail_step_absent g h l a : dels l !! a = None → jail_step g h l a = l.
Proof. intros H. unfold jail_step. rewrite H. reflexivity. Qed.

(* frame of one missed-block step: only [dels] at [a] and [frozen] can change *)
Lemma jail_step_frame g h l a :
  accts (jail_step g h l a) = accts l ∧ rewards (jail_step g h l a) = rewards l ∧
  props (jail_step g h l a) = props l ∧ fprops (jail_step g h l a) = fprops l ∧
  lparams (jail_step g h l a) = lparams l ∧
  (∀ b, b ≠ a → dels (jail_step g h l a) !! b = dels l !! b).
Proof.
  unfold jail_step. destruct (dels l !! a) as [d|]; [|repeat split]. cbv zeta.
  destruct (count_in_window _ _ _) as [cnt m2].
  destruct (_ <? g_minSignedBlocks g); simpl; repeat split; intros b Hb;
    [apply lookup_delete_ne|apply lookup_insert_ne]; congruence.
Qed.

Lemma jail_step_set_rewards g h l a rw :
  jail_step g h (set_rewards l rw) a = set_rewards (jail_step g h l a) rw.
Proof.
  unfold jail_step. cbn [dels set_rewards]. destruct (dels l !! a) as [d|]; [|reflexivity]. cbv zeta.
  destruct (count_in_window _ _ _) as [cnt m2]. destruct (_ <? g_minSignedBlocks g); reflexivity.
Qed.

(* the jailed case, read off per stake *)
Corollary jail_step_jailed g h l a d cnt m2 s :
  dels l !! a = Some d →
  count_in_window (mark (d_marks d) (h - 1))
     (if h - 1 - g_signedBlocksWindow g <? 0 then 0 else h - 1 - g_signedBlocksWindow g) (h - 1) = (cnt, m2) →
  g_signedBlocksWindow g - cnt < g_minSignedBlocks g →
  NoDup (s_hash <$> d_stakes d) → In s (d_stakes d) →
  dels (jail_step g h l a) !! a = None ∧
  frozen (jail_step g h l a) !! s_hash s = Some (with_refund (h + g_lazyRewardBlocks g) s).
Proof.
  intros Hd Hc Hlt Hnd Hs. unfold jail_step. rewrite Hd. cbv zeta. rewrite Hc.
  destruct (_ <? g_minSignedBlocks g) eqn:E; [|lia]. simpl. split; [apply lookup_delete|].
  apply freeze_all_lookup; assumption.
Qed.

(* ------------------------------------------------------------------ the whole vote loop *)
Definition jail_votes (g : params) (h : Z) (l : ledgers) (votes : list (addr * Z * bool)) : ledgers :=
  foldl (λ l (v : addr * Z * bool), if v.2 then l else jail_step g h l v.1.1) l votes.

Lemma jail_votes_set_rewards g h votes : ∀ l rw,
  jail_votes g h (set_rewards l rw) votes = set_rewards (jail_votes g h l votes) rw.
Proof.
  unfold jail_votes. induction votes as [|[[a pw] sg] votes IH]; intros l rw; simpl; [reflexivity|].
  destruct sg; [apply IH|]. rewrite jail_step_set_rewards. apply IH.
Qed.

(* the vote loop = the jailing pass on everything but [rewards], and (InvReward) the reward pass
   on [rewards]: the two branches touch disjoint parts of the state *)
Lemma vote_fold_jail s old h votes : ∀ l i l3 i3,
  foldl (vote_step s old h) (Ok (l, i)) votes = Ok (l3, i3) →
  l3 = set_rewards (jail_votes (gparams s) h l votes) (rewards l3).
Proof.
  induction votes as [|[[a pw] sg] votes IH]; intros l i l3 i3 H.
  - simpl in H. injection H as <- _. destruct l; reflexivity.
  - cbn [foldl] in H. destruct sg.
    + destruct (vote_step s old h (Ok (l, i)) (a, pw, true)) as [[l1 i1]|e|p] eqn:E1.
      * apply IH in H. apply vote_step_signed in E1. unfold jail_votes; simpl. fold (jail_votes (gparams s) h l votes).
        rewrite H at 1. rewrite E1 at 1. rewrite jail_votes_set_rewards. reflexivity.
      * rewrite vote_fold_stuck in H by discriminate. discriminate.
      * rewrite vote_fold_stuck in H by discriminate. discriminate.
    + rewrite vote_step_unsigned in H. apply IH in H. exact H.
Qed.

Lemma jail_votes_frame g h votes : ∀ l,
  accts (jail_votes g h l votes) = accts l ∧ rewards (jail_votes g h l votes) = rewards l ∧
  props (jail_votes g h l votes) = props l ∧ fprops (jail_votes g h l votes) = fprops l ∧
  lparams (jail_votes g h l votes) = lparams l ∧
  (∀ b, (∀ pw, (b, pw, false) ∉ votes) → dels (jail_votes g h l votes) !! b = dels l !! b).
Proof.
  unfold jail_votes. induction votes as [|[[a pw] sg] votes IH]; intros l; simpl; [repeat split|].
  destruct sg; simpl.
  - destruct (IH l) as (H1 & H2 & H3 & H4 & H5 & H6). repeat split; try assumption.
    intros b Hb. apply H6. intros pw' Hin. apply (Hb pw'). right. exact Hin.
  - destruct (IH (jail_step g h l a)) as (H1 & H2 & H3 & H4 & H5 & H6).
    destruct (jail_step_frame g h l a) as (F1 & F2 & F3 & F4 & F5 & F6).
    repeat split; try congruence.
    intros b Hb. rewrite H6 by (intros pw' Hin; apply (Hb pw'); right; exact Hin).
    apply F6. intros ->. apply (Hb pw). left.
Qed.

(* ================================================================== L5: begin_block as a whole *)
(* L5.  The order is: proposals are punished, the eligible set and the limiter are rebuilt from
   the committed tree, stakes are punished, then the vote loop rewards the signers (InvReward, R1)
   and marks / jails the others.  Accounts, frozen proposals, the parameter ledger, the committed
   versions, the in-memory parameters and the last validator set never change; [props] changes
   only through gov_punish; [dels] and [frozen] only through stake_punish and jailing. *)
Theorem begin_block_frame s hd s' r :
  begin_block s hd = (s', r) →
  let ratio := g_slashRatio (gparams s) in
  let evi := h_evidence hd in
  let h := h_height hd in
  let l2 := stake_punish (gov_punish (work s) ratio evi) ratio evi in
  (h ≠ last_height s + 1 → s' = s ∧ r = Panic P_BEGINBLOCK) ∧
  (h = last_height s + 1 →
     committed s' = committed s ∧ gparams s' = gparams s ∧ newparams s' = newparams s ∧
     lastvals s' = lastvals s ∧ last_height s' = last_height s ∧
     bctx s' = {| b_height := h; b_proposer := h_proposer hd; b_feesum := 0; b_txs := 0 |} ∧
     accts (work s') = accts (work s) ∧ fprops (work s') = fprops (work s) ∧ lparams (work s') = lparams (work s) ∧
     props (work s') = punish_props ratio (props (work s)) evi ∧
     dels l2 = punish_dels ratio (dels (work s)) evi ∧ frozen l2 = frozen (work s) ∧
     match r with
     | Ok _ => dels (work s') = dels (jail_votes (gparams s) h l2 (h_votes hd)) ∧
               frozen (work s') = frozen (jail_votes (gparams s) h l2 (h_votes hd))
     | _ => dels (work s') = dels l2 ∧ frozen (work s') = frozen l2 ∧ rewards (work s') = rewards (work s)
     end).
Proof.
  intros H ratio evi h l2. unfold begin_block in H.
  destruct (negb (h_height hd =? last_height s + 1)) eqn:Eh.
  { injection H as <- <-. apply negb_true_iff, Z.eqb_neq in Eh. split; [auto|]. intros E. contradiction. }
  apply negb_false_iff, Z.eqb_eq in Eh. split; [intros E; contradiction|]. intros _.
  cbv zeta in H. fold ratio evi l2 in H.
  assert (Hl2 : accts l2 = accts (work s) ∧ fprops l2 = fprops (work s) ∧ lparams l2 = lparams (work s) ∧
                props l2 = punish_props ratio (props (work s)) evi ∧
                dels l2 = punish_dels ratio (dels (work s)) evi ∧ frozen l2 = frozen (work s) ∧
                rewards l2 = rewards (work s)).
  { subst l2. rewrite stake_punish_eq, gov_punish_eq. simpl. repeat split. }
  destruct Hl2 as (A1 & A2 & A3 & A4 & A5 & A6 & A7).
  destruct (h_votes hd) as [|v votes] eqn:Ev.
  - injection H as <- <-. simpl. repeat split; assumption.
  - match type of H with (match process_votes ?x _ _ _ with _ => _ end) = _ => set (s1 := x) in * end.
    destruct (process_votes s1 l2 (h_height hd) (v :: votes)) as [[l3 iss]|e|p] eqn:Ep;
      injection H as <- <-; simpl; try (repeat split; assumption).
    unfold process_votes in Ep. destruct (ledgers_at s1 (hgt_of_power (h_height hd))) as [old|] eqn:Eold; [|discriminate].
    change (foldl (vote_step s1 old (h_height hd)) (Ok (l2, 0)) (v :: votes) = Ok (l3, iss)) in Ep.
    apply vote_fold_jail in Ep. change (gparams s1) with (gparams s) in Ep.
    destruct (jail_votes_frame (gparams s) (h_height hd) (v :: votes) l2) as (J1 & J2 & J3 & J4 & J5 & _).
    rewrite Ep. subst s1.
    cbn [work with_work committed gparams newparams lastvals last_height bctx accts fprops lparams props dels frozen set_rewards].
    repeat split; congruence.
Qed.
Print Assumptions begin_block_frame.

(* ================================================================== example *)
(* two validators (1: power 100, 2: power 1000); validator 1 is also an asset holder and opens a
   proposal in block 3.  In block 4 there is evidence against validator 1 and validator 2 did
   not sign.  Slash ratio 50 %, signing window 2 with at least 2 signed blocks required. *)
Definition sl_params : params :=
  {| g_version := 1; g_maxValidatorCnt := 21; g_minValidatorStake := amountPerPower; g_minDelegatorStake := 0;
     g_rewardPerPower := 3; g_lazyRewardBlocks := 10; g_lazyApplyingBlocks := 10; g_gasPrice := 1;
     g_minTrxGas := 1; g_maxTrxGas := 1000000; g_maxBlockGas := 10000000; g_minVotingPeriodBlocks := 1;
     g_maxVotingPeriodBlocks := 100; g_minSelfStakeRatio := 50; g_maxUpdatableStakeRatio := 30;
     g_maxIndividualStakeRatio := 100; g_slashRatio := 50; g_signedBlocksWindow := 2; g_minSignedBlocks := 2 |}.
Definition sl_gen : genesis :=
  {| gen_params := sl_params; gen_holders := [(1%N, 1000000)]; gen_validators := [(1%N, 100); (2%N, 1000)] |}.
Definition sl_hdr (h : Z) (votes : list (addr * Z * bool)) (evi : list addr) : header :=
  {| h_height := h; h_proposer := Some 1%N; h_votes := votes; h_evidence := evi |}.
Definition sl_prop_tx : tx :=
  {| t_type := TRX_PROPOSAL; t_from := 1%N; t_to := 0%N; t_from_ok := true; t_to_ok := true; t_amount := 0;
     t_price := 1; t_gas := 10; t_nonce := 0; t_payload := PProposal 5 10 30 0 [(1%N, None); (2%N, None)] true;
     t_hash := 55%N; t_sigok := true; t_evm := None |}.
Definition sl_vote_tx : tx :=
  {| t_type := TRX_VOTING; t_from := 1%N; t_to := 0%N; t_from_ok := true; t_to_ok := true; t_amount := 0;
     t_price := 1; t_gas := 10; t_nonce := 1; t_payload := PVoting 55%N 1; t_hash := 56%N; t_sigok := true; t_evm := None |}.
Definition sl_run : list sop :=
  [SBegin (sl_hdr 1 [] []); SEnd; SCommit;
   SBegin (sl_hdr 2 [(1%N, 100, true); (2%N, 1000, true)] []); SEnd; SCommit;
   SBegin (sl_hdr 3 [(1%N, 100, true); (2%N, 1000, true)] []); SDeliver sl_prop_tx; SEnd; SCommit;
   SBegin (sl_hdr 4 [(1%N, 100, true); (2%N, 1000, true)] []); SEnd; SCommit;
   SBegin (sl_hdr 5 [(1%N, 100, true); (2%N, 1000, true)] []); SDeliver sl_vote_tx; SEnd; SCommit].
Definition sl_s : state := srun (init_chain sl_gen) sl_run.
Definition sl_hd6 : header := sl_hdr 6 [(1%N, 100, true); (2%N, 1000, false)] [1%N].
Definition sl_s' : state := (begin_block sl_s sl_hd6).1.
Definition prop_digest (p : proposal) := (p_total p, p_majority p, p_voters p !! 1%N, p_voters p !! 2%N, o_votes <$> p_options p).

(* the hypotheses of the theorems above hold on this state ... *)
Example slash_hyps_example :
  h_height sl_hd6 = last_height sl_s + 1 ∧ 0 ≤ g_slashRatio (gparams sl_s) ≤ 100 ∧
  (∃ d, dels (work sl_s) !! 1%N = Some d ∧ Forall (λ s, 0 ≤ s_power s) (d_stakes d) ∧ NoDup (s_hash <$> d_stakes d) ∧
        incr (d_marks d)) ∧
  (∃ p v, props (work sl_s) !! 55%N = Some p ∧ p_voters p !! 1%N = Some v ∧ 0 ≤ v_power v < two63 ∧
          prop_digest p = (1100, 733, Some {| v_power := 100; v_choice := 1 |}, Some {| v_power := 1000; v_choice := -1 |}, [0; 100])).
Proof.
  split; [vm_compute; reflexivity|]. split; [vm_compute; split; discriminate|]. split.
  - eexists. split; [vm_compute; reflexivity|]. split; [repeat constructor; simpl; lia|].
    split; [simpl; apply NoDup_singleton|constructor].
  - destruct (props (work sl_s) !! 55%N) as [p|] eqn:Ep; [|vm_compute in Ep; discriminate].
    exists p. assert (Hd : prop_digest <$> props (work sl_s) !! 55%N = Some (1100, 733, Some {| v_power := 100; v_choice := 1 |}, Some {| v_power := 1000; v_choice := -1 |}, [0; 100])) by (vm_compute; reflexivity).
    rewrite Ep in Hd. cbn [fmap option_fmap option_map] in Hd. injection Hd as H1 H2 H3 H4 H5.
    eexists. split; [reflexivity|]. split; [exact H3|]. split; [simpl; split; [lia|reflexivity]|].
    unfold prop_digest. rewrite H1, H2, H3, H4, H5. reflexivity.
Qed.

(* ... and this is what block 6 does: 300 issued to the signer (on its pre-slash stake of four
   blocks ago); validator 1 loses half of its stake and half of its voting weight in the open
   proposal (the option it voted for loses 50, total 1100 -> 1050, majority 733 -> 700);
   validator 2, which missed the block, is jailed: no delegatee any more, its stake unbonding
   with refund height 6 + 10. *)
Example begin_block_example :
  (begin_block sl_s sl_hd6).2 = Ok 300 ∧
  prop_digest <$> props (work sl_s') !! 55%N
    = Some (1050, 700, Some {| v_power := 50; v_choice := 1 |}, Some {| v_power := 1000; v_choice := -1 |}, [0; 50]) ∧
  dels (work sl_s') !! 1%N
    = Some {| d_addr := 1%N; d_self := 50; d_total := 50;
              d_stakes := [{| s_from := 1%N; s_to := 1%N; s_hash := 0%N; s_start := 1; s_refund := 0; s_power := 50 |}];
              d_marks := [] |} ∧
  dels (work sl_s') !! 2%N = None ∧
  frozen (work sl_s') !! 0%N = Some {| s_from := 2%N; s_to := 2%N; s_hash := 0%N; s_start := 1; s_refund := 16; s_power := 1000 |} ∧
  accts (work sl_s') !! 1%N = accts (work sl_s) !! 1%N ∧ accts (work sl_s') !! 2%N = accts (work sl_s) !! 2%N.
Proof.
  split; [vm_compute; reflexivity|]. split; [vm_compute; reflexivity|]. split; [vm_compute; reflexivity|].
  split; [vm_compute; reflexivity|]. split; [vm_compute; reflexivity|]. split; vm_compute; reflexivity.
Qed.

(* ================================================================== the hypotheses on reachable states *)
(* ------------------------------------------------------------------ from the shared vocabulary *)
Lemma NoDup_fmap_concat_elem {A B} (f : A → B) (ls : list (list A)) l :
  NoDup (f <$> concat ls) → l ∈ ls → NoDup (f <$> l).
Proof.
  induction ls as [|x ls IH]; intros Hnd Hin; [inversion Hin|].
  simpl in Hnd. rewrite fmap_app in Hnd. apply NoDup_app in Hnd as (H1 & _ & H2).
  apply elem_of_cons in Hin as [->|Hin]; [exact H1|apply IH; assumption].
Qed.

(* L1's hypotheses follow from [hashes_unique] and [ranges_ok] *)
Lemma delegatee_hashes_NoDup l a d : hashes_unique l → dels l !! a = Some d → NoDup (s_hash <$> d_stakes d).
Proof.
  intros [Hnd _] Hd. rewrite fmap_app in Hnd. apply NoDup_app in Hnd as (Hnd & _ & _).
  unfold bonded_stakes in Hnd. eapply NoDup_fmap_concat_elem; [exact Hnd|].
  apply elem_of_list_fmap. exists (a, d). split; [reflexivity|]. apply elem_of_map_to_list, Hd.
Qed.

Lemma delegatee_powers_ok l a d : ranges_ok l → dels l !! a = Some d → Forall (λ s, 0 ≤ s_power s < two63) (d_stakes d).
Proof.
  intros (_ & Hp & _) Hd. apply Forall_forall. intros s Hs. apply Hp. apply elem_of_app. left.
  unfold bonded_stakes. apply elem_of_list_In, in_concat. exists (d_stakes d). split; [|apply elem_of_list_In, Hs].
  apply elem_of_list_In, elem_of_list_fmap. exists (a, d). split; [reflexivity|]. apply elem_of_map_to_list, Hd.
Qed.

(* ------------------------------------------------------------------ marks are strictly increasing along every run *)
Definition marks_incr (l : ledgers) : Prop := ∀ a d, dels l !! a = Some d → incr (d_marks d).

Lemma marks_incr_dels l l' : dels l' = dels l → marks_incr l → marks_incr l'.
Proof. intros E H a d. rewrite E. apply H. Qed.

Lemma marks_incr_insert l a d : marks_incr l → incr (d_marks d) → marks_incr (set_dels l (<[a := d]> (dels l))).
Proof.
  intros H Hd b d' Hb. simpl in Hb. destruct (decide (b = a)) as [->|Hne].
  - rewrite lookup_insert in Hb. injection Hb as <-. exact Hd.
  - rewrite lookup_insert_ne in Hb by congruence. eapply H, Hb.
Qed.

Lemma marks_incr_delete l a : marks_incr l → marks_incr (set_dels l (delete a (dels l))).
Proof. intros H b d Hb. simpl in Hb. apply lookup_delete_Some in Hb as [_ Hb]. eapply H, Hb. Qed.

Lemma slash1_marks ratio d : d_marks (slash1 ratio d) = d_marks d.
Proof. reflexivity. Qed.

Lemma stake_punish_marks l ratio evi : marks_incr l → marks_incr (stake_punish l ratio evi).
Proof.
  intros H a d Hd. destruct (stake_punish_spec l ratio evi) as (Hl & _). rewrite Hl in Hd.
  destruct (dels l !! a) as [d0|] eqn:E; [|discriminate]. simpl in Hd. injection Hd as <-.
  induction (times a evi) as [|n IH]; [eapply H, E|]. exact IH.
Qed.

Lemma jail_step_marks g h l a : marks_incr l → marks_incr (jail_step g h l a).
Proof.
  intros H. unfold jail_step. destruct (dels l !! a) as [d|] eqn:Ed; [|exact H]. cbv zeta.
  destruct (count_in_window _ _ _) as [cnt m2] eqn:Ec.
  destruct (_ <? g_minSignedBlocks g).
  - eapply marks_incr_dels; [|apply (marks_incr_delete l a H)]. reflexivity.
  - apply marks_incr_insert; [exact H|]. simpl.
    replace m2 with (count_in_window (mark (d_marks d) (h - 1)) (if h - 1 - g_signedBlocksWindow g <? 0 then 0 else h - 1 - g_signedBlocksWindow g) (h - 1)).2 by (rewrite Ec; reflexivity).
    apply count_in_window_incr, mark_incr. eapply H, Ed.
Qed.

Lemma jail_votes_marks g h votes : ∀ l, marks_incr l → marks_incr (jail_votes g h l votes).
Proof.
  unfold jail_votes. induction votes as [|[[a pw] sg] votes IH]; intros l H; simpl; [exact H|].
  destruct sg; simpl; apply IH; [exact H|apply jail_step_marks, H].
Qed.

Lemma begin_block_marks s hd : marks_incr (work s) → marks_incr (work (begin_block s hd).1).
Proof.
  intros H. destruct (begin_block s hd) as [s' r] eqn:Hb. simpl.
  destruct (begin_block_frame _ _ _ _ Hb) as [Hne Heq].
  destruct (Z.eq_dec (h_height hd) (last_height s + 1)) as [E|E].
  - destruct (Heq E) as (_ & _ & _ & _ & _ & _ & _ & _ & _ & _ & _ & _ & Hr).
    assert (H2 : marks_incr (stake_punish (gov_punish (work s) (g_slashRatio (gparams s)) (h_evidence hd)) (g_slashRatio (gparams s)) (h_evidence hd))).
    { apply stake_punish_marks. eapply marks_incr_dels; [|exact H]. rewrite gov_punish_eq. reflexivity. }
    destruct r as [i|e|p].
    + destruct Hr as [Hd _]. eapply marks_incr_dels; [exact Hd|]. apply jail_votes_marks, H2.
    + destruct Hr as [Hd _]. eapply marks_incr_dels; [exact Hd|exact H2].
    + destruct Hr as [Hd _]. eapply marks_incr_dels; [exact Hd|exact H2].
  - destruct (Hne E) as [-> _]. exact H.
Qed.

(* the ledgers a DeliverTx can leave behind *)
Lemma deliver_work_cases s t :
  let l0 := (find_or_new (work s) (t_to t)).1 in
  work (deliver s t).1 = work s ∨ work (deliver s t).1 = l0 ∨
  (∃ l' g, evm_execute l0 t = Ok (l', g) ∧ work (deliver s t).1 = l') ∨
  (∃ s2 l', b_height (bctx s2) = b_height (bctx s) ∧ gparams s2 = gparams s ∧
            (gov_execute s2 l0 t = Ok l' ∨ acct_execute l0 t = Ok l' ∨ stake_execute s2 l0 t = Ok l') ∧
            (work (deliver s t).1 = l' ∨ ∃ x, work (deliver s t).1 = set_acct l' (t_from t) x)).
Proof.
  intros l0. destruct (deliver s t) as [s' r] eqn:Hd. simpl. unfold deliver in Hd.
  destruct (accts (work s) !! t_from t) as [sender|] eqn:Es; [|injection Hd as <- _; left; reflexivity].
  cbv zeta in Hd. cbn [work with_bctx] in Hd. subst l0.
  destruct (find_or_new (work s) (t_to t)) as [l0 receiver] eqn:Ef. simpl.
  step_in Hd Ecv0; [injection Hd as <- _; right; left; reflexivity|].
  step_in Hd Ecv1; [injection Hd as <- _; right; left; reflexivity|].
  step_in Hd Eval; [|injection Hd as <- _; right; left; reflexivity|injection Hd as <- _; right; left; reflexivity].
  step_in Hd Eevm.
  - cbn [work with_lim with_work] in Hd.
    destruct (evm_execute l0 t) as [[l' gas]|e|p] eqn:Ex; injection Hd as <- _; cbn [work with_bctx with_work with_lim];
      [right; right; left; eauto|right; left; reflexivity|right; left; reflexivity].
  - cbn [work with_lim with_work] in Hd.
    step_in Hd Ex; [|injection Hd as <- _; right; left; reflexivity|injection Hd as <- _; right; left; reflexivity].
    step_in Hd Esnd; [|injection Hd as <- _; right; left; reflexivity].
    right. right. right. eexists _, a0. split; [|split; [|split]].
    3:{ destruct ((t_type t =? TRX_PROPOSAL) || (t_type t =? TRX_VOTING)); [left; exact Ex|].
        destruct ((t_type t =? TRX_TRANSFER) || (t_type t =? TRX_SETDOC)); [right; left; exact Ex|right; right; exact Ex]. }
    1,2: reflexivity.
    step_in Hd Efee; injection Hd as <- _; cbn [work with_bctx with_work with_lim]; [right; eauto|left; reflexivity].
Qed.

Lemma find_or_new_dels l a : dels (find_or_new l a).1 = dels l.
Proof. unfold find_or_new. destruct (accts l !! a); reflexivity. Qed.

Lemma gov_execute_dels s l t l' : gov_execute s l t = Ok l' → dels l' = dels l.
Proof. unfold gov_execute. intros H. step_all H; try discriminate; injection H as <-; reflexivity. Qed.

Lemma acct_execute_dels l t l' : acct_execute l t = Ok l' → dels l' = dels l.
Proof. unfold acct_execute. intros H. step_all H; try discriminate; injection H as <-; reflexivity. Qed.

Lemma evm_execute_dels l t l' g : evm_execute l t = Ok (l', g) → dels l' = dels l.
Proof.
  unfold evm_execute. intros H.
  destruct (t_evm t) as [e|]; [|discriminate].
  destruct (negb (e_ok e)); [discriminate|]. injection H as <- _.
  assert (Hf : ∀ xs l0, dels (foldl (λ l x, let '(a, bal, nonce) := x in
                  let old := default acct0 (accts l !! a) in
                  set_acct l a {| a_nonce := nonce; a_bal := bal; a_code := a_code old; a_name := a_name old; a_doc := a_doc old |})
                l0 xs) = dels l0).
  { induction xs as [|[[a bal] nonce] xs IH]; intros l0; simpl; [reflexivity|]. rewrite IH. reflexivity. }
  destruct (e_created e); simpl; apply Hf.
Qed.

Lemma del_stake_marks d h : d_marks (del_stake d h) = d_marks d.
Proof. unfold del_stake. destruct (find_stake h (d_stakes d)); reflexivity. Qed.

Lemma stake_execute_marks s l t l' : stake_execute s l t = Ok l' → marks_incr l → marks_incr l'.
Proof.
  unfold stake_execute. intros H Hm. cbv zeta in H.
  destruct (t_type t =? TRX_STAKING).
  - destruct (match dels l !! t_to t with Some d => Some d | None => _ end) as [d|] eqn:Ed; [|discriminate].
    destruct (accts l !! t_from t) as [sender|]; [|discriminate].
    destruct (sub_balance sender (t_amount t)) as [sender'|]; [|discriminate]. injection H as <-.
    apply (marks_incr_insert (set_acct l (t_from t) sender')); [exact Hm|]. simpl.
    destruct (dels l !! t_to t) as [d0|] eqn:E0.
    + injection Ed as <-. eapply Hm, E0.
    + destruct (t_from t =? t_to t)%N; [injection Ed as <-; constructor|discriminate].
  - destruct (t_type t =? TRX_UNSTAKING).
    + destruct (dels l !! t_to t) as [d|] eqn:Ed; [|discriminate].
      destruct (t_payload t) as [|hs ok| | | | |]; try discriminate.
      destruct (find_stake hs (d_stakes d)) as [s0|]; [|discriminate].
      destruct (negb (s_from s0 =? t_from t)%N); [discriminate|].
      destruct (if d_self (del_stake d hs) =? 0 then _ else _) as [d2 fr2] eqn:E2.
      assert (Hd2 : d_marks d2 = d_marks d).
      { destruct (d_self (del_stake d hs) =? 0); injection E2 as <- _; simpl; apply del_stake_marks. }
      destruct (d_total d2 =? 0); injection H as <-.
      * apply (marks_incr_delete (set_frozen l fr2)). exact Hm.
      * apply (marks_incr_insert (set_frozen l fr2)); [exact Hm|]. rewrite Hd2. eapply Hm, Ed.
    + destruct (t_payload t) as [| |req| | | |]; try discriminate.
      destruct (rewards l !! t_from t) as [r|]; [|discriminate].
      destruct (r_height r >? _); [discriminate|].
      destruct (acct_reward _ _ _) as [l2|] eqn:Ear; [|discriminate]. injection H as <-.
      unfold acct_reward in Ear. cbn [accts set_rewards] in Ear.
      destruct (accts l !! t_from t) as [x|]; [|discriminate]. cbn [mbind option_bind] in Ear.
      destruct (add_balance x req); [|discriminate]. injection Ear as <-. exact Hm.
Qed.

Lemma deliver_marks s t : marks_incr (work s) → marks_incr (work (deliver s t).1).
Proof.
  intros H. pose proof (deliver_work_cases s t) as C. cbv zeta in C.
  assert (H0 : marks_incr (find_or_new (work s) (t_to t)).1).
  { eapply marks_incr_dels; [apply find_or_new_dels|exact H]. }
  destruct C as [->|[->|[(l' & g & Hx & ->)|(s2 & l' & _ & _ & Hx & Hw)]]]; [exact H|exact H0| |].
  - eapply marks_incr_dels; [eapply evm_execute_dels, Hx|exact H0].
  - assert (Hl' : marks_incr l').
    { destruct Hx as [Hx|[Hx|Hx]].
      - eapply marks_incr_dels; [eapply gov_execute_dels, Hx|exact H0].
      - eapply marks_incr_dels; [eapply acct_execute_dels, Hx|exact H0].
      - eapply stake_execute_marks; [exact Hx|exact H0]. }
    destruct Hw as [->|(x & ->)]; [exact Hl'|]. eapply marks_incr_dels; [|exact Hl']. reflexivity.
Qed.

Lemma freeze_proposals_dels base l h l' : freeze_proposals base l h = Ok l' → dels l' = dels l.
Proof.
  unfold freeze_proposals. apply (foldl_res_inv (λ x, dels x = dels l)).
  - intros acc kp a' Hacc Hf. destruct acc as [l1| |]; try discriminate. specialize (Hacc _ eq_refl).
    destruct (p_end kp.2 <? h); [|injection Hf as <-; exact Hacc].
    destruct (props l1 !! kp.1); [|discriminate].
    destruct (update_major kp.2) as [p'| |]; try discriminate.
    destruct (p_major p'); injection Hf as <-; exact Hacc.
  - intros a [= <-]. reflexivity.
Qed.

Lemma apply_proposals_dels s base l h l' np : apply_proposals s base l h = Ok (l', np) → dels l' = dels l.
Proof.
  unfold apply_proposals. intros H.
  apply (foldl_res_inv (λ x : ledgers * option params, dels x.1 = dels l)) in H; [exact H| |].
  - intros acc kp a' Hacc Hf. destruct acc as [[l1 np1]| |]; try discriminate. specialize (Hacc _ eq_refl). simpl in Hacc.
    destruct (p_apply kp.2 <=? h); [|injection Hf as <-; exact Hacc].
    destruct (fprops l1 !! kp.1); [|discriminate].
    destruct (p_major kp.2) as [o|]; [|injection Hf as <-; exact Hacc].
    destruct (p_opttype kp.2 =? PROPOSAL_GOVPARAMS); [|injection Hf as <-; exact Hacc].
    destruct (o_params o); [|discriminate]. injection Hf as <-. exact Hacc.
  - intros a [= <-]. reflexivity.
Qed.

Lemma unfreeze_dels base l h l' : unfreeze base l h = Ok l' → dels l' = dels l.
Proof.
  unfold unfreeze. apply (foldl_res_inv (λ x, dels x = dels l)).
  - intros acc kp a' Hacc Hf. destruct acc as [l1| |]; try discriminate. specialize (Hacc _ eq_refl).
    destruct (s_refund kp.2 <=? h); [|injection Hf as <-; exact Hacc].
    destruct (acct_reward l1 (s_from kp.2) (power_to_amount (s_power kp.2))) as [l2|] eqn:E; [|discriminate].
    injection Hf as <-. simpl. unfold acct_reward in E.
    destruct (accts l1 !! s_from kp.2) as [x|]; [|discriminate]. cbn [mbind option_bind] in E.
    destruct (add_balance x _); [|discriminate]. injection E as <-. exact Hacc.
  - intros a [= <-]. reflexivity.
Qed.

Lemma end_block_dels s : dels (work (end_block s).1) = dels (work s).
Proof.
  unfold end_block.
  destruct (freeze_proposals (base_of s) (work s) (b_height (bctx s))) as [l1|e|p] eqn:E1; try reflexivity.
  destruct (apply_proposals s (base_of s) l1 (b_height (bctx s))) as [[l2 np]|e|p] eqn:E2; try reflexivity.
  apply freeze_proposals_dels in E1. apply apply_proposals_dels in E2.
  set (l3 := match b_proposer (bctx s) with Some pa => _ | None => Some l2 end).
  assert (H3 : ∀ x, l3 = Some x → dels x = dels l2).
  { subst l3. intros x Hx. destruct (b_proposer (bctx s)) as [pa|]; [|injection Hx as <-; reflexivity].
    destruct (0 <? sign256 (b_feesum (bctx s))); [|injection Hx as <-; reflexivity].
    destruct (add_balance _ _); [|discriminate]. injection Hx as <-. reflexivity. }
  destruct l3 as [x|]; [|reflexivity]. specialize (H3 _ eq_refl).
  destruct (unfreeze (base_of s) x (b_height (bctx s))) as [l4|e|p] eqn:E4; try reflexivity.
  apply unfreeze_dels in E4.
  destruct (g_maxValidatorCnt (gparams s) <? 0); [reflexivity|]. simpl. congruence.
Qed.

Lemma init_chain_marks g : marks_incr (work (init_chain g)).
Proof.
  unfold init_chain. cbn [work].
  assert (H1 : ∀ hs l, dels (foldl (λ l (h : addr * Z), set_acct l h.1 {| a_nonce := 0; a_bal := h.2; a_code := false; a_name := 0%N; a_doc := 0%N |}) l hs) = dels l).
  { induction hs as [|x hs IH]; intros l; simpl; [reflexivity|]. rewrite IH. reflexivity. }
  assert (H2 : ∀ (vs : list (addr * Z)) l, dels (foldl (λ l v, (find_or_new l v.1).1) l vs) = dels l).
  { induction vs as [|x vs IH]; intros l; simpl; [reflexivity|]. rewrite IH. apply find_or_new_dels. }
  assert (H3 : ∀ (vs : list (addr * Z)) l, marks_incr l → marks_incr (foldl (λ l v, set_dels l (<[v.1 := add_stake (new_delegatee v.1)
               {| s_from := v.1; s_to := v.1; s_hash := 0%N; s_start := 1; s_refund := 0; s_power := v.2 |}]> (dels l))) l vs)).
  { induction vs as [|x vs IH]; intros l Hl; simpl; [exact Hl|]. apply IH. apply marks_incr_insert; [exact Hl|]. constructor. }
  apply H3. eapply marks_incr_dels; [rewrite H2, H1; reflexivity|].
  intros a d Hd. simpl in Hd. rewrite lookup_empty in Hd. discriminate.
Qed.

(* L4's hypothesis holds on every state of every run from genesis *)
Theorem marks_incr_run g ops : marks_incr (work (srun (init_chain g) ops)).
Proof.
  unfold srun. generalize (init_chain_marks g). generalize (init_chain g).
  induction ops as [|o ops IH]; intros s Hs; simpl; [exact Hs|]. apply IH.
  destruct o as [hd|t| |]; simpl.
  - apply begin_block_marks, Hs.
  - apply deliver_marks, Hs.
  - eapply marks_incr_dels; [apply end_block_dels|exact Hs].
  - exact Hs.
Qed.
Print Assumptions marks_incr_run.

Print Assumptions slash_dup_hash_refuted.
Print Assumptions slash_all_delegatee_ok.
Print Assumptions count_in_window_spec.
Print Assumptions vote_fold_jail.
Print Assumptions jail_votes_frame.
Print Assumptions gov_punish_one.
Print Assumptions stake_punish_one.
