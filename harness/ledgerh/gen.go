// Package ledgerh drives the real ledger.FinalityLedger on generated operation sequences (both
// overlays, commits, historical reads, close+reopen) and writes Coq case files for Ledger.v.
package ledgerh

import (
	"encoding/binary"
	"encoding/json"
	"fmt"
	"math/rand"
	"os"
	"path/filepath"
	"strings"

	"github.com/rigochain/rigo-go/ledger"
	"github.com/rigochain/rigo-go/libs/verifhook"
	"github.com/rigochain/rigo-go/types/xerrors"
)

type item struct {
	K ledger.LedgerKey
	V uint64
}

func (it *item) Key() ledger.LedgerKey { return it.K }
func (it *item) Encode() ([]byte, xerrors.XError) {
	bz := make([]byte, 40)
	copy(bz, it.K[:])
	binary.BigEndian.PutUint64(bz[32:], it.V)
	return bz, nil
}
func (it *item) Decode(bz []byte) xerrors.XError {
	if len(bz) != 40 {
		return xerrors.NewOrdinary("bad item")
	}
	copy(it.K[:], bz[:32])
	it.V = binary.BigEndian.Uint64(bz[32:])
	return nil
}

// keys are small numbers placed in the LAST byte(s) of the 32-byte key, so that byte order =
// numeric order and the Coq key is the number itself
func mkKey(k int) ledger.LedgerKey {
	var key ledger.LedgerKey
	binary.BigEndian.PutUint64(key[24:], uint64(k))
	return key
}
func keyNum(k []byte) uint64 { return binary.BigEndian.Uint64(k[24:32]) }

type Op struct {
	Kind string // SetM CancelSetM GetM DelM CancelDelM Read IterM SetF CancelSetF GetF DelF CancelDelF IterF Commit ReadAt IterAt Reopen
	K    int
	V    uint64
	N    int64
}

func (o Op) coq() string {
	switch o.Kind {
	case "SetM", "SetF":
		return fmt.Sprintf("%s %d %d", o.Kind, o.K, o.V)
	case "CancelSetM", "GetM", "DelM", "CancelDelM", "Read", "CancelSetF", "GetF", "DelF", "CancelDelF":
		return fmt.Sprintf("%s %d", o.Kind, o.K)
	case "ReadAt":
		return fmt.Sprintf("ReadAt (%d)%%Z %d", o.N, o.K)
	case "IterAt":
		return fmt.Sprintf("IterAt (%d)%%Z", o.N)
	}
	return o.Kind
}

type Stats struct {
	Cases, Ops         int
	ByKind             map[string]int
	OutKinds           map[string]int
	DelRecreate        int // cases with delete + re-create of one key inside a commit interval
	OldReads           int // historical reads of a version older than the latest
	DistinctNontrivial int
	RootAgree          int // commits whose root hash equalled the twin instance's
	HeldCases          int // cases without deletions run with history handles kept across commits
	Samples            []string
}

type runner struct {
	dir  string
	l    *ledger.FinalityLedger[*item]
	ops  []string // tree ops of the running commit, via the verif hook
	name string
	// hold: a history handle is opened for every version at the moment it is committed (while it is the
	// head) and KEPT; historical point reads of that version go through the kept handle, whatever was
	// committed since.  Only used in cases without deletions: on a kept handle IAVL answers "not found"
	// for keys deleted later and iterates the newest state (its fast-node index serves a tree that
	// believes it is the latest) — the application never keeps a handle across a commit.
	hold bool
	held map[int64]ledger.ILedger[*item]
}

func open(dir, name string) (*ledger.FinalityLedger[*item], error) {
	l, xerr := ledger.NewFinalityLedger[*item](name, dir, 16, func() *item { return &item{} })
	if xerr != nil {
		return nil, fmt.Errorf("%v", xerr)
	}
	return l, nil
}

func outRead(it *item, xerr xerrors.XError) string {
	if xerr != nil {
		if xerr == xerrors.ErrNotFoundResult {
			return "ONotFound"
		}
		return "OErr"
	}
	return fmt.Sprintf("(OVal %d)", it.V)
}

func iterOut(l ledger.ILedger[*item]) string {
	var parts []string
	xerr := l.IterateReadAllItems(func(it *item) xerrors.XError {
		parts = append(parts, fmt.Sprintf("(%d, %d)", keyNum(it.K[:]), it.V))
		return nil
	})
	if xerr != nil {
		return "OErr"
	}
	return "(OItems [" + strings.Join(parts, "; ") + "])"
}

// apply runs one op on the real ledger; returns the observation in Coq syntax and, for commits,
// the root hash.
func (r *runner) apply(o Op) (string, []byte, error) {
	l := r.l
	switch o.Kind {
	case "SetM":
		_ = l.Set(&item{mkKey(o.K), o.V})
		return "ONil", nil, nil
	case "CancelSetM":
		_ = l.CancelSet(mkKey(o.K))
		return "ONil", nil, nil
	case "GetM":
		return outRead(l.Get(mkKey(o.K)))[0:], nil, nil
	case "DelM":
		return outRead(l.Del(mkKey(o.K))), nil, nil
	case "CancelDelM":
		_ = l.CancelDel(mkKey(o.K))
		return "ONil", nil, nil
	case "Read":
		return outRead(l.Read(mkKey(o.K))), nil, nil
	case "IterM":
		return iterOut(l), nil, nil
	case "SetF":
		_ = l.SetFinality(&item{mkKey(o.K), o.V})
		return "ONil", nil, nil
	case "CancelSetF":
		_ = l.CancelSetFinality(mkKey(o.K))
		return "ONil", nil, nil
	case "GetF":
		return outRead(l.GetFinality(mkKey(o.K))), nil, nil
	case "DelF":
		return outRead(l.DelFinality(mkKey(o.K))), nil, nil
	case "CancelDelF":
		_ = l.CancelDelFinality(mkKey(o.K))
		return "ONil", nil, nil
	case "IterF":
		var parts []string
		xerr := l.IterateReadAllFinalityItems(func(it *item) xerrors.XError {
			parts = append(parts, fmt.Sprintf("(%d, %d)", keyNum(it.K[:]), it.V))
			return nil
		})
		if xerr != nil {
			return "OErr", nil, nil
		}
		return "(OItems [" + strings.Join(parts, "; ") + "])", nil, nil
	case "Commit":
		r.ops = nil
		verifhook.SetCallbacks(func(name string, set bool, key []byte) {
			if name == r.name {
				b := "false"
				if set {
					b = "true"
				}
				r.ops = append(r.ops, fmt.Sprintf("(%s, %d)", b, keyNum(key)))
			}
		}, nil)
		h, ver, xerr := l.Commit()
		verifhook.SetCallbacks(nil, nil)
		if xerr != nil {
			return "OErr", nil, nil
		}
		if r.hold {
			if im, xerr := l.ImmutableLedgerAt(ver, 16); xerr == nil {
				if r.held == nil {
					r.held = map[int64]ledger.ILedger[*item]{}
				}
				r.held[ver] = im
			}
		}
		return fmt.Sprintf("(OCommitted %d [%s])", ver, strings.Join(r.ops, "; ")), h, nil
	case "ReadAt":
		if im, ok := r.held[o.N]; ok && r.hold && o.N >= 1 {
			return outRead(im.Read(mkKey(o.K))), nil, nil
		}
		im, xerr := l.ImmutableLedgerAt(o.N, 16)
		if xerr != nil {
			return "OErr", nil, nil
		}
		return outRead(im.Read(mkKey(o.K))), nil, nil
	case "IterAt":
		im, xerr := l.ImmutableLedgerAt(o.N, 16)
		if xerr != nil {
			return "OErr", nil, nil
		}
		return iterOut(im), nil, nil
	case "Reopen":
		if xerr := l.Close(); xerr != nil {
			return "", nil, fmt.Errorf("close: %v", xerr)
		}
		nl, err := open(r.dir, r.name)
		if err != nil {
			return "", nil, err
		}
		r.l = nl
		r.held = nil
		return "ONil", nil, nil
	}
	return "", nil, fmt.Errorf("unknown op %q", o.Kind)
}

func genCase(rng *rand.Rand, st *Stats) []Op {
	ops, _ := genCaseHeld(rng, st)
	return ops
}

// genCaseHeld: every fourth case has no deletions and many historical reads; it is run with kept handles
func genCaseHeld(rng *rand.Rand, st *Stats) ([]Op, bool) {
	held := rng.Intn(4) == 0
	nkeys := 1 + rng.Intn(5)
	n := 15 + rng.Intn(45)
	var ops []Op
	version := int64(0)
	delSince := map[int]bool{} // keys deleted (consensus overlay) since the last commit
	recreate, oldread := false, false
	for i := 0; i < n; i++ {
		k := 1 + rng.Intn(nkeys)
		v := uint64(1 + rng.Intn(9))
		x := rng.Intn(100)
		if held {
			// no deletions; their share goes to writes, commits and historical reads
			switch {
			case x >= 24 && x < 30, x >= 57 && x < 60:
				x = 0 // SetF
			case x >= 30 && x < 34, x >= 38 && x < 42, x >= 60 && x < 62, x >= 65 && x < 68:
				x = 80 // Commit
			case x >= 96:
				if rng.Intn(3) > 0 {
					x = 90 // ReadAt instead of most reopenings
				}
			}
		}
		var o Op
		switch {
		case x < 14:
			o = Op{Kind: "SetF", K: k, V: v}
			if delSince[k] {
				recreate = true
			}
		case x < 24:
			o = Op{Kind: "GetF", K: k}
		case x < 34:
			o = Op{Kind: "DelF", K: k}
			delSince[k] = true
		case x < 38:
			o = Op{Kind: "CancelSetF", K: k}
		case x < 42:
			o = Op{Kind: "CancelDelF", K: k}
		case x < 50:
			o = Op{Kind: "SetM", K: k, V: v}
		case x < 57:
			o = Op{Kind: "GetM", K: k}
		case x < 62:
			o = Op{Kind: "DelM", K: k}
		case x < 65:
			o = Op{Kind: "CancelSetM", K: k}
		case x < 68:
			o = Op{Kind: "CancelDelM", K: k}
		case x < 72:
			o = Op{Kind: "Read", K: k}
		case x < 74:
			o = Op{Kind: "IterM"}
		case x < 76:
			o = Op{Kind: "IterF"}
		case x < 86:
			o = Op{Kind: "Commit"}
			version++
			delSince = map[int]bool{}
		case x < 93:
			nn := int64(rng.Intn(int(version)+3)) - 1
			o = Op{Kind: "ReadAt", K: k, N: nn}
			if nn >= 1 && nn < version {
				oldread = true
				st.OldReads++
			}
		case x < 96:
			nn := int64(rng.Intn(int(version)+3)) - 1
			o = Op{Kind: "IterAt", N: nn}
		default:
			o = Op{Kind: "Reopen"}
			delSince = map[int]bool{}
		}
		ops = append(ops, o)
	}
	if recreate {
		st.DelRecreate++
	}
	if recreate || oldread {
		st.DistinctNontrivial++
	}
	if held {
		st.HeldCases++
	}
	return ops, held
}

func corpus() [][]Op {
	return [][]Op{
		// set after delete inside one commit interval must be readable before the commit
		{{Kind: "SetF", K: 1, V: 5}, {Kind: "Commit"}, {Kind: "DelF", K: 1}, {Kind: "SetF", K: 1, V: 7}, {Kind: "GetF", K: 1},
			{Kind: "Commit"}, {Kind: "GetF", K: 1}, {Kind: "ReadAt", K: 1, N: 1}, {Kind: "ReadAt", K: 1, N: 2}},
		{{Kind: "SetM", K: 1, V: 5}, {Kind: "GetF", K: 1}, {Kind: "DelM", K: 1}, {Kind: "SetM", K: 1, V: 6}, {Kind: "GetM", K: 1},
			{Kind: "Commit"}, {Kind: "GetM", K: 1}, {Kind: "Read", K: 1}},
		{{Kind: "SetF", K: 2, V: 1}, {Kind: "SetF", K: 1, V: 1}, {Kind: "SetF", K: 3, V: 1}, {Kind: "Commit"}, {Kind: "DelF", K: 2},
			{Kind: "DelF", K: 2}, {Kind: "CancelDelF", K: 2}, {Kind: "GetF", K: 2}, {Kind: "Commit"}, {Kind: "IterF"}, {Kind: "Reopen"},
			{Kind: "IterAt", N: 1}, {Kind: "IterAt", N: 0}, {Kind: "IterAt", N: 3}},
	}
}

// Generate runs the sequences on two real ledger instances (root hashes must agree) and writes
// the Coq case file.
func Generate(seed int64, nCases int, outPath, scratch, jsonPath string) (*Stats, error) {
	rng := rand.New(rand.NewSource(seed))
	st := &Stats{ByKind: map[string]int{}, OutKinds: map[string]int{}}
	all := corpus()
	heldCase := map[int]bool{}
	for i := 0; i < nCases; i++ {
		ops, held := genCaseHeld(rng, st)
		heldCase[len(all)] = held
		all = append(all, ops)
	}
	type caseJSON struct {
		Ops      []Op
		Outs     []string
		RootDiff int // index of the first commit whose root differs between the two instances, -1 none
	}
	var casesJ []caseJSON
	var sb strings.Builder
	sb.WriteString("From stdpp Require Import gmap.\nFrom Rigo Require Import Ledger LedgerRun LedgerCheck.\nLocal Open Scope N_scope.\n")
	sb.WriteString("Definition cases : list (list lop * list lout) := [\n")
	seen := map[string]bool{}
	for ci, ops := range all {
		dirA := filepath.Join(scratch, fmt.Sprintf("ledgA-%d-%d", seed, ci))
		dirB := filepath.Join(scratch, fmt.Sprintf("ledgB-%d-%d", seed, ci))
		_ = os.MkdirAll(dirA, 0o700)
		_ = os.MkdirAll(dirB, 0o700)
		la, err := open(dirA, "caseA")
		if err != nil {
			return nil, err
		}
		lb, err := open(dirB, "caseB")
		if err != nil {
			return nil, err
		}
		ra, rb := &runner{dir: dirA, l: la, name: "caseA", hold: heldCase[ci]}, &runner{dir: dirB, l: lb, name: "caseB"}
		var opS, outS []string
		rootDiff := -1
		for oi, o := range ops {
			out, ha, err := ra.apply(o)
			if err != nil {
				return nil, err
			}
			_, hb, err := rb.apply(o)
			if err != nil {
				return nil, err
			}
			if o.Kind == "Commit" {
				if string(ha) == string(hb) {
					st.RootAgree++
				} else if rootDiff < 0 {
					rootDiff = oi
				}
			}
			opS = append(opS, o.coq())
			outS = append(outS, out)
			st.ByKind[o.Kind]++
			st.OutKinds[strings.Fields(strings.Trim(out, "()"))[0]]++
		}
		_ = ra.l.Close()
		_ = rb.l.Close()
		os.RemoveAll(dirA)
		os.RemoveAll(dirB)
		st.Ops += len(ops)
		line := "([" + strings.Join(opS, "; ") + "],\n   [" + strings.Join(outS, "; ") + "])"
		seen[line] = true
		casesJ = append(casesJ, caseJSON{ops, outS, rootDiff})
		if ci > 0 {
			sb.WriteString(";\n")
		}
		sb.WriteString("  " + line)
		if len(st.Samples) < 2 && ci >= len(corpus()) {
			st.Samples = append(st.Samples, line)
		}
	}
	st.Cases = len(seen)
	sb.WriteString("\n].\n")
	sb.WriteString("Definition bad := Eval vm_compute in check_c18 cases.\nPrint bad.\n")
	if jsonPath != "" {
		bz, _ := json.Marshal(casesJ)
		if err := os.WriteFile(jsonPath, bz, 0o644); err != nil {
			return nil, err
		}
	}
	return st, os.WriteFile(outPath, []byte(sb.String()), 0o644)
}
