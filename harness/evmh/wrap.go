// Package evmh ties the EVM part of the model to the code: (1) the real StateDBWrapper over a real
// go-ethereum StateDB and a real account controller is driven on generated interface-call sequences
// and compared with EvmWrap.v (wrapper model and reference world); (2) whole contract transactions
// are run through RigoApp and through a reference EVM.
package evmh

import (
	"encoding/json"
	"fmt"
	"math/big"
	"math/rand"
	"os"
	"path/filepath"
	"sort"
	"strings"

	"github.com/ethereum/go-ethereum/common"
	"github.com/ethereum/go-ethereum/core/rawdb"
	"github.com/ethereum/go-ethereum/core/state"
	"github.com/holiman/uint256"
	cfg "github.com/rigochain/rigo-go/cmd/config"
	"github.com/rigochain/rigo-go/ctrlers/account"
	ctrlertypes "github.com/rigochain/rigo-go/ctrlers/types"
	"github.com/rigochain/rigo-go/ctrlers/vm/evm"
	"github.com/tendermint/tendermint/libs/log"
)

type WOp struct {
	Kind string // Snapshot Revert AddAccess GetBalance GetNonce AddBalance SubBalance SetNonce Create Suicide Prepare Finish
	A    int    // address id (1..)
	V    int64
	Id   int
	To   int // Prepare: 0 = none
}

func addrOf(id int) common.Address {
	var a common.Address
	a[19] = byte(id)
	a[18] = byte(id >> 8)
	return a
}

func (o WOp) coq() string {
	switch o.Kind {
	case "Snapshot":
		return "OSnapshot"
	case "Revert":
		return fmt.Sprintf("ORevert %d", o.Id)
	case "AddAccess":
		return fmt.Sprintf("OAddAccess %d%%N", o.A)
	case "GetBalance":
		return fmt.Sprintf("OGetBalance %d%%N", o.A)
	case "GetNonce":
		return fmt.Sprintf("OGetNonce %d%%N", o.A)
	case "AddBalance":
		return fmt.Sprintf("OAddBalance %d%%N %d", o.A, o.V)
	case "SubBalance":
		return fmt.Sprintf("OSubBalance %d%%N %d", o.A, o.V)
	case "SetNonce":
		return fmt.Sprintf("OSetNonce %d%%N %d", o.A, o.V)
	case "Create":
		return fmt.Sprintf("OCreate %d%%N", o.A)
	case "Suicide":
		return fmt.Sprintf("OSuicide %d%%N", o.A)
	case "Prepare":
		to := "None"
		if o.To != 0 {
			to = fmt.Sprintf("(Some %d%%N)", o.To)
		}
		return fmt.Sprintf("OPrepare %d %d%%N %s", o.Id, o.A, to)
	}
	return "OFinish"
}

type Acct struct {
	A          int
	Bal, Nonce int64
}

type WCase struct {
	Native, Stale []Acct
	Ops           []WOp
	Outs          []string
	Final         []Acct
	Shape         string
}

type WStats struct {
	Cases, Ops                 int
	ByKind                     map[string]int
	NestedRevert, Readd, Fails int // cases with a nested revert / an address re-added after a revert / the top-level failure path
	DistinctNontrivial         int
	Samples                    []string
}

// genOps draws a sequence the way an interpreter under Berlin rules would issue it: an address's
// balance/nonce is touched only after the address was put on the access list (and not removed by a
// revert since), snapshot ids are nested.
func genOps(r *rand.Rand, naddr int, rich map[int]bool, st *WStats) ([]WOp, string) {
	poor := map[int]bool{} // addresses whose balance may be small: never debited (the interpreter checks CanTransfer first)
	var ops []WOp
	snapID := 0
	newSnap := func() int { id := snapID; snapID++; return id }
	type frame struct {
		id    int
		added []int
	}
	top := newSnap()
	ops = append(ops, WOp{Kind: "Snapshot"})
	from := 1 + r.Intn(naddr)
	to := 0
	if r.Intn(4) > 0 {
		to = 1 + r.Intn(naddr)
	}
	ops = append(ops, WOp{Kind: "Prepare", Id: top, A: from, To: to})
	acl := map[int]bool{from: true}
	if to != 0 {
		acl[to] = true
	}
	removedOnce := map[int]bool{}
	var stack []frame
	nested, readd := false, false
	n := 5 + r.Intn(25)
	for i := 0; i < n; i++ {
		var on []int
		for a := range acl {
			on = append(on, a)
		}
		sort.Ints(on)
		pick := func() int { return on[r.Intn(len(on))] }
		switch k := r.Intn(100); {
		case k < 15:
			a := 1 + r.Intn(naddr)
			ops = append(ops, WOp{Kind: "AddAccess", A: a})
			if !acl[a] {
				acl[a] = true
				if len(stack) > 0 {
					stack[len(stack)-1].added = append(stack[len(stack)-1].added, a)
				}
				if removedOnce[a] {
					readd = true
				}
			}
		case k < 30:
			ops = append(ops, WOp{Kind: "GetBalance", A: pick()})
		case k < 38:
			ops = append(ops, WOp{Kind: "GetNonce", A: pick()})
		case k < 55:
			ops = append(ops, WOp{Kind: "AddBalance", A: pick(), V: int64(r.Intn(50))})
		case k < 65:
			if a := pick(); rich[a] && !poor[a] {
				ops = append(ops, WOp{Kind: "SubBalance", A: a, V: int64(r.Intn(20))})
			}
		case k < 72:
			ops = append(ops, WOp{Kind: "SetNonce", A: pick(), V: int64(r.Intn(100))})
		case k < 76:
			ops = append(ops, WOp{Kind: "Create", A: pick()})
		case k < 79:
			a := pick()
			poor[a] = true
			ops = append(ops, WOp{Kind: "Suicide", A: a})
		case k < 90:
			stack = append(stack, frame{id: newSnap()})
			ops = append(ops, WOp{Kind: "Snapshot"})
		default:
			if len(stack) == 0 {
				continue
			}
			j := r.Intn(len(stack))
			ops = append(ops, WOp{Kind: "Revert", Id: stack[j].id})
			for _, f := range stack[j:] {
				for _, a := range f.added {
					delete(acl, a)
					removedOnce[a] = true
				}
			}
			stack = stack[:j]
			nested = true
		}
	}
	shape := "success"
	if r.Intn(4) == 0 {
		ops = append(ops, WOp{Kind: "Revert", Id: top})
		shape = "top-level-failure"
		st.Fails++
	}
	ops = append(ops, WOp{Kind: "Finish"})
	if nested {
		st.NestedRevert++
	}
	if readd {
		st.Readd++
	}
	if nested || readd || shape != "success" {
		st.DistinctNontrivial++
	}
	return ops, shape
}

func genAccts(r *rand.Rand, naddr int) (native, stale []Acct, rich map[int]bool) {
	rich = map[int]bool{}
	for a := 1; a <= naddr; a++ {
		if r.Intn(5) > 0 {
			native = append(native, Acct{a, int64(1000 + r.Intn(9000)), int64(r.Intn(20))})
			rich[a] = true
		}
		if r.Intn(2) == 0 {
			stale = append(stale, Acct{a, int64(r.Intn(500)), int64(r.Intn(7))})
		}
	}
	return
}

func runCase(native, stale []Acct, ops []WOp, dir string) (*WCase, error) {
	c := &WCase{Ops: ops, Native: native, Stale: stale}
	conf := cfg.DefaultConfig()
	conf.SetRoot(dir)
	if err := os.MkdirAll(conf.DBDir(), 0o700); err != nil {
		return nil, err
	}
	ac, err := account.NewAcctCtrler(conf, log.NewNopLogger())
	if err != nil {
		return nil, err
	}
	defer ac.Close()
	for _, n := range c.Native {
		a := addrOf(n.A)
		acct := ctrlertypes.NewAccount(a[:])
		acct.SetBalance(uint256.NewInt(uint64(n.Bal)))
		acct.SetNonce(uint64(n.Nonce))
		_ = ac.SetAccountCommittable(acct, true)
	}
	db := rawdb.NewMemoryDatabase()
	sdb, err := state.New(common.Hash{}, state.NewDatabase(db), nil)
	if err != nil {
		return nil, err
	}
	for _, s := range c.Stale {
		sdb.SetBalance(addrOf(s.A), big.NewInt(s.Bal))
		sdb.SetNonce(addrOf(s.A), uint64(s.Nonce))
	}
	root, err := sdb.Commit(true)
	if err != nil {
		return nil, err
	}
	if err := sdb.Database().TrieDB().Commit(root, true, nil); err != nil {
		return nil, err
	}
	w, err := evm.NewStateDBWrapper(db, root[:], ac, log.NewNopLogger())
	if err != nil {
		return nil, err
	}
	call := func(f func() string) (out string) {
		defer func() {
			if rec := recover(); rec != nil {
				out = "OutErr"
			}
		}()
		return f()
	}
	for _, o := range ops {
		o := o
		a := addrOf(o.A)
		c.Outs = append(c.Outs, call(func() string {
			switch o.Kind {
			case "Snapshot":
				return fmt.Sprintf("OutId %d", w.Snapshot())
			case "Revert":
				w.RevertToSnapshot(o.Id)
			case "AddAccess":
				w.AddAddressToAccessList(a)
			case "GetBalance":
				return fmt.Sprintf("OutVal %s", zl(w.GetBalance(a)))
			case "GetNonce":
				return fmt.Sprintf("OutVal %d", w.GetNonce(a))
			case "AddBalance":
				w.AddBalance(a, big.NewInt(o.V))
			case "SubBalance":
				w.SubBalance(a, big.NewInt(o.V))
			case "SetNonce":
				w.SetNonce(a, uint64(o.V))
			case "Create":
				w.CreateAccount(a)
			case "Suicide":
				w.Suicide(a)
			case "Prepare":
				to := make([]byte, 20)
				if o.To != 0 {
					t := addrOf(o.To)
					to = t[:]
				}
				w.Prepare(make([]byte, 32), 0, a[:], to, o.Id, true)
			case "Finish":
				w.Finish()
			}
			return "OutUnit"
		}))
	}
	seen := map[int]bool{}
	for _, x := range c.Native {
		seen[x.A] = true
	}
	for _, x := range c.Stale {
		seen[x.A] = true
	}
	for _, o := range ops {
		if o.A != 0 {
			seen[o.A] = true
		}
		if o.To != 0 {
			seen[o.To] = true
		}
	}
	var ids []int
	for a := range seen {
		ids = append(ids, a)
	}
	sort.Ints(ids)
	for _, id := range ids {
		a := addrOf(id)
		acct := ac.FindAccount(a[:], true)
		if acct == nil {
			c.Final = append(c.Final, Acct{id, 0, 0})
		} else {
			c.Final = append(c.Final, Acct{id, int64(acct.GetBalance().Uint64()), int64(acct.GetNonce())})
			if !acct.GetBalance().IsUint64() {
				c.Final[len(c.Final)-1].Bal = -1
			}
		}
	}
	return c, nil
}

func zl(b *big.Int) string {
	if b.Sign() < 0 {
		return "(" + b.String() + ")"
	}
	return b.String()
}

func acctsCoq(l []Acct) string {
	var p []string
	for _, a := range l {
		b := fmt.Sprint(a.Bal)
		if a.Bal < 0 {
			b = fmt.Sprintf("(%d)", a.Bal)
		}
		p = append(p, fmt.Sprintf("(%d%%N, %s, %d)", a.A, b, a.Nonce))
	}
	return "[" + strings.Join(p, "; ") + "]"
}

func (c *WCase) coq() string {
	var ops []string
	for _, o := range c.Ops {
		ops = append(ops, o.coq())
	}
	return fmt.Sprintf("(WCase %s %s\n    [%s]\n    [%s]\n    %s)", acctsCoq(c.Native), acctsCoq(c.Stale), strings.Join(ops, "; "), strings.Join(c.Outs, "; "), acctsCoq(c.Final))
}

// corpus: sequences that matter
func corpus() [][]WOp {
	return [][]WOp{
		// nested call touches a third address and reverts; the address is touched again afterwards
		{{Kind: "Snapshot"}, {Kind: "Prepare", Id: 0, A: 1, To: 2}, {Kind: "SubBalance", A: 1, V: 10}, {Kind: "AddBalance", A: 2, V: 10},
			{Kind: "Snapshot"}, {Kind: "AddAccess", A: 3}, {Kind: "AddBalance", A: 3, V: 7}, {Kind: "Revert", Id: 1},
			{Kind: "AddAccess", A: 3}, {Kind: "GetBalance", A: 3}, {Kind: "AddBalance", A: 3, V: 1}, {Kind: "Finish"}},
		// top-level failure path: nothing may reach the native ledger
		{{Kind: "Snapshot"}, {Kind: "Prepare", Id: 0, A: 1, To: 2}, {Kind: "SubBalance", A: 1, V: 10}, {Kind: "AddBalance", A: 2, V: 10},
			{Kind: "SetNonce", A: 1, V: 9}, {Kind: "Revert", Id: 0}, {Kind: "Finish"}},
	}
}

// Generate drives the real wrapper on n generated sequences and writes the Coq case file
func Generate(seed int64, n int, outPath, scratch, jsonPath string) (*WStats, error) {
	r := rand.New(rand.NewSource(seed))
	st := &WStats{ByKind: map[string]int{}}
	var cases []*WCase
	all := corpus()
	shapes := make([]string, len(all))
	type accts struct{ native, stale []Acct }
	var as []accts
	for range all {
		as = append(as, accts{[]Acct{{1, 5000, 3}, {2, 700, 0}, {3, 40, 1}}, []Acct{{1, 9, 9}, {3, 11, 0}}})
	}
	for i := 0; i < n; i++ {
		native, stale, rich := genAccts(r, 6)
		ops, shape := genOps(r, 2+r.Intn(5), rich, st)
		all = append(all, ops)
		shapes = append(shapes, shape)
		as = append(as, accts{native, stale})
	}
	for i, ops := range all {
		dir := filepath.Join(scratch, fmt.Sprintf("wrap-%d-%d", seed, i))
		c, err := runCase(as[i].native, as[i].stale, ops, dir)
		os.RemoveAll(dir)
		if err != nil {
			return nil, err
		}
		c.Shape = shapes[i]
		cases = append(cases, c)
		st.Ops += len(ops)
		for _, o := range ops {
			st.ByKind[o.Kind]++
		}
	}
	st.Cases = len(cases)
	var sb strings.Builder
	sb.WriteString("From stdpp Require Import gmap.\nFrom Rigo Require Import EvmWrap.\nLocal Open Scope Z_scope.\nDefinition cases : list wcase := [\n")
	for i, c := range cases {
		if i > 0 {
			sb.WriteString(";\n")
		}
		sb.WriteString("  " + c.coq())
		if len(st.Samples) < 2 && i >= 2 {
			st.Samples = append(st.Samples, c.coq())
		}
	}
	sb.WriteString("\n].\nDefinition bad := Eval vm_compute in check_wcases_detail cases.\nPrint bad.\n")
	if jsonPath != "" {
		bz, _ := json.Marshal(cases)
		_ = os.WriteFile(jsonPath, bz, 0o644)
	}
	return st, os.WriteFile(outPath, []byte(sb.String()), 0o644)
}
