// vh — the correspondence harness of /verif.  Each subcommand drives real rigo-go code on
// generated inputs and writes (a) Coq case files for the model to be evaluated against and
// (b) a stats JSON describing what was generated.
package main

import (
	"encoding/json"
	"flag"
	"fmt"
	"os"
	"runtime/pprof"
	"time"

	"verifharness/apph"
	"verifharness/evmh"
	"verifharness/ledgerh"
	"verifharness/preimage"
	"verifharness/signer"
)

func writeStats(path string, v interface{}) {
	bz, _ := json.MarshalIndent(v, "", " ")
	if path == "" {
		fmt.Println(string(bz))
		return
	}
	_ = os.WriteFile(path, bz, 0o644)
}

func main() {
	if len(os.Args) < 2 {
		fmt.Fprintln(os.Stderr, "usage: vh <signer|...> [flags]")
		os.Exit(2)
	}
	cmd := os.Args[1]
	if pf := os.Getenv("VERIF_HEAPPROF"); pf != "" { // development aid: heap profile sampled while the run is going on
		go func() {
			for i := 0; ; i++ {
				time.Sleep(20 * time.Second)
				if f, err := os.Create(fmt.Sprintf("%s.%d", pf, i)); err == nil {
					_ = pprof.WriteHeapProfile(f)
					f.Close()
				}
			}
		}()
	}
	fs := flag.NewFlagSet(cmd, flag.ExitOnError)
	seed := fs.Int64("seed", 1, "PRNG seed")
	n := fs.Int("n", 100, "number of cases")
	out := fs.String("out", "cases.v", "output Coq file (or directory)")
	scratch := fs.String("scratch", os.TempDir(), "scratch directory")
	stats := fs.String("stats", "", "stats JSON output")
	jsonOut := fs.String("json", "", "machine-readable copy of the cases")
	blocks := fs.Int("blocks", 30, "blocks per history")
	profile := fs.String("profile", "", "generator profile")
	evals := fs.String("evals", "", "name=expr|name=expr... evaluated on the cases")
	_ = fs.Parse(os.Args[2:])

	switch cmd {
	case "signer":
		st, err := signer.Generate(*seed, *n, *out, *scratch, *jsonOut)
		if err != nil {
			fmt.Fprintln(os.Stderr, "error:", err)
			os.Exit(3)
		}
		writeStats(*stats, st)
	case "preimage":
		st, err := preimage.Generate(*seed, *n, *out)
		if err != nil {
			fmt.Fprintln(os.Stderr, "error:", err)
			os.Exit(3)
		}
		writeStats(*stats, map[string]interface{}{"vectors": st, "probe": preimage.Probe(*seed, *n)})
	case "app":
		st, err := apph.GenerateCases(*seed, *n, *blocks, *out, *scratch, *jsonOut, *profile, *evals)
		if err != nil {
			fmt.Fprintln(os.Stderr, "error:", err)
			os.Exit(3)
		}
		writeStats(*stats, st)
	case "evmtx":
		st, err := apph.EvmRun(*seed, *n, *scratch)
		if err != nil {
			fmt.Fprintln(os.Stderr, "error:", err)
			os.Exit(3)
		}
		writeStats(*stats, st)
	case "evmwrap":
		st, err := evmh.Generate(*seed, *n, *out, *scratch, *jsonOut)
		if err != nil {
			fmt.Fprintln(os.Stderr, "error:", err)
			os.Exit(3)
		}
		writeStats(*stats, st)
	case "govpanic":
		res, err := apph.GovPanicScenarios(*scratch)
		if err != nil {
			fmt.Fprintln(os.Stderr, "error:", err)
			os.Exit(3)
		}
		writeStats(*stats, res)
	case "hostile":
		agg := &apph.HostileStats{ByKind: map[string]int{}}
		for i := 0; i < *n; i++ {
			hs, err := apph.HostileRun(*seed*1000+int64(i), *scratch, *blocks)
			if err != nil {
				fmt.Fprintln(os.Stderr, "error:", err)
				os.Exit(3)
			}
			agg.Inputs += hs.Inputs
			agg.DeliverInputs += hs.DeliverInputs
			agg.CheckInputs += hs.CheckInputs
			agg.QueryInputs += hs.QueryInputs
			agg.ReachedController += hs.ReachedController
			agg.FollowUps += hs.FollowUps
			agg.FollowUpOK += hs.FollowUpOK
			agg.Panics = append(agg.Panics, hs.Panics...)
			agg.Unusable = append(agg.Unusable, hs.Unusable...)
			for k, v := range hs.ByKind {
				agg.ByKind[k] += v
			}
		}
		writeStats(*stats, agg)
	case "app-replay":
		st, err := apph.ReplayCases(*jsonOut, *out, *scratch, *evals)
		if err != nil {
			fmt.Fprintln(os.Stderr, "error:", err)
			os.Exit(3)
		}
		writeStats(*stats, st)
	case "ledger":
		st, err := ledgerh.Generate(*seed, *n, *out, *scratch, *jsonOut)
		if err != nil {
			fmt.Fprintln(os.Stderr, "error:", err)
			os.Exit(3)
		}
		writeStats(*stats, st)
	default:
		fmt.Fprintln(os.Stderr, "unknown subcommand", cmd)
		os.Exit(2)
	}
}
