// Package signer drives the real types/crypto.SFilePV on generated request sequences (with
// reloads from the key/state files and answers lost after the state was saved) and writes a
// Coq case file that the model Signer.v is evaluated against.
package signer

import (
	"encoding/json"
	"fmt"
	"math/rand"
	"os"
	"path/filepath"
	"strings"
	"time"

	rcrypto "github.com/rigochain/rigo-go/types/crypto"
	"github.com/tendermint/tendermint/crypto/secp256k1"
	tmproto "github.com/tendermint/tendermint/proto/tendermint/types"
	tmtypes "github.com/tendermint/tendermint/types"
)

const chainID = "verif-signer-chain"
const tsBase = int64(1_700_000_000) * 1_000_000_000

type Req struct {
	H, R    int64
	Step    int // 1 proposal, 2 prevote, 3 precommit
	Content int
	Ts      int64 // offset from tsBase, nanoseconds
}

type Op struct {
	Kind string // "req", "lost", "reload"
	Req  Req
}

type Stats struct {
	Cases, Ops                                  int
	Fresh, SameAgain, TsOnly, Conflict, Regress int
	Lost, Reload                                int
	OutSigned, OutErr                           map[string]int
	DistinctNontrivial                          int
	WriteFail, ReleasedWithoutRecord            int
	SurvivedWriteFailure                        int // write failures after which the signer went on running (it reported an error instead of stopping) // requests during which the state file could not be written / of those, answered with a signature
	Samples                                     []string
}

func blockID(content int) tmproto.BlockID {
	if content == 0 {
		return tmproto.BlockID{}
	}
	h := make([]byte, 32)
	for i := range h {
		h[i] = byte(content)
	}
	return tmproto.BlockID{Hash: h, PartSetHeader: tmproto.PartSetHeader{Total: 1, Hash: h}}
}

func classify(err error) string {
	s := err.Error()
	switch {
	case strings.Contains(s, "height regression"):
		return "OErr EHeight"
	case strings.Contains(s, "round regression"):
		return "OErr ERound"
	case strings.Contains(s, "step regression"):
		return "OErr EStep"
	case strings.Contains(s, "no SignBytes found"):
		return "OErr ENoSignBytes"
	case strings.Contains(s, "conflicting data"):
		return "OErr EConflict"
	}
	return "OSigned (-2)"
}

// doReq runs one request on pv and returns the observation in Coq syntax.
func doReq(pv *rcrypto.SFilePV, q Req) (out string) {
	defer func() {
		if r := recover(); r != nil {
			out = "OSigned (-3)"
		}
	}()
	ts := time.Unix(0, tsBase+q.Ts).UTC()
	pub, _ := pv.GetPubKey()
	if q.Step == 1 {
		p := &tmproto.Proposal{Type: tmproto.ProposalType, Height: q.H, Round: int32(q.R), PolRound: -1,
			BlockID: blockID(q.Content), Timestamp: ts}
		if err := pv.SignProposal(chainID, p); err != nil {
			return classify(err)
		}
		if !pub.VerifySignature(tmtypes.ProposalSignBytes(chainID, p), p.Signature) {
			return "OSigned (-1)"
		}
		return fmt.Sprintf("OSigned %d", p.Timestamp.UnixNano()-tsBase)
	}
	typ := tmproto.PrevoteType
	if q.Step == 3 {
		typ = tmproto.PrecommitType
	}
	v := &tmproto.Vote{Type: typ, Height: q.H, Round: int32(q.R), BlockID: blockID(q.Content), Timestamp: ts,
		ValidatorAddress: pub.Address(), ValidatorIndex: 0}
	if err := pv.SignVote(chainID, v); err != nil {
		return classify(err)
	}
	if !pub.VerifySignature(tmtypes.VoteSignBytes(chainID, v), v.Signature) {
		return "OSigned (-1)"
	}
	return fmt.Sprintf("OSigned %d", v.Timestamp.UnixNano()-tsBase)
}

func coqZ(n int64) string {
	if n < 0 {
		return fmt.Sprintf("(%d)", n)
	}
	return fmt.Sprintf("%d", n)
}

func (q Req) coq() string {
	return fmt.Sprintf("(mkq %s %s %d %d %s)", coqZ(q.H), coqZ(q.R), q.Step, q.Content, coqZ(q.Ts))
}

func (o Op) coq() string {
	switch o.Kind {
	case "req":
		return "SReq " + o.Req.coq()
	case "lost":
		return "SReqLost " + o.Req.coq()
	case "fail":
		return "SReqFail " + o.Req.coq()
	}
	return "SReload"
}

// genCase draws one operation sequence.  The shadow (ch, cr, cs, cc) is the generator's idea of the
// signer's last signed HRS/content; it only steers the distribution, it is not an oracle.
func genCase(rng *rand.Rand, st *Stats) []Op {
	n := 12 + rng.Intn(30)
	var ops []Op
	ch, cr, cs, cc := int64(0), int64(0), 0, 0
	signed := false
	ts := int64(1000)
	nontrivialRepeat, nontrivialRegress := false, false
	for i := 0; i < n; i++ {
		ts += int64(1 + rng.Intn(1000))
		k := rng.Intn(100)
		switch {
		case k < 35 || !signed: // advance
			h, r, s := ch, cr, cs
			switch rng.Intn(4) {
			case 0:
				h, r, s = ch+int64(1+rng.Intn(3)), int64(rng.Intn(2)), 1+rng.Intn(3)
			case 1:
				r, s = cr+int64(1+rng.Intn(2)), 1+rng.Intn(3)
			default:
				if cs < 3 {
					s = cs + 1 + rng.Intn(3-cs)
				} else {
					h, r, s = ch+1, 0, 1+rng.Intn(3)
				}
			}
			if h == 0 && !signed && rng.Intn(3) > 0 {
				h = int64(1 + rng.Intn(5))
			}
			q := Req{h, r, s, rng.Intn(4), ts}
			kind := "req"
			if rng.Intn(8) == 0 {
				kind = "lost"
				st.Lost++
			}
			if kind == "req" && rng.Intn(12) == 0 {
				// the write of the state file fails: nothing is signed, the shadow does not move; the
				// same height/round/step is then asked again with another content
				// ... then the same request once more (a retry), a restart, and another content at that height/round/step
				ops = append(ops, Op{"fail", q}, Op{"req", Req{h, r, s, q.Content, ts + 1}}, Op{Kind: "reload"}, Op{"req", Req{h, r, s, (q.Content + 1) % 4, ts + 2}})
				ts += 2
				ch, cr, cs, cc, signed = h, r, s, q.Content, true
				st.WriteFail++
				st.Fresh++
				continue
			}
			ops = append(ops, Op{kind, q})
			ch, cr, cs, cc, signed = h, r, s, q.Content, true
			st.Fresh++
		case k < 50: // identical again
			ops = append(ops, Op{"req", Req{ch, cr, cs, cc, ts}})
			st.TsOnly++
			nontrivialRepeat = true
		case k < 58: // exactly identical incl. a timestamp used before
			ops = append(ops, Op{"req", Req{ch, cr, cs, cc, int64(1000 + rng.Intn(3000))}})
			st.SameAgain++
			nontrivialRepeat = true
		case k < 72: // conflicting content at the same HRS
			ops = append(ops, Op{"req", Req{ch, cr, cs, (cc + 1 + rng.Intn(3)) % 4, ts}})
			st.Conflict++
		case k < 90: // regression
			h, r, s := ch, cr, cs
			switch rng.Intn(3) {
			case 0:
				h = ch - int64(1+rng.Intn(2))
				r = cr + int64(rng.Intn(3))
			case 1:
				if cr > 0 {
					r = cr - 1
				} else {
					h = ch - 1
				}
				s = 1 + rng.Intn(3)
			default:
				if cs > 1 {
					s = 1 + rng.Intn(cs-1)
				} else {
					h = ch - 1
				}
			}
			ops = append(ops, Op{"req", Req{h, r, s, rng.Intn(4), ts}})
			st.Regress++
			nontrivialRegress = true
		default:
			ops = append(ops, Op{Kind: "reload"})
			st.Reload++
		}
	}
	if nontrivialRepeat && nontrivialRegress {
		st.DistinctNontrivial++
	}
	return ops
}

// Corpus: sequences that once mattered; always run first.
func corpus() [][]Op {
	return [][]Op{
		{{"req", Req{5, 0, 2, 7, 100}}, {"req", Req{5, 0, 2, 7, 200}}, {"req", Req{5, 0, 2, 8, 200}},
			{"req", Req{4, 9, 3, 7, 300}}, {"lost", Req{5, 0, 3, 9, 400}}, {Kind: "reload"},
			{"req", Req{5, 0, 3, 1, 500}}, {"req", Req{5, 0, 3, 9, 600}}},
		{{"req", Req{1, 0, 1, 1, 10}}, {Kind: "reload"}, {"req", Req{1, 0, 1, 2, 20}}, {"req", Req{1, 0, 1, 1, 30}},
			{"req", Req{1, 0, 2, 0, 40}}, {"req", Req{1, 0, 1, 1, 50}}},
		{{"req", Req{0, 0, 1, 0, 10}}, {"req", Req{-1, 0, 1, 0, 20}}, {"req", Req{0, 0, 1, 0, 30}}},
	}
}

// Generate runs nCases sequences on the real signer and writes the Coq case file.
func Generate(seed int64, nCases int, outPath string, scratch string, jsonPath string) (*Stats, error) {
	rng := rand.New(rand.NewSource(seed))
	st := &Stats{OutSigned: map[string]int{}, OutErr: map[string]int{}}
	var sb strings.Builder
	sb.WriteString("From Rigo Require Import Base Signer.\n")
	sb.WriteString("Definition cases : list (list sop * list sout) := [\n")
	all := corpus()
	for i := 0; i < nCases; i++ {
		all = append(all, genCase(rng, st))
	}
	seen := map[string]bool{}
	type caseJSON struct {
		Ops  []Op
		Outs []string
	}
	var casesJ []caseJSON
	for ci, ops := range all {
		dir := filepath.Join(scratch, fmt.Sprintf("signer-%d", ci))
		if err := os.MkdirAll(dir, 0o700); err != nil {
			return nil, err
		}
		keyFile, stateFile := filepath.Join(dir, "key.json"), filepath.Join(dir, "state.json")
		secret := []byte(fmt.Sprintf("verif-signer-key-%d-%d", seed, ci))
		priv := secp256k1.GenPrivKeySecp256k1(secret)
		pv := rcrypto.NewSFilePV(priv, keyFile, stateFile)
		pv.SaveWith(nil)
		var opS, outS []string
		for _, o := range ops {
			opS = append(opS, o.coq())
			switch o.Kind {
			case "req":
				out := doReq(pv, o.Req)
				outS = append(outS, out)
				if strings.HasPrefix(out, "OSigned") {
					st.OutSigned["signed"]++
				} else {
					st.OutErr[out]++
				}
			case "lost":
				// the process dies after saveSigned wrote the state file and before the answer is
				// used: run the request, drop the answer, and continue from the files only
				_ = doReq(pv, o.Req)
				pv = rcrypto.LoadSFilePV(keyFile, stateFile, nil)
				outS = append(outS, "ONone")
			case "fail":
				// the state file cannot be written while this request is being signed (its directory is
				// gone): the signer must stop without releasing a signature; the process then starts again
				// from the files.  A signature that is released nevertheless is recorded as such.
				away := dir + ".away"
				out := "ONone"
				died := true
				if err := os.Rename(dir, away); err == nil {
					o2 := doReq(pv, o.Req)
					if strings.HasPrefix(o2, "OSigned") && !strings.HasPrefix(o2, "OSigned (-") {
						out = o2
						st.ReleasedWithoutRecord++
					}
					// the unchanged signer panics (the process is gone); a signer that merely reports an error
					// lives on with whatever it holds in memory, and is NOT restarted here
					died = o2 == "OSigned (-3)"
					_ = os.Rename(away, dir)
				}
				if died {
					pv = rcrypto.LoadSFilePV(keyFile, stateFile, nil)
				} else {
					st.SurvivedWriteFailure++
				}
				outS = append(outS, out)
			default:
				pv = rcrypto.LoadSFilePV(keyFile, stateFile, nil)
				outS = append(outS, "ONone")
			}
		}
		st.Ops += len(ops)
		casesJ = append(casesJ, caseJSON{ops, outS})
		line := "([" + strings.Join(opS, "; ") + "],\n   [" + strings.Join(outS, "; ") + "])"
		seen[line] = true
		if ci > 0 {
			sb.WriteString(";\n")
		}
		sb.WriteString("  " + line)
		if len(st.Samples) < 2 && ci >= len(corpus()) {
			st.Samples = append(st.Samples, line)
		}
		os.RemoveAll(dir)
	}
	st.Cases = len(seen)
	sb.WriteString("\n].\n")
	sb.WriteString("Definition bad := Eval vm_compute in check_cases cases.\nPrint bad.\n")
	if jsonPath != "" {
		bz, _ := json.Marshal(casesJ)
		if err := os.WriteFile(jsonPath, bz, 0o644); err != nil {
			return nil, err
		}
	}
	return st, os.WriteFile(outPath, []byte(sb.String()), 0o644)
}
