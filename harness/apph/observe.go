package apph

import (
	"bytes"
	"encoding/base64"
	"encoding/hex"
	"encoding/json"
	"fmt"
	"math/big"
	"reflect"
	"sort"
	"strings"

	"github.com/ethereum/go-ethereum/common"
	ethcrypto "github.com/ethereum/go-ethereum/crypto"
	"github.com/rigochain/rigo-go/libs/verifhook"
	rcrypto "github.com/rigochain/rigo-go/types/crypto"
	abcitypes "github.com/tendermint/tendermint/abci/types"
)

// ---------------------------------------------------------------- per-call observations

type DeliverObs struct {
	Code      uint32
	GasWanted int64
	GasUsed   int64
	Log       string
	Panic     string
	Data      []byte
	Reason    int // failure reason parsed from the log (0 unknown)
}

type ValUp struct {
	Addr  []byte
	Power int64
}

type BlockObs struct {
	Issued      string // decimal; "0" when the block carried no votes
	BeginPanic  string
	BeginEvts   []string
	Delivers    []DeliverObs
	ValUpdates  []ValUp
	EndEvts     []string
	EndPanic    string
	AppHash     []byte
	CommitPanic string
	Frozen      []StakeView // committed frozen stakes right after the commit (accessor)
	TreeOps     []TreeOp    // tree operations of the commit, per ledger, in execution order (hook)
	Writes      []string    // durable writes of the commit in order (hook)
}

func reasonOf(ty int32, log string) int {
	has := func(s string) bool { return strings.Contains(log, s) }
	switch {
	case has("not found account"):
		return 1
	case has("invalid address"):
		return 2
	case has("invalid amount"):
		return 3
	case has("invalid gas price"):
		return 5
	case has("invalid gas"):
		return 4
	case has("invalid signature"), has("wrong address or sig"), has("recovery failed"), has("invalid recovery id"), has("signature"):
		return 6
	case has("insufficient fund"):
		return 7
	case has("invalid nonce"):
		return 8
	case has("amount must be 0"), has("should be zero address") && ty == 4:
		return 24
	case has("invalid params of transaction payload"), has("wrong transaction payload type"):
		return 9
	case has("unknown transaction type"):
		return 10
	case has("wrong amount: it should be"):
		return 11
	case has("too small stake"):
		return 12
	case has("not found delegatee"):
		return 13
	case has("not enough self power"):
		return 14
	case has("exceeded updatable stake ratio"), has("StakeLimiter"):
		return 15
	case has("you not stake owner"):
		return 17
	case has("not found stake"):
		return 16
	case has("insufficient reward"):
		return 18
	case has("no right"):
		return 19
	case has("already existed key"):
		return 20
	case has("not voting period"):
		return 21
	case has("not found result"):
		if ty == 8 {
			return 18
		}
		if ty == 5 {
			return 22
		}
		if ty == 3 {
			return 13
		}
	}
	return 0
}

func evStrings(evs []abcitypes.Event) []string {
	var out []string
	for _, e := range evs {
		var attrs []string
		for _, a := range e.Attributes {
			attrs = append(attrs, string(a.Key)+"="+string(a.Value))
		}
		out = append(out, e.Type+"{"+strings.Join(attrs, ",")+"}")
	}
	return out
}

// Begin / Deliver / End / Commit with panic capture
func (n *Node) Begin(b *BlockSpec) (issued string, evts []string, panicMsg string) {
	issued = "0"
	err := guard(func() {
		r := n.App.BeginBlock(b.request())
		evts = evStrings(r.Events)
		for _, e := range r.Events {
			if e.Type == "reward" {
				for _, a := range e.Attributes {
					if string(a.Key) == "issued" {
						issued = string(a.Value)
					}
				}
			}
		}
	})
	if err != nil {
		panicMsg = err.Error()
	}
	return
}

func (n *Node) Deliver(ty int32, bz []byte) DeliverObs {
	var o DeliverObs
	err := guard(func() {
		r := n.App.DeliverTx(abcitypes.RequestDeliverTx{Tx: bz})
		o = DeliverObs{Code: r.Code, GasWanted: r.GasWanted, GasUsed: r.GasUsed, Log: r.Log, Data: r.Data}
		if r.Code != 0 {
			o.Reason = reasonOf(ty, r.Log)
		}
	})
	if err != nil {
		o.Panic = err.Error()
	}
	return o
}

func (n *Node) Check(bz []byte) (code uint32, panicMsg string) {
	err := guard(func() {
		r := n.App.CheckTx(abcitypes.RequestCheckTx{Tx: bz, Type: abcitypes.CheckTxType_New})
		code = r.Code
	})
	if err != nil {
		panicMsg = err.Error()
	}
	return
}

func (n *Node) End(h int64) (ups []ValUp, evts []string, panicMsg string) {
	err := guard(func() {
		r := n.App.EndBlock(abcitypes.RequestEndBlock{Height: h})
		evts = evStrings(r.Events)
		for _, u := range r.ValidatorUpdates {
			a, _ := rcrypto.PubBytes2Addr(u.PubKey.GetSecp256K1())
			ups = append(ups, ValUp{Addr: a, Power: u.Power})
		}
	})
	if err != nil {
		panicMsg = err.Error()
	}
	return
}

// TreeOps / DurableWrites of the last Commit, as reported by the verif hooks
type TreeOp struct {
	Ledger string
	Set    bool
	Key    []byte
}

var (
	lastTreeOps []TreeOp
	lastWrites  []string
)

func (n *Node) Commit() (hash []byte, panicMsg string) {
	lastTreeOps, lastWrites = nil, nil
	verifhook.SetCallbacks(func(ledger string, set bool, key []byte) {
		lastTreeOps = append(lastTreeOps, TreeOp{ledger, set, append([]byte(nil), key...)})
	}, func(store string) { lastWrites = append(lastWrites, store) })
	defer verifhook.SetCallbacks(nil, nil)
	err := guard(func() {
		r := n.App.Commit()
		hash = r.Data
	})
	if err != nil {
		panicMsg = err.Error()
	}
	return
}

func (n *Node) Query(path string, data []byte, height int64) (r abcitypes.ResponseQuery, panicMsg string) {
	err := guard(func() {
		r = n.App.Query(abcitypes.RequestQuery{Path: path, Data: data, Height: height})
	})
	if err != nil {
		panicMsg = err.Error()
	}
	return
}

// RunBlock executes one block and records everything observable
func (n *Node) RunBlock(b *BlockSpec) *BlockObs {
	o := &BlockObs{}
	o.Issued, o.BeginEvts, o.BeginPanic = n.Begin(b)
	if o.BeginPanic != "" {
		return o
	}
	for _, t := range b.Txs {
		o.Delivers = append(o.Delivers, n.Deliver(t.Spec.Type, t.Bytes))
	}
	o.ValUpdates, o.EndEvts, o.EndPanic = n.End(b.Height)
	if o.EndPanic != "" {
		return o
	}
	o.AppHash, o.CommitPanic = n.Commit()
	o.TreeOps, o.Writes = lastTreeOps, lastWrites
	if o.CommitPanic == "" {
		o.Frozen = n.FrozenStakes()
	}
	return o
}

// runBlockObserving is RunBlock for replays: transactions that carried an observed EVM effect get
// the effect this node shows
func (n *Node) runBlockObserving(b *BlockSpec, watch [][]byte) *BlockObs {
	o := &BlockObs{}
	o.Issued, o.BeginEvts, o.BeginPanic = n.Begin(b)
	if o.BeginPanic != "" {
		return o
	}
	for _, t := range b.Txs {
		var before map[string]AcctObs
		if t.Evm != nil && (t.Spec.Type == 6 || t.Spec.Type == 1) {
			before = map[string]AcctObs{}
			ac := n.App.VerifAcctCtrler()
			addrs := append([][]byte(nil), watch...)
			if t.Spec.Type == 6 && isZero(t.Spec.To) && len(t.Spec.From) == 20 {
				created := ethcrypto.CreateAddress(common.BytesToAddress(t.Spec.From), t.Spec.Nonce)
				addrs = append(addrs, created[:])
			}
			for _, a := range addrs {
				if acct := ac.FindAccount(a, true); acct != nil {
					before[string(a)] = AcctObs{Addr: a, Bal: acct.GetBalance().Dec(), Nonce: acct.GetNonce()}
				}
			}
		}
		d := n.Deliver(t.Spec.Type, t.Bytes)
		o.Delivers = append(o.Delivers, d)
		if t.Evm != nil && d.Panic == "" {
			e := &EvmEffect{OK: d.Code == 0, Gas: d.GasUsed}
			if d.Code == 0 {
				e.Created = t.Evm.Created
				if e.Created == nil && t.Spec.Type == 6 && isZero(t.Spec.To) {
					created := ethcrypto.CreateAddress(common.BytesToAddress(t.Spec.From), t.Spec.Nonce)
					e.Created = created[:]
				}
				ac := n.App.VerifAcctCtrler()
				for _, a := range watch {
					if acct := ac.FindAccount(a, true); acct != nil {
						e.Accts = append(e.Accts, AcctObs{Addr: a, Bal: acct.GetBalance().Dec(), Nonce: acct.GetNonce()})
					}
				}
				e.Pure = pureJudgement(before, e, t.Spec, d.GasUsed)
			}
			t.Evm = e
		}
	}
	o.ValUpdates, o.EndEvts, o.EndPanic = n.End(b.Height)
	if o.EndPanic != "" {
		return o
	}
	o.AppHash, o.CommitPanic = n.Commit()
	o.TreeOps, o.Writes = lastTreeOps, lastWrites
	if o.CommitPanic == "" {
		o.Frozen = n.FrozenStakes()
	}
	return o
}

// ---------------------------------------------------------------- projected state

type AcctView struct {
	Nonce   uint64
	Balance string
	Code    bool
	Name    string
	Doc     string
}
type StakeView struct {
	From, To, Hash []byte
	Start, Refund  int64
	Power          int64
}
type DelView struct {
	Self, Total int64
	Stakes      []StakeView
	Marks       []int64
}
type RewardView struct {
	Issued, Withdrawn, Slashed, Cumulated string
	Height                                int64
}
type VoterView struct {
	Addr   []byte
	Power  int64
	Choice int64
}
type OptView struct {
	Raw   []byte
	Votes int64
}
type PropView struct {
	Frozen                             bool
	Start, End, Apply, Total, Majority int64
	Voters                             []VoterView
	OptType                            int64
	Options                            []OptView
	Major                              []byte // nil: none
	HasMajor                           bool
}

type Snap struct {
	Height     int64
	Accts      []AcctView
	Dels       []*DelView
	Rewards    []*RewardView
	Props      []*PropView
	Params     Params
	TotalPower int64
	Raw        map[string]string // path|key -> code:value, for the C19 byte comparison
	// answers of different query paths about the same committed state that contradict each other
	// (the "stakes" of an owner vs the stakes it owns in the delegatee records of the same height)
	Inconsistent []string `json:",omitempty"`
}

func num(v interface{}) int64 {
	switch x := v.(type) {
	case string:
		b, _ := new(big.Int).SetString(x, 10)
		if b == nil {
			return 0
		}
		return b.Int64()
	case float64:
		return int64(x)
	case json.Number:
		i, _ := x.Int64()
		return i
	}
	return 0
}
func unum(v interface{}) uint64 {
	switch x := v.(type) {
	case string:
		b, _ := new(big.Int).SetString(x, 10)
		if b == nil {
			return 0
		}
		return b.Uint64()
	case json.Number:
		b, _ := new(big.Int).SetString(x.String(), 10)
		if b == nil {
			return 0
		}
		return b.Uint64()
	}
	return 0
}
func str(v interface{}) string {
	if s, ok := v.(string); ok {
		return s
	}
	if v == nil {
		return ""
	}
	return fmt.Sprint(v)
}
func hexb(v interface{}) []byte {
	s, _ := v.(string)
	b, _ := hex.DecodeString(s)
	return b
}

func decode(bz []byte) map[string]interface{} {
	d := json.NewDecoder(strings.NewReader(string(bz)))
	d.UseNumber()
	var m map[string]interface{}
	_ = d.Decode(&m)
	return m
}

func stakeOf(m map[string]interface{}) StakeView {
	return StakeView{From: hexb(m["owner"]), To: hexb(m["to"]), Hash: hexb(m["txhash"]),
		Start: num(m["startHeight"]), Refund: num(m["refundHeight"]), Power: num(m["power"])}
}

func (n *Node) FrozenStakes() []StakeView {
	var out []StakeView
	_ = guard(func() {
		for _, s := range n.App.VerifStakeCtrler().ReadFrozenStakes() {
			out = append(out, StakeView{From: s.From, To: s.To, Hash: s.TxHash, Start: s.StartHeight, Refund: s.RefundHeight, Power: s.Power})
		}
	})
	sort.Slice(out, func(i, j int) bool { return string(pad32(out[i].Hash)) < string(pad32(out[j].Hash)) })
	return out
}

func pad32(b []byte) []byte {
	o := make([]byte, 32)
	copy(o, b)
	return o
}

func paramsOf(m map[string]interface{}) Params {
	return Params{Version: num(m["version"]), MaxValidatorCnt: num(m["maxValidatorCnt"]),
		MinValidatorStake: str(m["minValidatorStake"]), MinDelegatorStake: str(m["minDelegatorStake"]),
		RewardPerPower: str(m["rewardPerPower"]), LazyRewardBlocks: num(m["lazyRewardBlocks"]),
		LazyApplyingBlocks: num(m["lazyApplyingBlocks"]), GasPrice: str(m["gasPrice"]),
		MinTrxGas: unum(m["minTrxGas"]), MaxTrxGas: unum(m["maxTrxGas"]), MaxBlockGas: unum(m["maxBlockGas"]),
		MinVotingPeriodBlocks: num(m["minVotingPeriodBlocks"]), MaxVotingPeriodBlocks: num(m["maxVotingPeriodBlocks"]),
		MinSelfStakeRatio: num(m["minSelfStakeRatio"]), MaxUpdatableStakeRatio: num(m["maxUpdatableStakeRatio"]),
		MaxIndividualStakeRatio: num(m["maxIndividualStakeRatio"]), SlashRatio: num(m["slashRatio"]),
		SignedBlocksWindow: num(m["signedBlocksWindow"]), MinSignedBlocks: num(m["minSignedBlocks"])}
}

// Snapshot reads the state committed at `height` for the watched addresses / proposal hashes
func (n *Node) Snapshot(height int64, wa [][]byte, wh [][]byte) (*Snap, error) {
	s := &Snap{Height: height, Raw: map[string]string{}}
	q := func(path string, data []byte) (abcitypes.ResponseQuery, error) {
		r, p := n.Query(path, data, height)
		if p != "" {
			return r, fmt.Errorf("query %s panicked: %s", path, p)
		}
		s.Raw[path+"|"+hex.EncodeToString(data)] = fmt.Sprintf("%d:%s", r.Code, r.Value)
		return r, nil
	}
	for _, a := range wa {
		r, err := q("account", a)
		if err != nil {
			return nil, err
		}
		if r.Code != 0 {
			return nil, fmt.Errorf("account query code %d: %s", r.Code, r.Log)
		}
		m := decode(r.Value)
		s.Accts = append(s.Accts, AcctView{Nonce: unum(m["nonce"]), Balance: str(m["balance"]), Code: str(m["code"]) != "",
			Name: str(m["name"]), Doc: str(m["docURL"])})
		r, err = q("delegatee", a)
		if err != nil {
			return nil, err
		}
		if r.Code != 0 {
			s.Dels = append(s.Dels, nil)
		} else {
			m := decode(r.Value)
			d := &DelView{Self: num(m["selfPower"]), Total: num(m["totalPower"])}
			if sts, ok := m["stakes"].([]interface{}); ok {
				for _, x := range sts {
					d.Stakes = append(d.Stakes, stakeOf(x.(map[string]interface{})))
				}
			}
			if nsh, ok := m["NotSignedHeights"].(map[string]interface{}); ok {
				if hs, ok := nsh["blockHeights"].([]interface{}); ok {
					for _, x := range hs {
						d.Marks = append(d.Marks, num(x))
					}
				}
			}
			s.Dels = append(s.Dels, d)
		}
		r, err = q("reward", a)
		if err != nil {
			return nil, err
		}
		if r.Code != 0 {
			s.Rewards = append(s.Rewards, nil)
		} else {
			m := decode(r.Value)
			z := func(k string) string {
				if v := str(m[k]); v != "" {
					return v
				}
				return "0"
			}
			s.Rewards = append(s.Rewards, &RewardView{Issued: z("issued"), Withdrawn: z("withdrawn"), Slashed: z("slashed"),
				Cumulated: z("cumulated"), Height: num(m["height"])})
		}
	}
	for _, h := range wh {
		r, err := q("proposal", h)
		if err != nil {
			return nil, err
		}
		if r.Code != 0 {
			s.Props = append(s.Props, nil)
			continue
		}
		m := decode(r.Value)
		pm, _ := m["proposal"].(map[string]interface{})
		hd, _ := pm["header"].(map[string]interface{})
		p := &PropView{Frozen: str(m["status"]) == "frozen", Start: num(hd["startVotingHeight"]), End: num(hd["endVotingHeight"]),
			Apply: num(hd["applyingHeight"]), Total: num(hd["totalVotingPower"]), Majority: num(hd["majorityPower"]),
			OptType: num(hd["optType"])}
		if vs, ok := hd["votes"].(map[string]interface{}); ok {
			for _, x := range vs {
				vm := x.(map[string]interface{})
				p.Voters = append(p.Voters, VoterView{Addr: hexb(vm["address"]), Power: num(vm["power"]), Choice: num(vm["choice"])})
			}
			sort.Slice(p.Voters, func(i, j int) bool { return string(p.Voters[i].Addr) < string(p.Voters[j].Addr) })
		}
		optOf := func(x interface{}) OptView {
			om := x.(map[string]interface{})
			raw, _ := base64.StdEncoding.DecodeString(str(om["option"]))
			return OptView{Raw: raw, Votes: num(om["votes"])}
		}
		if os, ok := pm["options"].([]interface{}); ok {
			for _, x := range os {
				p.Options = append(p.Options, optOf(x))
			}
		}
		if mo, ok := pm["majorOption"].(map[string]interface{}); ok && mo != nil {
			p.HasMajor = true
			p.Major = optOf(mo).Raw
		}
		s.Props = append(s.Props, p)
	}
	// the "stakes" query of every watched owner against the delegatee records just read (every
	// delegatee is a watched address): same set of stake hashes, same powers
	for _, a := range wa {
		r, err := q("stakes", a)
		if err != nil {
			return nil, err
		}
		if r.Code != 0 {
			continue
		}
		got := map[string]int64{}
		var arr []interface{}
		_ = json.Unmarshal(r.Value, &arr)
		for _, x := range arr {
			if m, ok := x.(map[string]interface{}); ok {
				st := stakeOf(m)
				got[string(st.Hash)+"|"+string(st.To)] = st.Power
			}
		}
		want := map[string]int64{}
		for _, d := range s.Dels {
			if d == nil {
				continue
			}
			for _, st := range d.Stakes {
				if bytes.Equal(st.From, a) {
					want[string(st.Hash)+"|"+string(st.To)] = st.Power
				}
			}
		}
		if !reflect.DeepEqual(got, want) {
			s.Inconsistent = append(s.Inconsistent, fmt.Sprintf("height %d: the stakes query of %X lists %d stakes, the delegatee records of that height hold %d stakes of this owner", height, a[:4], len(got), len(want)))
		}
	}
	r, err := q("gov_params", nil)
	if err != nil {
		return nil, err
	}
	if r.Code != 0 {
		return nil, fmt.Errorf("gov_params query code %d: %s", r.Code, r.Log)
	}
	s.Params = paramsOf(decode(r.Value))
	r, err = q("stakes/total_power", nil)
	if err != nil {
		return nil, err
	}
	s.TotalPower = num(string(r.Value))
	return s, nil
}
