package apph

import (
	"encoding/json"
	"fmt"
	"math/rand"
	"os"
	"strings"
)

type AppStats struct {
	Histories, Blocks, Txs                                                         int
	ByNote                                                                         map[string]int
	Failed, Succeeded                                                              int
	ValUpdateBlocks                                                                int
	Errors                                                                         []string
	Corpus                                                                         []string
	ForkRuns, ForkDeleted                                                          int
	ForkDiffs                                                                      []string
	QueryInconsistent                                                              []string // contradictions between query paths about one committed height
	ReplicaRuns, NoiseRuns, RestartRuns, Restarts                                  int
	NoiseChecks, NoiseChecksPassed, NoiseQueries                                   int
	NoiseFreshChecks, NoiseFreshPassed                                             int
	NoiseFreshToContract                                                           int
	JudgedPerturbed                                                                int
	NoiseQueriesCompared                                                           int
	NoiseQueryDiffs                                                                []string
	ReplicaDiffs, NoiseDiffs, RestartDiffs, NoisePanics                            []string
	MultiKeyCommits                                                                int
	TreeOpBad, WriteOrder                                                          []string
	CrashRuns                                                                      int
	QueryRuns, QueryAsked, QueryRepeated, QueryMidBlock, QueryHeight0, QueryBeyond int
	QueryBad                                                                       []string
	CrashOutcomes                                                                  []string
	CrashTable                                                                     map[string]int
	DistinctNontrivial                                                             int
	Samples                                                                        []string
}

// GenerateCases produces n histories and writes them as one Coq case file
func GenerateCases(seed int64, n, blocks int, outPath, scratch, jsonPath, profile, evals string) (*AppStats, error) {
	var hs []*History
	var corpus []string
	if strings.Contains(profile, "corpus") {
		pre, names, err := CorpusHistories(scratch, nil)
		if err != nil {
			return nil, fmt.Errorf("corpus: %v", err)
		}
		hs, corpus = append(hs, pre...), names
	} else if strings.Contains(profile, "crash") {
		// the crash experiments also run on the scripted histories in which what a restarted node reads
		// from its stores matters most: parameters changed by a partial document, the EVM gas pool
		pre, names, err := CorpusHistories(scratch, map[string]bool{"partial-parameter-document-applied": true, "evm-block-gas-pool": true})
		if err != nil {
			return nil, fmt.Errorf("corpus: %v", err)
		}
		hs, corpus = append(hs, pre...), names
	}
	for i := 0; i < n; i++ {
		h, err := Generate(seed*100000+int64(i), blocks, scratch, profile)
		if err != nil {
			return nil, fmt.Errorf("history %d: %v", i, err)
		}
		hs = append(hs, h)
		_ = os.RemoveAll(fmt.Sprintf("%s/gen-%d", scratch, h.Seed))
	}
	st, err := writeCases(hs, outPath, jsonPath, evals)
	if st != nil {
		st.Corpus = corpus
	}
	var judged []*History // traces of perturbed nodes (mempool traffic, restarts) that the predicates judge too
	if err == nil && (strings.Contains(profile, "replica") || strings.Contains(profile, "noise") || strings.Contains(profile, "restart")) {
		for i, h := range hs {
			if h.Err != "" {
				continue
			}
			if strings.Contains(profile, "replica") {
				r, rerr := Rerun(h, scratch, fmt.Sprintf("replica-%d", i))
				if rerr != nil {
					return nil, rerr
				}
				st.ReplicaRuns++
				for _, d := range CompareRuns(h, r, "replica") {
					st.ReplicaDiffs = append(st.ReplicaDiffs, fmt.Sprintf("history %d: %s", i, d))
				}
				for _, d := range CompareTreeOps(h, r) {
					st.ReplicaDiffs = append(st.ReplicaDiffs, fmt.Sprintf("history %d: %s", i, d))
				}
				bad, multi := TreeOpShape(h)
				st.MultiKeyCommits += multi
				for _, d := range bad {
					st.TreeOpBad = append(st.TreeOpBad, fmt.Sprintf("history %d: %s", i, d))
				}
				if len(h.Obs) > 0 {
					st.WriteOrder = h.Obs[len(h.Obs)-1].Writes
				}
			}
			if strings.Contains(profile, "noise") {
				r, ps, rerr := RerunPerturbed(h, scratch, fmt.Sprintf("noisy-%d", i), Perturb{Noise: true, NoiseSeed: seed*7919 + int64(i)})
				if rerr != nil {
					return nil, rerr
				}
				if strings.Contains(profile, "judge") && r.Err == "" && len(r.Snaps) == len(h.Snaps) {
					r.Seed = h.Seed
					judged = append(judged, r)
				}
				st.NoiseRuns++
				st.NoiseChecks += ps.Checks
				st.NoiseChecksPassed += ps.ChecksPassed
				st.NoiseQueriesCompared += ps.QueriesCompared
				for _, d := range ps.QueryMismatch {
					st.NoiseQueryDiffs = append(st.NoiseQueryDiffs, fmt.Sprintf("history %d: %s", i, d))
				}
				st.NoiseFreshToContract += ps.FreshToContract
				st.NoiseFreshChecks += ps.FreshChecks
				st.NoiseFreshPassed += ps.FreshPassed
				st.NoiseQueries += ps.Queries
				st.NoisePanics = append(st.NoisePanics, ps.CheckPanics...)
				st.NoisePanics = append(st.NoisePanics, ps.QueryPanics...)
				for _, d := range CompareRuns(h, r, "noisy") {
					st.NoiseDiffs = append(st.NoiseDiffs, fmt.Sprintf("history %d: %s", i, d))
				}
			}
			if strings.Contains(profile, "restart") {
				rs := map[int64]bool{}
				rr := rand.New(rand.NewSource(seed*104729 + int64(i)))
				for _, b := range h.Blocks {
					// restart after blocks that changed the validator set or carried transactions, and some others
					bi := int(b.Height) - 1
					interesting := bi < len(h.Obs) && (len(h.Obs[bi].ValUpdates) > 0 || len(b.Txs) > 2)
					// (the per-property "judge" runs restart only where something is in flight, see below)
					if !strings.Contains(profile, "judge") && ((interesting && rr.Intn(2) == 0) || rr.Intn(6) == 0) {
						rs[b.Height] = true
					}
					// always: while something is in flight across blocks — a stake was just released
					// (it is unbonding until its refund height), a proposal was frozen, evidence arrived
					if bi < len(h.Obs) {
						for ti, t := range b.Txs {
							if t.Spec.Type == 3 && ti < len(h.Obs[bi].Delivers) && h.Obs[bi].Delivers[ti].Code == 0 {
								rs[b.Height] = true
							}
						}
						if len(b.Evidence) > 0 {
							rs[b.Height] = true
						}
					}
					// always: after a block that applied a governance proposal (the parameters in force
					// change at that commit), and at every boundary of the short scripted histories
					if bi < len(h.Obs) {
						for _, e := range h.Obs[bi].EndEvts {
							if strings.Contains(e, "applied") {
								rs[b.Height] = true
							}
						}
					}
					if h.Seed >= 900000 && !strings.Contains(profile, "judge") {
						rs[b.Height] = true
					}
				}
				r, ps, rerr := RerunPerturbed(h, scratch, fmt.Sprintf("restarted-%d", i), Perturb{RestartAfter: rs})
				if rerr != nil {
					return nil, rerr
				}
				if strings.Contains(profile, "judge") && r.Err == "" && len(r.Snaps) == len(h.Snaps) {
					r.Seed = h.Seed
					judged = append(judged, r)
				}
				st.RestartRuns++
				st.Restarts += ps.Restarts
				for _, d := range ps.InfoMismatch {
					st.RestartDiffs = append(st.RestartDiffs, fmt.Sprintf("history %d: %s", i, d))
				}
				for _, d := range CompareRuns(h, r, "restarted") {
					st.RestartDiffs = append(st.RestartDiffs, fmt.Sprintf("history %d: %s", i, d))
				}
				if h.Seed >= 900000 && !strings.Contains(profile, "judge") {
					// a node restarted at EVERY boundary never carries in-memory state from one commit to the
					// next; the scripted histories are run once more with a restart after every second block
					// only, so that what a node keeps in memory across a commit meets what a restart reads back
					rs2 := map[int64]bool{}
					for _, b := range h.Blocks {
						if b.Height%2 == 0 {
							rs2[b.Height] = true
						}
					}
					r2, ps2, rerr2 := RerunPerturbed(h, scratch, fmt.Sprintf("restarted-even-%d", i), Perturb{RestartAfter: rs2})
					if rerr2 != nil {
						return nil, rerr2
					}
					st.RestartRuns++
					st.Restarts += ps2.Restarts
					for _, d := range ps2.InfoMismatch {
						st.RestartDiffs = append(st.RestartDiffs, fmt.Sprintf("history %d (restart after even heights): %s", i, d))
					}
					for _, d := range CompareRuns(h, r2, "restarted") {
						st.RestartDiffs = append(st.RestartDiffs, fmt.Sprintf("history %d (restart after even heights): %s", i, d))
					}
				}
			}
		}
	}
	if err == nil && len(judged) > 0 {
		// the case file is written again with the perturbed nodes' traces appended: model and predicate
		// are evaluated on what THOSE nodes answered as well
		st2, werr := writeCases(append(append([]*History(nil), hs...), judged...), outPath, jsonPath, evals)
		if werr != nil {
			return nil, werr
		}
		st.JudgedPerturbed = len(judged)
		_ = st2
	}
	if err == nil && strings.Contains(profile, "queries") {
		for i, h := range hs {
			if h.Err != "" {
				continue
			}
			qs, qerr := QueryStability(h, scratch, fmt.Sprintf("queries-%d", i), seed*31+int64(i))
			if qerr != nil {
				return nil, qerr
			}
			st.QueryRuns++
			st.QueryAsked += qs.Asked
			st.QueryRepeated += qs.Repeated
			st.QueryMidBlock += qs.MidBlock
			st.QueryHeight0 += qs.Height0
			st.QueryBeyond += qs.Beyond
			for _, l := range [][]string{qs.Changed, qs.Height0Wrong, qs.BeyondOK, qs.Panics} {
				for _, d := range l {
					st.QueryBad = append(st.QueryBad, fmt.Sprintf("history %d: %s", i, d))
				}
			}
		}
	}
	if err == nil && strings.Contains(profile, "crash") {
		rr := rand.New(rand.NewSource(seed*15485863 + 1))
		for i, h := range hs {
			if h.Err != "" || len(h.Blocks) < 4 {
				continue
			}
			// two blocks per history, one of them a multiple of 10 when there is one (reward-hash record)
			ats := []int{1 + rr.Intn(len(h.Blocks)-2)}
			if len(h.Blocks) > 10 {
				ats = append(ats, 9)
			}
			// and one block whose EndBlock announces validator changes (what a restarted node must
			// know about the previous block shows there), if the history has one
			for at := 2; at < len(h.Blocks)-1 && at < len(h.Obs); at++ {
				if len(h.Obs[at].ValUpdates) > 0 && at != ats[0] && at != 9 {
					ats = append(ats, at)
					break
				}
			}
			if h.Seed >= 900000 && h.Seed < 1000000 && len(h.Blocks) > 9 {
				// scripted: the block after a parameter change took effect (the replay and the block after it
				// then run on what the restarted node read from its stores)
				ats = append(ats, 7)
			}
			// and the very first block: nothing is committed yet, Info reports height 0 and consensus
			// initialises the chain again before it replays the block
			ats = append(ats, 0)
			for _, at := range ats {
				outs, cerr := CrashExperiment(h, at, scratch, fmt.Sprintf("crash-%d-%d", i, at))
				if cerr != nil {
					st.Errors = append(st.Errors, fmt.Sprintf("crash experiment history %d block %d: %v", i, at+1, cerr))
					continue
				}
				st.CrashRuns++
				for _, o := range outs {
					o2 := o
					st.CrashOutcomes = append(st.CrashOutcomes, fmt.Sprintf("history %d block %d %s => %s %s", i, o2.Block, o2.Point, o2.Outcome, o2.Detail))
					key := o2.Point + " => " + strings.SplitN(o2.Outcome, "@", 2)[0]
					if st.CrashTable == nil {
						st.CrashTable = map[string]int{}
					}
					st.CrashTable[key]++
				}
			}
		}
	}
	if err == nil && strings.Contains(profile, "forkdelete") {
		for i, h := range hs {
			if h.Err != "" {
				continue
			}
			diffs, deleted, ferr := ForkDelete(h, scratch, fmt.Sprintf("fork-%d", i))
			if ferr != nil {
				return nil, ferr
			}
			st.ForkDeleted += deleted
			st.ForkRuns++
			for _, d := range diffs {
				st.ForkDiffs = append(st.ForkDiffs, fmt.Sprintf("history %d: %s", i, d))
			}
			diffs2, _, ferr := ForkDeleteInvalidOnly(h, scratch, fmt.Sprintf("fork2-%d", i))
			if ferr != nil {
				return nil, ferr
			}
			st.ForkRuns++
			for _, d := range diffs2 {
				st.ForkDiffs = append(st.ForkDiffs, fmt.Sprintf("history %d (only the deliberately invalid failed transactions removed): %s", i, d))
			}
			for vi, variant := range []func(*History, string, string) ([]string, int, error){ForkDeleteFirstPerBlock, ForkDeleteHalf} {
				diffs3, _, ferr := variant(h, scratch, fmt.Sprintf("fork%d-%d", 3+vi, i))
				if ferr != nil {
					return nil, ferr
				}
				st.ForkRuns++
				for _, d := range diffs3 {
					st.ForkDiffs = append(st.ForkDiffs, fmt.Sprintf("history %d (%s removed): %s", i, []string{"only the first failed transaction of each block", "every second failed transaction"}[vi], d))
				}
			}
		}
	}
	return st, err
}

// writeCases renders histories as one Coq case file (+ optional JSON copy) and aggregates statistics
func writeCases(hs []*History, outPath, jsonPath, evals string) (*AppStats, error) {
	st := &AppStats{ByNote: map[string]int{}}
	var sb strings.Builder
	ResetSyms()
	for i, h := range hs {
		if h.Err != "" {
			st.Errors = append(st.Errors, fmt.Sprintf("history %d (seed %d): %s", i, h.Seed, h.Err))
		}
		if i > 0 {
			sb.WriteString(";\n")
		}
		sb.WriteString(h.CoqCase())
		for _, sn := range h.Snaps {
			if sn != nil {
				for _, q := range sn.Inconsistent {
					st.QueryInconsistent = append(st.QueryInconsistent, fmt.Sprintf("history %d: %s", i, q))
				}
			}
		}
		st.Histories++
		st.Blocks += len(h.Blocks)
		nontrivial := false
		for k, v := range h.Stats {
			if strings.HasPrefix(k, "tx:") {
				st.ByNote[k[3:]] += v
				st.Txs += v
				if strings.HasSuffix(k, ":code0") {
					st.Succeeded += v
				} else {
					st.Failed += v
				}
			}
			if strings.HasPrefix(k, "ev:") || strings.HasPrefix(k, "why:") {
				st.ByNote[k] += v
			}
		}
		if h.Stats["blocks-with-valupdates"] > 0 {
			st.ValUpdateBlocks += h.Stats["blocks-with-valupdates"]
			nontrivial = true
		}
		if nontrivial {
			st.DistinctNontrivial++
		}
	}
	sb.WriteString("\n].\n")
	if evals == "" {
		evals = "bad=check_acases"
	}
	for _, e := range strings.Split(evals, "|") {
		kv := strings.SplitN(e, "=", 2)
		if len(kv) == 2 {
			sb.WriteString(fmt.Sprintf("Definition %s := Eval vm_compute in %s cases.\nPrint %s.\n", kv[0], kv[1], kv[0]))
		}
	}
	if jsonPath != "" {
		bz, _ := json.Marshal(hs)
		if err := os.WriteFile(jsonPath, bz, 0o644); err != nil {
			return nil, err
		}
	}
	head := "From Rigo Require Import Base.\nFrom stdpp Require Import gmap.\nFrom Rigo Require Import Spec AppRun Predicates EffectCheck.\nLocal Open Scope Z_scope.\n" +
		SymDefs() + "Definition cases : list acase := [\n"
	return st, os.WriteFile(outPath, []byte(head+sb.String()), 0o644)
}
