package apph

import (
	"encoding/json"
	"fmt"
	"os"
	"strings"
)

type AppStats struct {
	Histories, Blocks, Txs int
	ByNote                 map[string]int
	Failed, Succeeded      int
	ValUpdateBlocks        int
	Errors                 []string
	Corpus                 []string
	ForkRuns, ForkDeleted  int
	ForkDiffs              []string
	DistinctNontrivial     int
	Samples                []string
}

// GenerateCases produces n histories and writes them as one Coq case file
func GenerateCases(seed int64, n, blocks int, outPath, scratch, jsonPath, profile, evals string) (*AppStats, error) {
	var hs []*History
	var corpus []string
	if strings.Contains(profile, "corpus") {
		pre, names, err := CorpusHistories(scratch, nil)
		if err != nil {
			return nil, fmt.Errorf("corpus: %v", err)
		}
		hs, corpus = append(hs, pre...), names
	}
	for i := 0; i < n; i++ {
		h, err := Generate(seed*100000+int64(i), blocks, scratch, profile)
		if err != nil {
			return nil, fmt.Errorf("history %d: %v", i, err)
		}
		hs = append(hs, h)
		_ = os.RemoveAll(fmt.Sprintf("%s/gen-%d", scratch, h.Seed))
	}
	st, err := writeCases(hs, outPath, jsonPath, evals)
	if st != nil {
		st.Corpus = corpus
	}
	if err == nil && strings.Contains(profile, "forkdelete") {
		for i, h := range hs {
			if h.Err != "" {
				continue
			}
			diffs, deleted, ferr := ForkDelete(h, scratch, fmt.Sprintf("fork-%d", i))
			if ferr != nil {
				return nil, ferr
			}
			st.ForkDeleted += deleted
			st.ForkRuns++
			for _, d := range diffs {
				st.ForkDiffs = append(st.ForkDiffs, fmt.Sprintf("history %d: %s", i, d))
			}
		}
	}
	return st, err
}

// writeCases renders histories as one Coq case file (+ optional JSON copy) and aggregates statistics
func writeCases(hs []*History, outPath, jsonPath, evals string) (*AppStats, error) {
	st := &AppStats{ByNote: map[string]int{}}
	var sb strings.Builder
	ResetSyms()
	for i, h := range hs {
		if h.Err != "" {
			st.Errors = append(st.Errors, fmt.Sprintf("history %d (seed %d): %s", i, h.Seed, h.Err))
		}
		if i > 0 {
			sb.WriteString(";\n")
		}
		sb.WriteString(h.CoqCase())
		st.Histories++
		st.Blocks += len(h.Blocks)
		nontrivial := false
		for k, v := range h.Stats {
			if strings.HasPrefix(k, "tx:") {
				st.ByNote[k[3:]] += v
				st.Txs += v
				if strings.HasSuffix(k, ":code0") {
					st.Succeeded += v
				} else {
					st.Failed += v
				}
			}
			if strings.HasPrefix(k, "ev:") || strings.HasPrefix(k, "why:") {
				st.ByNote[k] += v
			}
		}
		if h.Stats["blocks-with-valupdates"] > 0 {
			st.ValUpdateBlocks += h.Stats["blocks-with-valupdates"]
			nontrivial = true
		}
		if nontrivial {
			st.DistinctNontrivial++
		}
	}
	sb.WriteString("\n].\n")
	if evals == "" {
		evals = "bad=check_acases"
	}
	for _, e := range strings.Split(evals, "|") {
		kv := strings.SplitN(e, "=", 2)
		if len(kv) == 2 {
			sb.WriteString(fmt.Sprintf("Definition %s := Eval vm_compute in %s cases.\nPrint %s.\n", kv[0], kv[1], kv[0]))
		}
	}
	if jsonPath != "" {
		bz, _ := json.Marshal(hs)
		if err := os.WriteFile(jsonPath, bz, 0o644); err != nil {
			return nil, err
		}
	}
	head := "From Rigo Require Import Base.\nFrom stdpp Require Import gmap.\nFrom Rigo Require Import Spec AppRun Predicates.\nLocal Open Scope Z_scope.\n" +
		SymDefs() + "Definition cases : list acase := [\n"
	return st, os.WriteFile(outPath, []byte(head+sb.String()), 0o644)
}
