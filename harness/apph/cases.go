package apph

import (
	"encoding/json"
	"fmt"
	"os"
	"strings"
)

type AppStats struct {
	Histories, Blocks, Txs int
	ByNote                 map[string]int
	Failed, Succeeded      int
	ValUpdateBlocks        int
	Errors                 []string
	DistinctNontrivial     int
	Samples                []string
}

// GenerateCases produces n histories and writes them as one Coq case file
func GenerateCases(seed int64, n, blocks int, outPath, scratch, jsonPath, profile string) (*AppStats, error) {
	st := &AppStats{ByNote: map[string]int{}}
	var sb strings.Builder
	ResetSyms()
	var hs []*History
	for i := 0; i < n; i++ {
		h, err := Generate(seed*100000+int64(i), blocks, scratch, profile)
		if err != nil {
			return nil, fmt.Errorf("history %d: %v", i, err)
		}
		if h.Err != "" {
			st.Errors = append(st.Errors, fmt.Sprintf("history %d (seed %d): %s", i, h.Seed, h.Err))
		}
		hs = append(hs, h)
		if i > 0 {
			sb.WriteString(";\n")
		}
		sb.WriteString(h.CoqCase())
		st.Histories++
		st.Blocks += len(h.Blocks)
		nontrivial := false
		for k, v := range h.Stats {
			if strings.HasPrefix(k, "tx:") {
				st.ByNote[k[3:]] += v
				st.Txs += v
				if strings.HasSuffix(k, ":code0") {
					st.Succeeded += v
				} else {
					st.Failed += v
				}
			}
		}
		for k, v := range h.Stats {
			if strings.HasPrefix(k, "ev:") || strings.HasPrefix(k, "why:") {
				st.ByNote[k] += v
			}
		}
		if h.Stats["blocks-with-valupdates"] > 0 {
			st.ValUpdateBlocks += h.Stats["blocks-with-valupdates"]
			nontrivial = true
		}
		if nontrivial {
			st.DistinctNontrivial++
		}
		_ = os.RemoveAll(fmt.Sprintf("%s/gen-%d", scratch, h.Seed))
	}
	sb.WriteString("\n].\n")
	sb.WriteString("Definition bad := Eval vm_compute in check_acases cases.\nPrint bad.\n")
	if jsonPath != "" {
		bz, _ := json.Marshal(hs)
		if err := os.WriteFile(jsonPath, bz, 0o644); err != nil {
			return nil, err
		}
	}
	head := "From Rigo Require Import Base.\nFrom stdpp Require Import gmap.\nFrom Rigo Require Import Spec AppRun.\nLocal Open Scope Z_scope.\n" +
		SymDefs() + "Definition cases : list acase := [\n"
	return st, os.WriteFile(outPath, []byte(head+sb.String()), 0o644)
}
