package apph

import (
	"encoding/hex"

	"github.com/ethereum/go-ethereum/common"
	ethcrypto "github.com/ethereum/go-ethereum/crypto"

	"fmt"
	ctrlertypes "github.com/rigochain/rigo-go/ctrlers/types"
	"math/big"
	"math/rand"
	"sort"
	"strings"
)

// ---------------------------------------------------------------- recorded history

type History struct {
	Seed    int64
	Genesis Genesis
	Blocks  []*BlockSpec
	Obs     []*BlockObs
	Snaps   []*Snap // one per committed block, taken at the end with the full watch lists
	WatchA  [][]byte
	WatchH  [][]byte
	Keys    map[string]Key `json:"-"`
	StrTab  map[string]int
	OptTab  map[string]int
	Stats   map[string]int
	Err     string
}

type stakeInfo struct {
	Hash, From, To []byte
	Power          int64
}
type propInfo struct {
	Hash              []byte
	Start, End, Apply int64
	NOpts             int
	Voters            [][]byte
}

type Sim struct {
	rng            *rand.Rand
	H              *History
	node           *Node
	users          []Key
	vals           []Key
	all            []Key
	height         int64
	sets           map[int64][]ValUp // validator set that signs block h
	nonces         map[string]uint64
	bal            map[string]*big.Int
	stakes         []stakeInfo
	props          []propInfo
	params         Params
	rewards        map[string]*big.Int
	recent         []*Built // recently delivered transactions (for replays)
	profile        string
	pending        []*TxSpec         // follow-up transactions of multi-step generator moves
	lastSig        map[string][]byte // signature bytes of the last successful transaction per sender
	script         func(s *Sim, h int64) []*TxSpec
	contracts      [][]byte          // deployed contract addresses (top-level deployments)
	scriptEvidence [][]byte          // evidence a script wants in the current block
	progOf         map[string]string // deployed contract address -> program name
	ties           bool              // tie-prone flavour: stake amounts from a small set
	bigGas         bool              // mainnet-scale gas price: some gas limits make gas x price exceed 64 bits
	scriptKeep     *TxSpec           // a scripted transaction kept for a later block of the same scenario
	scriptOldGas   uint64            // a scripted scenario's memory of the minimum gas before its proposal
	scriptMiss     [][]byte          // validators a script reports as not having signed the previous block
}

var e18 = new(big.Int).Exp(big.NewInt(10), big.NewInt(18), nil)

func rigo(n int64) string { return new(big.Int).Mul(big.NewInt(n), e18).String() }

func pickParams(rng *rand.Rand) Params {
	p := Params{
		Version: 1, MaxValidatorCnt: int64(2 + rng.Intn(4)),
		MinValidatorStake: rigo(int64(1 + rng.Intn(5))), MinDelegatorStake: []string{"0", rigo(1), rigo(2)}[rng.Intn(3)],
		RewardPerPower: fmt.Sprint(1000 + rng.Intn(5000)), LazyRewardBlocks: int64(1 + rng.Intn(5)),
		LazyApplyingBlocks: int64(1 + rng.Intn(3)), GasPrice: fmt.Sprint(1 + rng.Intn(50)),
		MinTrxGas: uint64(10 + rng.Intn(500)), MaxTrxGas: 1 << 40, MaxBlockGas: 1 << 50,
		MinVotingPeriodBlocks: int64(1 + rng.Intn(2)), MaxVotingPeriodBlocks: int64(3 + rng.Intn(6)),
		MinSelfStakeRatio: int64(10 + rng.Intn(41)), MaxUpdatableStakeRatio: int64(33 + rng.Intn(68)),
		MaxIndividualStakeRatio: int64(40 + rng.Intn(61)), SlashRatio: int64(10 + rng.Intn(41)),
		SignedBlocksWindow: int64(5 + rng.Intn(6)), MinSignedBlocks: int64(2 + rng.Intn(3)),
	}
	return p
}

func NewSim(seed int64, scratch string, profile string) (*Sim, error) {
	return newSimWith(seed, scratch, profile, 0, 0, nil)
}

func newSimWith(seed int64, scratch string, profile string, nvals, nusers int, tweak func(*Genesis)) (*Sim, error) {
	rng := rand.New(rand.NewSource(seed))
	s := &Sim{rng: rng, sets: map[int64][]ValUp{}, nonces: map[string]uint64{}, bal: map[string]*big.Int{},
		rewards: map[string]*big.Int{}, profile: profile}
	nv := 1 + rng.Intn(5)
	if profile == "limiter" || rng.Intn(3) == 0 {
		nv = 3 + rng.Intn(3)
	}
	nu := 3 + rng.Intn(4)
	if nvals > 0 {
		nv, nu = nvals, nusers
	}
	// flavours are chosen by shard number + index within the shard (history seeds are shard*100000 + index),
	// so that the few histories of a quick run fall into consecutive residue classes
	fl := seed
	if seed >= 100000 {
		fl = seed/100000 + seed%100000
	}
	g := Genesis{ChainID: fmt.Sprintf("verif-chain-%d", seed%7), Params: pickParams(rng)}
	if fl%5 == 2 && nvals == 0 {
		// flavour: a reward per power beyond 64 bits (the parameter is a 256-bit number; rewards are too)
		g.Params.RewardPerPower = new(big.Int).Add(new(big.Int).Lsh(big.NewInt(1), uint(62+rng.Intn(5))), big.NewInt(int64(rng.Intn(1000)))).String()
	}
	if fl%11 == 4 && nvals == 0 {
		// flavour: a chain without fees (gas price 0 is a legal parameter value): nobody's balance moves
		// when a transaction only pays for gas, so nonces are the only trace a sender leaves
		g.Params.GasPrice = "0"
	}
	if fl%7 == 3 && nvals == 0 {
		// flavour: the gas price of the public network (250 Gfons) and its minimum gas; with gas limits of
		// 10^8 and more the fee gas x price no longer fits 64 bits (it is a 256-bit amount everywhere)
		g.Params.GasPrice, g.Params.MinTrxGas = "250000000000", 4000
		g.Params.MaxTrxGas = 25000000 // the public network's value; some gas limits below exceed it (nothing enforces it)
		s.bigGas = true
	}
	if g.Params.MaxValidatorCnt < int64(nv) { // the genesis validators satisfy the validator limits
		g.Params.MaxValidatorCnt = int64(nv)
	}
	keys := map[string]Key{}
	for i := 0; i < nv; i++ {
		k := NewKey(fmt.Sprintf("s%d-val%d", seed, i))
		s.vals = append(s.vals, k)
		keys[k.Name] = k
		pw := int64(10 + rng.Intn(90))
		if fl%4 == 1 && nvals == 0 { // tie-prone flavour: equal powers, so the ranking's tie-breakers decide
			pw = 15
			s.ties = true
		}
		g.Vals = append(g.Vals, GenVal{Key: k, Power: pw})
		if rng.Intn(4) > 0 {
			g.Holders = append(g.Holders, Holder{Addr: k.Addr, Balance: rigo(int64(100 + rng.Intn(900)))})
		}
	}
	for i := 0; i < nu; i++ {
		k := NewKey(fmt.Sprintf("s%d-user%d", seed, i))
		s.users = append(s.users, k)
		keys[k.Name] = k
		g.Holders = append(g.Holders, Holder{Addr: k.Addr, Balance: rigo(int64(200 + rng.Intn(2000)))})
	}
	if tweak != nil {
		tweak(&g)
	}
	stranger := NewKey(fmt.Sprintf("s%d-stranger", seed)) // has no account
	keys[stranger.Name] = stranger
	s.all = append(append([]Key{}, s.vals...), s.users...)
	s.params = g.Params
	s.H = &History{Seed: seed, Genesis: g, Keys: keys, StrTab: map[string]int{"": 0}, OptTab: map[string]int{}, Stats: map[string]int{}}
	for _, k := range s.all {
		s.H.WatchA = append(s.H.WatchA, k.Addr)
	}
	s.H.WatchA = append(s.H.WatchA, stranger.Addr, make([]byte, 20))
	n, info, err := OpenNode(freshDir(scratch, fmt.Sprintf("gen-%d", seed)))
	if err != nil {
		return nil, err
	}
	if info.LastBlockHeight != 0 {
		return nil, fmt.Errorf("fresh node reports height %d", info.LastBlockHeight)
	}
	s.node = n
	if err := n.InitChain(g); err != nil {
		return nil, err
	}
	var set []ValUp
	for _, v := range g.Vals {
		set = append(set, ValUp{Addr: v.Key.Addr, Power: v.Power})
	}
	s.sets[1], s.sets[2] = set, set
	// at most one genesis stake (they all carry hash 0) is offered for unstaking by the random
	// generator: two of them unbonding at once collide in the frozen ledger (known finding)
	if len(g.Vals) > 0 {
		v := g.Vals[rng.Intn(len(g.Vals))]
		s.stakes = append(s.stakes, stakeInfo{Hash: make([]byte, 32), From: v.Key.Addr, To: v.Key.Addr, Power: v.Power})
	}
	for _, h := range g.Holders {
		b, _ := new(big.Int).SetString(h.Balance, 10)
		s.bal[string(h.Addr)] = b
	}
	return s, nil
}

func applyUps(set []ValUp, ups []ValUp) []ValUp {
	m := map[string]int64{}
	for _, v := range set {
		m[string(v.Addr)] = v.Power
	}
	for _, u := range ups {
		if u.Power == 0 {
			delete(m, string(u.Addr))
		} else {
			m[string(u.Addr)] = u.Power
		}
	}
	var out []ValUp
	for a, p := range m {
		out = append(out, ValUp{Addr: []byte(a), Power: p})
	}
	sort.Slice(out, func(i, j int) bool { return string(out[i].Addr) < string(out[j].Addr) })
	return out
}

func (s *Sim) key(addr []byte) (Key, bool) {
	for _, k := range s.H.Keys {
		if string(k.Addr) == string(addr) {
			return k, true
		}
	}
	return Key{}, false
}

func (s *Sim) strID(x string) int {
	if id, ok := s.H.StrTab[x]; ok {
		return id
	}
	id := len(s.H.StrTab)
	s.H.StrTab[x] = id
	return id
}
func (h *History) optID(raw []byte) int {
	if id, ok := h.OptTab[string(raw)]; ok {
		return id
	}
	id := len(h.OptTab) + 1
	h.OptTab[string(raw)] = id
	return id
}

func (s *Sim) balOf(a []byte) *big.Int {
	if b, ok := s.bal[string(a)]; ok {
		return b
	}
	return big.NewInt(0)
}

func (s *Sim) baseTx(ty int32, from Key, to []byte) *TxSpec {
	gas := s.params.MinTrxGas + uint64(s.rng.Intn(50))
	if s.bigGas && s.rng.Intn(12) == 0 {
		gas = uint64(80000000 + s.rng.Intn(400000000))
	}
	return &TxSpec{Type: ty, From: from.Addr, To: to, Amount: "0", GasPrice: s.params.GasPrice, Gas: gas,
		Nonce: s.nonces[string(from.Addr)], Time: int64(1_700_000_000_000_000_000) + s.height*1000 + int64(s.rng.Intn(1000)),
		SignerLabel: from.Name}
}

func (s *Sim) pick(ks []Key) Key { return ks[s.rng.Intn(len(ks))] }

func frac(b *big.Int, num, den int64) string {
	x := new(big.Int).Mul(b, big.NewInt(num))
	return x.Div(x, big.NewInt(den)).String()
}

// genTx draws one transaction; mostly valid, with a separate stream of invalid ones
func (s *Sim) genTx() *TxSpec {
	if len(s.pending) > 0 {
		t := s.pending[0]
		s.pending = s.pending[1:]
		t.Nonce = s.nonces[string(t.From)]
		return t
	}
	t := s.genTx0()
	// block 1: no staking (known finding "block-1 staking": the votes of blocks 2-4 carry genesis
	// powers while the earliest readable ledger version already contains block 1's stakes)
	// and no unstaking of a genesis stake (known finding "genesis validator leaves in block 1")
	for s.height == 1 && (t.Type == 2 || (t.Type == 3 && isZero(t.UnstakeHash))) {
		t = s.genTx0()
	}
	return t
}

func (s *Sim) genTx0() *TxSpec {
	r := s.rng
	zero := make([]byte, 20)
	if s.profile != "noevm" && s.script == nil {
		if e := r.Intn(100); e < 3 || (e < 10 && len(s.contracts) > 0) {
			if t := s.genEvmTx(e < 3 || len(s.contracts) == 0); t != nil {
				return t
			}
		}
	}
	k := r.Intn(100)
	switch {
	case k < 20: // transfer
		from, to := s.pick(s.all), s.pick(s.all)
		t := s.baseTx(1, from, to.Addr)
		t.Amount = frac(s.balOf(from.Addr), int64(1+r.Intn(5)), 40)
		t.Note = "transfer"
		if r.Intn(6) == 0 {
			t.To = NewKey(fmt.Sprintf("fresh-%d-%d", s.H.Seed, r.Intn(3))).Addr
			t.Note = "transfer-to-fresh"
			s.watchAddr(t.To)
		}
		if r.Intn(10) == 0 {
			t.To = from.Addr
			t.Note = "transfer-to-self"
		}
		return t
	case k < 28: // self staking (become / grow validator)
		from := s.pick(s.all)
		t := s.baseTx(2, from, from.Addr)
		t.Amount = rigo(int64(1 + r.Intn(20)))
		if s.ties {
			t.Amount = rigo([]int64{5, 10, 15}[r.Intn(3)])
		}
		t.Note = "stake-self"
		return t
	case k < 40: // delegating
		from := s.pick(s.all)
		to := s.pick(s.all)
		if r.Intn(3) > 0 && len(s.sets[s.height]) > 0 {
			to, _ = s.key(s.sets[s.height][r.Intn(len(s.sets[s.height]))].Addr)
		}
		t := s.baseTx(2, from, to.Addr)
		t.Amount = rigo(int64(1 + r.Intn(10)))
		if s.ties {
			t.Amount = rigo(5)
		}
		t.Note = "delegate"
		return t
	case k < 52: // unstaking
		if len(s.stakes) == 0 {
			return s.genTx0()
		}
		st := s.stakes[r.Intn(len(s.stakes))]
		owner, _ := s.key(st.From)
		t := s.baseTx(3, owner, st.To)
		t.UnstakeHash = st.Hash
		t.Note = "unstake"
		switch r.Intn(10) {
		case 0:
			other := s.pick(s.all)
			t = s.baseTx(3, other, st.To)
			t.UnstakeHash = st.Hash
			t.Note = "unstake-not-owner"
			if string(other.Addr) == string(st.From) {
				t.Note = "unstake"
			}
		case 1:
			t.UnstakeHash = append([]byte(nil), st.Hash...)
			t.UnstakeHash[3] ^= 0xff
			t.Note = "unstake-unknown-hash"
		case 2:
			t.UnstakeHash = st.Hash[:31]
			t.Note = "unstake-short-hash"
		case 3:
			// a well-formed release addressed to an account that is (probably) no delegatee at all
			t = s.baseTx(3, owner, s.pick(s.users).Addr)
			t.UnstakeHash = st.Hash
			t.Note = "unstake-from-non-delegatee"
			if string(t.To) == string(st.To) {
				t.Note = "unstake"
			}
		}
		return t
	case k < 60: // withdraw
		from := s.pick(s.all)
		t := s.baseTx(8, from, zero)
		rw := s.rewards[string(from.Addr)]
		if rw == nil {
			rw = big.NewInt(0)
		}
		switch r.Intn(5) {
		case 0:
			t.WithdrawReq = "0"
			t.Note = "withdraw-zero"
		case 1:
			t.WithdrawReq = new(big.Int).Add(rw, big.NewInt(int64(1+r.Intn(1000)))).String()
			t.Note = "withdraw-excessive"
		case 2:
			t.WithdrawReq = rw.String()
			t.Note = "withdraw-exact"
		default:
			t.WithdrawReq = frac(rw, int64(1+r.Intn(3)), 4)
			t.Note = "withdraw-partial"
		}
		return t
	case k < 65: // setdoc
		from := s.pick(s.all)
		t := s.baseTx(7, from, zero)
		t.DocName = fmt.Sprintf("name-%d", r.Intn(4))
		t.DocURL = fmt.Sprintf("https://doc/%d", r.Intn(4))
		t.Note = "setdoc"
		if r.Intn(8) == 0 {
			// one of the two fields over its limit, the other one fine and new
			if r.Intn(2) == 0 {
				t.DocName = strings.Repeat("x", 2049)
			} else {
				t.DocName = fmt.Sprintf("other-name-%d", r.Intn(4))
				t.DocURL = "https://doc/" + strings.Repeat("y", 2049)
			}
			t.Note = "setdoc-too-long"
		}
		return t
	case k < 71: // proposal
		var from Key
		if lv := s.lastVals(); len(lv) > 0 && r.Intn(6) > 0 {
			from, _ = s.key(lv[r.Intn(len(lv))])
		} else {
			from = s.pick(s.all)
		}
		t := s.baseTx(4, from, zero)
		start := s.height + int64(1+r.Intn(2))
		period := s.params.MinVotingPeriodBlocks + int64(r.Intn(int(s.params.MaxVotingPeriodBlocks-s.params.MinVotingPeriodBlocks)+1))
		apply := start + period + s.params.LazyApplyingBlocks + int64(r.Intn(3))
		p := &PropSpec{Message: "m", Start: start, Period: period, Apply: apply, OptType: 257}
		nopt := 1 + r.Intn(3)
		for i := 0; i < nopt; i++ {
			np := Params{}
			switch r.Intn(6) {
			case 0:
				np.GasPrice = fmt.Sprint(1 + r.Intn(60))
			case 1:
				np.LazyRewardBlocks = int64(1 + r.Intn(6))
				np.MinTrxGas = uint64(10 + r.Intn(300))
			case 2:
				np.SlashRatio = int64(5 + r.Intn(60))
				np.MaxValidatorCnt = int64(1 + r.Intn(5))
			case 3:
				np.RewardPerPower = fmt.Sprint(500 + r.Intn(9000))
				np.MinValidatorStake = rigo(int64(1 + r.Intn(6)))
			case 4:
				np.SignedBlocksWindow = int64(4 + r.Intn(8))
				np.MinSignedBlocks = int64(1 + r.Intn(4))
			default:
				np.MaxUpdatableStakeRatio = int64(30 + r.Intn(70))
				np.MaxIndividualStakeRatio = int64(30 + r.Intn(70))
				np.MinSelfStakeRatio = int64(5 + r.Intn(50))
			}
			np.Version = int64(2 + len(s.props))
			pc := np
			p.Options = append(p.Options, OptSpec{Raw: np.JSON(true), Params: &pc})
		}
		t.Prop = p
		t.Note = "proposal"
		switch r.Intn(12) {
		case 0:
			p.Start = s.height
			t.Note = "proposal-start-not-future"
		case 1:
			p.Period = s.params.MaxVotingPeriodBlocks + 1
			t.Note = "proposal-period-too-long"
		case 2:
			p.Apply = p.Start + p.Period + s.params.LazyApplyingBlocks - 1
			t.Note = "proposal-apply-too-early"
		case 3:
			p.Options[0] = OptSpec{Raw: []byte("{not json"), Params: nil}
			t.Note = "proposal-bad-option"
		}
		return t
	case k < 83: // voting
		if len(s.props) == 0 {
			return s.genTx0()
		}
		if r.Intn(4) > 0 { // forget proposals whose window has closed
			var live []propInfo
			for _, q := range s.props {
				if s.height <= q.End {
					live = append(live, q)
				}
			}
			if len(live) == 0 {
				return s.genTx0()
			}
			s.props = live
		}
		p := s.props[r.Intn(len(s.props))]
		if r.Intn(5) > 0 { // mostly a proposal whose voting window is open
			var open []propInfo
			for _, q := range s.props {
				if q.Start <= s.height && s.height <= q.End {
					open = append(open, q)
				}
			}
			if len(open) > 0 {
				p = open[r.Intn(len(open))]
			}
		}
		var from Key
		if len(p.Voters) > 0 && r.Intn(8) > 0 {
			from, _ = s.key(p.Voters[r.Intn(len(p.Voters))])
		} else {
			from = s.pick(s.all)
		}
		t := s.baseTx(5, from, zero)
		t.VoteHash = p.Hash
		t.VoteChoice = int32(r.Intn(p.NOpts))
		t.Note = "vote"
		if r.Intn(10) == 0 {
			t.VoteChoice = int32(p.NOpts + r.Intn(2))
			t.Note = "vote-bad-choice"
		}
		if r.Intn(12) == 0 {
			t.VoteChoice = -1
			t.Note = "vote-negative-choice"
		}
		return t
	default: // invalid / adversarial stream
		if cur := s.sets[s.height]; len(cur) >= 3 && r.Intn(8) == 0 {
			// a forged (un)staking transaction followed, in the same block, by honest staking to the same
			// validator: the forged one must fail WITHOUT effect, also on the limits the next one is judged by
			v, _ := s.key(cur[r.Intn(len(cur))].Addr)
			f := s.baseTx(2, s.pick(s.all), v.Addr)
			f.Amount = rigo(int64(1 + r.Intn(3)))
			f.Tamper = "sig"
			f.Note = "forged-staking-before-honest"
			if r.Intn(2) == 0 {
				other := s.pick(s.all)
				f.Tamper, f.SignerLabel = "", other.Name
				if string(other.Addr) == string(f.From) {
					f.Tamper = "sig"
				}
			}
			h1 := s.baseTx(2, s.pick(s.all), v.Addr)
			h1.Amount = rigo(int64(1 + r.Intn(3)))
			h1.Note = "honest-staking-after-forged"
			s.pending = append(s.pending, h1)
			return f
		}
		base := s.genValidish()
		switch r.Intn(15) {
		case 12: // a signature that verified for an earlier transaction of this sender, on a new transaction
			if sig, ok := s.lastSig[string(base.From)]; ok {
				base.Tamper = "reuse-sig:" + hex.EncodeToString(sig)
				base.Note = "reused-signature"
			}
		case 13, 14: // balance covers the amount but not amount + fee (two steps: first leave such a balance)
			from := s.pick(s.all)
			bal := s.balOf(from.Addr)
			fee := new(big.Int).Mul(big.NewInt(int64(s.params.MinTrxGas+60)), u256(s.params.GasPrice).ToBig())
			k := new(big.Int).Div(new(big.Int).Sub(bal, new(big.Int).Mul(fee, big.NewInt(3))), e18)
			k.Sub(k, big.NewInt(int64(r.Intn(3))))
			if k.Sign() > 0 {
				delta := big.NewInt(int64(r.Intn(int(fee.Int64())/2 + 1)))
				keep := new(big.Int).Add(new(big.Int).Mul(k, e18), delta)
				t1 := s.baseTx(1, from, s.pick(s.all).Addr)
				gas1 := new(big.Int).Mul(big.NewInt(int64(t1.Gas)), u256(s.params.GasPrice).ToBig())
				out := new(big.Int).Sub(new(big.Int).Sub(bal, gas1), keep)
				if out.Sign() > 0 && string(t1.To) != string(from.Addr) {
					t1.Amount = out.String()
					t1.Note = "edge-prepare"
					var t2 *TxSpec
					switch r.Intn(3) {
					case 0:
						t2 = s.baseTx(2, from, from.Addr)
						t2.Amount = new(big.Int).Mul(k, e18).String()
						t2.Note = "edge-selfstake-amount-covered-fee-not"
					case 1:
						to := s.pick(s.all)
						if cur := s.sets[s.height]; len(cur) > 0 {
							to, _ = s.key(cur[r.Intn(len(cur))].Addr)
						}
						t2 = s.baseTx(2, from, to.Addr)
						t2.Amount = new(big.Int).Mul(k, e18).String()
						t2.Note = "edge-delegate-amount-covered-fee-not"
					default:
						t2 = s.baseTx(1, from, s.pick(s.all).Addr)
						t2.Amount = new(big.Int).Sub(keep, big.NewInt(int64(r.Intn(3)))).String()
						t2.Note = "edge-transfer-amount-covered-fee-not"
					}
					s.pending = append(s.pending, t2)
					return t1
				}
			}
		case 0:
			base.Nonce += uint64(1 + r.Intn(3))
			base.Note = "bad-nonce-high"
		case 1:
			if base.Nonce > 0 {
				base.Nonce--
			}
			base.Note = "bad-nonce-low"
		case 2:
			base.GasPrice = fmt.Sprint(num(base.GasPrice) + 1)
			switch r.Intn(3) {
			case 0:
				base.GasPrice = fmt.Sprint(num(base.GasPrice) * 3)
			case 1:
				if p := num(base.GasPrice); p > 2 {
					base.GasPrice = fmt.Sprint(p - 2)
				}
			}
			base.Note = "bad-gasprice"
		case 3:
			base.Gas = s.params.MinTrxGas - 1
			base.Note = "low-gas"
		case 4:
			base.Tamper = "sig"
			base.Note = "tamper-sig"
		case 5:
			base.Tamper = []string{"amount", "to", "gas", "time", "version-0", "version-2"}[r.Intn(6)]
			base.Note = "tamper-" + base.Tamper
		case 6:
			base.SignChain = "other-chain"
			base.Note = "wrong-chain"
		case 7:
			other := s.pick(s.all)
			base.SignerLabel = other.Name
			base.Note = "signed-by-other"
			if string(other.Addr) == string(base.From) {
				base.Note = "transfer"
			}
		case 8:
			st := s.H.Keys[fmt.Sprintf("s%d-stranger", s.H.Seed)]
			base.From, base.SignerLabel, base.Nonce = st.Addr, st.Name, 0
			base.Note = "unknown-sender"
		case 9:
			if base.Type == 1 {
				base.Amount = new(big.Int).Add(s.balOf(base.From), big.NewInt(1)).String()
				base.Note = "insufficient-funds"
			}
		case 10:
			if base.Type == 1 {
				base.Amount = new(big.Int).Lsh(big.NewInt(1), 255).String()
				base.Note = "amount-2^255"
			}
		default:
			if base.Type == 2 {
				base.Amount = new(big.Int).Add(u256(base.Amount).ToBig(), big.NewInt(1)).String()
				base.Note = "stake-not-multiple"
			}
		}
		return base
	}
}

func (s *Sim) genValidish() *TxSpec {
	for {
		t := s.genTxNoInvalid()
		if t != nil {
			return t
		}
	}
}
func (s *Sim) genTxNoInvalid() *TxSpec {
	from, to := s.pick(s.all), s.pick(s.all)
	if s.rng.Intn(3) == 0 {
		t := s.baseTx(2, from, from.Addr)
		t.Amount = rigo(int64(1 + s.rng.Intn(5)))
		t.Note = "stake-self"
		return t
	}
	t := s.baseTx(1, from, to.Addr)
	t.Amount = frac(s.balOf(from.Addr), 1, 50)
	t.Note = "transfer"
	return t
}

func (s *Sim) watchAddr(a []byte) {
	for _, x := range s.H.WatchA {
		if string(x) == string(a) {
			return
		}
	}
	s.H.WatchA = append(s.H.WatchA, a)
}

// Step generates, runs and records one block on the generator's node
func (s *Sim) Step() error {
	r := s.rng
	s.height++
	h := s.height
	b := &BlockSpec{Height: h}
	cur := s.sets[h]
	if len(cur) > 0 && r.Intn(12) > 0 {
		b.Proposer = cur[r.Intn(len(cur))].Addr
	}
	if h >= 2 {
		for _, v := range s.sets[h-1] {
			signed := r.Intn(100) < 88
			// one flaky validator per history misses most blocks, to reach the jailing rule
			if len(s.vals) > 1 && string(v.Addr) == string(s.vals[len(s.vals)-1].Addr) && s.H.Seed%3 == 0 {
				signed = r.Intn(100) < 35
			}
			b.Votes = append(b.Votes, Vote{Addr: v.Addr, Power: v.Power, Signed: signed})
		}
	}
	// (block 1 carries no evidence: evidence is about an earlier height, and there is none)
	if h >= 2 && r.Intn(14) == 0 && len(s.all) > 0 {
		if len(cur) > 0 && r.Intn(3) > 0 {
			b.Evidence = append(b.Evidence, cur[r.Intn(len(cur))].Addr)
		} else {
			b.Evidence = append(b.Evidence, s.pick(s.all).Addr)
		}
		if r.Intn(4) == 0 {
			b.Evidence = append(b.Evidence, s.pick(s.all).Addr)
		}
	}
	ntx := r.Intn(7)
	if r.Intn(5) == 0 {
		ntx = 0
	}
	var scripted []*TxSpec
	if s.script != nil {
		scripted = s.script(s, h)
		ntx = len(scripted)
		b.Evidence = s.scriptEvidence
		s.scriptEvidence = nil
		for i := range b.Votes {
			b.Votes[i].Signed = true
			for _, m := range s.scriptMiss {
				if string(m) == string(b.Votes[i].Addr) {
					b.Votes[i].Signed = false
				}
			}
		}
		s.scriptMiss = nil
		if len(cur) > 0 {
			b.Proposer = cur[0].Addr
		}
	}
	// transactions are generated one by one against the shadow, which is updated from the node's answers
	o := &BlockObs{}
	o.Issued, o.BeginEvts, o.BeginPanic = s.node.Begin(b)
	if o.BeginPanic != "" {
		s.H.Blocks, s.H.Obs = append(s.H.Blocks, b), append(s.H.Obs, o)
		return fmt.Errorf("BeginBlock panicked at height %d: %s", h, o.BeginPanic)
	}
	for i := 0; i < ntx || (s.script == nil && len(s.pending) > 0 && i < ntx+4); i++ {
		var bt *Built
		if s.script == nil && len(s.recent) > 0 && r.Intn(14) == 0 {
			old := s.recent[r.Intn(len(s.recent))]
			cp := *old.Spec
			cp.Note = "replay"
			bt = &Built{Spec: &cp, Bytes: old.Bytes, Hash: old.Hash, SigOK: old.SigOK}
		} else {
			spec := (*TxSpec)(nil)
			if s.script != nil {
				spec = scripted[i]
			} else {
				spec = s.genTx()
			}
			var err error
			bt, err = Build(spec, s.H.Keys, s.H.Genesis.ChainID)
			if err != nil {
				return err
			}
		}
		before := s.readBeforeEvm(bt)
		d := s.node.Deliver(bt.Spec.Type, bt.Bytes)
		if d.Panic == "" {
			s.observeEvm(bt, d, before)
		}
		b.Txs = append(b.Txs, bt)
		o.Delivers = append(o.Delivers, d)
		s.H.Stats["tx:"+bt.Spec.Note+fmt.Sprintf(":code%d", d.Code)]++
		if d.Code != 0 {
			s.H.Stats[fmt.Sprintf("why:%s:r%d", bt.Spec.Note, d.Reason)]++
		}
		if d.Panic != "" {
			s.H.Blocks, s.H.Obs = append(s.H.Blocks, b), append(s.H.Obs, o)
			return fmt.Errorf("DeliverTx panicked: %s", d.Panic)
		}
		s.learn(bt, d)
	}
	o.ValUpdates, o.EndEvts, o.EndPanic = s.node.End(h)
	if o.EndPanic != "" {
		s.H.Blocks, s.H.Obs = append(s.H.Blocks, b), append(s.H.Obs, o)
		return fmt.Errorf("EndBlock panicked at height %d: %s", h, o.EndPanic)
	}
	o.AppHash, o.CommitPanic = s.node.Commit()
	if o.CommitPanic != "" {
		s.H.Blocks, s.H.Obs = append(s.H.Blocks, b), append(s.H.Obs, o)
		return fmt.Errorf("Commit panicked at height %d: %s", h, o.CommitPanic)
	}
	o.TreeOps, o.Writes = lastTreeOps, lastWrites
	o.Frozen = s.node.FrozenStakes()
	s.H.Blocks, s.H.Obs = append(s.H.Blocks, b), append(s.H.Obs, o)
	s.sets[h+2] = applyUps(s.sets[h+1], o.ValUpdates)
	if _, ok := s.sets[h+3]; !ok {
		s.sets[h+3] = nil
	}
	if len(o.ValUpdates) > 0 {
		s.H.Stats["blocks-with-valupdates"]++
	}
	for _, e := range o.BeginEvts {
		if strings.HasPrefix(e, "punishment.stake") && !strings.Contains(e, "slashed=0}") {
			s.H.Stats["ev:slash"]++
		}
		if strings.HasPrefix(e, "punishment.gov") && !strings.Contains(e, "slashed=0}") {
			s.H.Stats["ev:slash-gov"]++
		}
		if strings.HasPrefix(e, "reward") && !strings.Contains(e, "issued=0}") {
			s.H.Stats["ev:reward-block"]++
		}
	}
	for _, e := range o.EndEvts {
		for _, k := range []string{"frozen", "removed", "applied"} {
			if strings.HasPrefix(e, "proposal{"+k) {
				s.H.Stats["ev:proposal-"+k]++
			}
		}
	}
	if len(s.H.Obs) >= 2 {
		prev := s.H.Obs[len(s.H.Obs)-2].Frozen
		if len(o.Frozen) < len(prev) {
			s.H.Stats["ev:refund-block"]++
		}
		if len(o.Frozen) > len(prev)+0 {
			s.H.Stats["ev:freeze-block"]++
		}
	}
	s.refreshShadow()
	return nil
}

// learn updates the generator's shadow from the node's answer (steering only, never an oracle)
func (s *Sim) learn(bt *Built, d DeliverObs) {
	t := bt.Spec
	s.recent = append(s.recent, bt)
	if len(s.recent) > 12 {
		s.recent = s.recent[1:]
	}
	if d.Code != 0 {
		return
	}
	s.nonces[string(t.From)]++
	if s.lastSig == nil {
		s.lastSig = map[string][]byte{}
	}
	if tx := new(ctrlertypes.Trx); tx.Decode(bt.Bytes) == nil {
		s.lastSig[string(t.From)] = tx.Sig
	}
	switch t.Type {
	case 2:
		s.stakes = append(s.stakes, stakeInfo{Hash: bt.Hash, From: t.From, To: t.To, Power: new(big.Int).Div(u256(t.Amount).ToBig(), e18).Int64()})
	case 3:
		for i, st := range s.stakes {
			if string(st.Hash) == string(t.UnstakeHash) {
				s.stakes = append(s.stakes[:i], s.stakes[i+1:]...)
				break
			}
		}
	case 4:
		var voters [][]byte
		for _, v := range s.lastVals() {
			voters = append(voters, v)
		}
		s.props = append(s.props, propInfo{Hash: bt.Hash, Start: t.Prop.Start, End: t.Prop.Start + t.Prop.Period, Apply: t.Prop.Apply,
			NOpts: len(t.Prop.Options), Voters: voters})
		s.H.WatchH = append(s.H.WatchH, bt.Hash)
	}
}

func (s *Sim) lastVals() [][]byte {
	var out [][]byte
	_ = guard(func() {
		as, _ := s.node.App.VerifStakeCtrler().VerifLastValidators()
		out = as
	})
	return out
}

// refreshShadow re-reads balances, rewards and parameters of the latest commit (steering only)
func (s *Sim) refreshShadow() {
	for _, k := range s.all {
		if r, p := s.node.Query("account", k.Addr, 0); p == "" && r.Code == 0 {
			m := decode(r.Value)
			b, _ := new(big.Int).SetString(str(m["balance"]), 10)
			if b != nil {
				s.bal[string(k.Addr)] = b
			}
		}
		if r, p := s.node.Query("reward", k.Addr, 0); p == "" && r.Code == 0 {
			m := decode(r.Value)
			b, _ := new(big.Int).SetString(str(m["cumulated"]), 10)
			if b != nil {
				s.rewards[string(k.Addr)] = b
			}
		}
	}
	if r, p := s.node.Query("gov_params", nil, 0); p == "" && r.Code == 0 {
		s.params = paramsOf(decode(r.Value))
	}
	// stakes that were force-released (jailing, validator leaving) disappear from the shadow lazily:
	// an unstake of a vanished stake is simply one more failing transaction
}

// Generate produces a history of nBlocks blocks and the end-of-run snapshots
func Generate(seed int64, nBlocks int, scratch, profile string) (*History, error) {
	s, err := NewSim(seed, scratch, profile)
	if err != nil {
		return nil, err
	}
	defer s.node.Close()
	for i := 0; i < nBlocks; i++ {
		if err := s.Step(); err != nil {
			s.H.Err = err.Error()
			break
		}
	}
	if err := s.finish(); err != nil {
		return s.H, err
	}
	s.H.Stats["blocks"] = len(s.H.Blocks)
	return s.H, nil
}

func hx(b []byte) string { return hex.EncodeToString(b) }

// Scripted runs a hand-written scenario: fixed genesis, per-block transaction lists
func Scripted(name string, seed int64, scratch string, nvals, nusers int, tweak func(*Genesis), blocks int,
	script func(s *Sim, h int64) []*TxSpec) (*History, error) {
	s, err := newSimWith(seed, scratch, "script:"+name, nvals, nusers, tweak)
	if err != nil {
		return nil, err
	}
	defer s.node.Close()
	s.script = script
	for i := 0; i < blocks; i++ {
		if err := s.Step(); err != nil {
			s.H.Err = err.Error()
			break
		}
	}
	if err := s.finish(); err != nil {
		return s.H, err
	}
	return s.H, nil
}

func (s *Sim) finish() error {
	for h := int64(1); h <= int64(len(s.H.Obs)); h++ {
		if s.H.Obs[h-1].CommitPanic != "" || s.H.Obs[h-1].AppHash == nil {
			break
		}
		sn, err := s.node.Snapshot(h, s.H.WatchA, s.H.WatchH)
		if err != nil {
			return err
		}
		s.H.Snaps = append(s.H.Snaps, sn)
	}
	s.H.Stats["blocks"] = len(s.H.Blocks)
	return nil
}

// helpers for scripts
func (s *Sim) Val(i int) Key  { return s.vals[i] }
func (s *Sim) User(i int) Key { return s.users[i] }
func (s *Sim) TxTransfer(from Key, to []byte, amt string) *TxSpec {
	t := s.baseTx(1, from, to)
	t.Amount = amt
	t.Note = "script-transfer"
	return t
}
func (s *Sim) TxStake(from Key, to []byte, rigos int64) *TxSpec {
	t := s.baseTx(2, from, to)
	t.Amount = rigo(rigos)
	t.Note = "script-stake"
	return t
}
func (s *Sim) TxUnstake(from Key, to []byte, hash []byte) *TxSpec {
	t := s.baseTx(3, from, to)
	t.UnstakeHash = hash
	t.Note = "script-unstake"
	return t
}

// SeqNonce fixes up nonces of several scripted transactions of one sender inside one block
func SeqNonce(txs []*TxSpec) []*TxSpec {
	seen := map[string]uint64{}
	for _, t := range txs {
		k := string(t.From)
		t.Nonce += seen[k]
		seen[k]++
	}
	return txs
}

// genEvmTx: contract deployments, calls, plain transfers to contracts, and native transactions whose
// receiver field names a contract (the receiver is not constrained for SETDOC)
func (s *Sim) genEvmTx(deploy bool) *TxSpec {
	r := s.rng
	from := s.pick(s.all)
	if deploy {
		// "empty-runtime": the constructor runs and returns no code (a deployment that succeeds and leaves
		// an account without code); "raw-stop": the init code is a single STOP
		progs := [][]byte{progStore(r), progForward(), progReverter(), progBalanceReader(), progSuicide(), progForwardAll(), progProbeRevert(), progCallIgnoring(), {}, nil, progBlockEnv(), nil, progPickyReceiver(), progRetryCaller()}
		names := []string{"store", "forward", "reverter", "balance-reader", "suicide", "forward-all", "probe-revert", "call-ignoring", "empty-runtime", "raw-stop", "block-env", "raw-constructor-selfdestructs", "picky-receiver", "retry-caller"}
		i := r.Intn(len(progs))
		t := s.baseTx(6, from, make([]byte, 20))
		t.Data = deployer(progs[i])
		if names[i] == "raw-stop" {
			t.Data = []byte{0x00}
		}
		if names[i] == "raw-constructor-selfdestructs" { // CALLER SELFDESTRUCT as init code: the creation succeeds and leaves nothing
			t.Data = []byte{0x33, 0xff}
		}
		t.Amount = fmt.Sprint(r.Intn(3) * 1000)
		t.Gas = uint64(200000 + r.Intn(400000))
		t.Note = "evm-deploy:" + names[i]
		return t
	}
	c := s.contracts[r.Intn(len(s.contracts))]
	s.watchAddr(make([]byte, 20)) // calls without data make the programs use address 0
	if picky, retry := s.contractOf("picky-receiver"), s.contractOf("retry-caller"); picky != nil && retry != nil && r.Intn(5) == 0 {
		// a call whose first inner call (no value) is reverted by the callee and whose second inner call
		// (with the value) to the SAME, by then warm, callee succeeds: the value must arrive
		t := s.baseTx(6, from, retry)
		t.Data, t.Amount = word(picky), fmt.Sprint(1000+r.Intn(9000))
		t.Gas, t.Note = uint64(200000+r.Intn(200000)), "evm-inner-call-reverts-then-succeeds-with-value"
		return t
	}
	if probe, outer := s.contractOf("probe-revert"), s.contractOf("call-ignoring"); probe != nil && outer != nil && r.Intn(5) == 0 {
		// a successful call whose inner frame is the first to look at account X and then reverts
		x := s.pick(s.all)
		t := s.baseTx(6, from, outer)
		t.Data = append(word(probe), word(x.Addr)...)
		t.Gas, t.Note = uint64(200000+r.Intn(200000)), "evm-inner-frame-reverts-after-first-touch"
		return t
	}
	if r.Intn(6) == 0 {
		// both execution paths for one account inside one block: a contract call by Y, a native
		// transaction by Y, then another contract call (by Y or by somebody else)
		y := from
		t1 := s.baseTx(6, y, c)
		t1.Data, t1.Gas, t1.Note = word(y.Addr), uint64(150000+r.Intn(200000)), "mixed-paths-1-call"
		t2 := s.baseTx(1, y, s.pick(s.all).Addr)
		t2.Amount, t2.Note = fmt.Sprint(1000+r.Intn(5000)), "mixed-paths-2-native-transfer"
		if r.Intn(3) == 0 {
			t2 = s.baseTx(7, y, make([]byte, 20))
			t2.DocName, t2.DocURL, t2.Note = fmt.Sprintf("mixed-%d", r.Intn(9)), "https://mixed", "mixed-paths-2-native-setdoc"
		}
		z := s.pick(s.all)
		t3 := s.baseTx(6, z, s.contracts[r.Intn(len(s.contracts))])
		t3.Data, t3.Gas, t3.Note = word(y.Addr), uint64(150000+r.Intn(200000)), "mixed-paths-3-call"
		s.pending = append(s.pending, t2, t3)
		return t1
	}
	if r.Intn(5) == 0 {
		// a call straight to a precompiled contract (addresses 1..9) with short, odd-sized or empty input
		pc := make([]byte, 20)
		pc[19] = byte(1 + r.Intn(9))
		s.watchAddr(pc)
		t := s.baseTx(6, from, pc)
		t.Data = make([]byte, []int{0, 1, 4, 31, 32, 33, 63, 64, 65, 100, 127, 128, 129, 200}[r.Intn(14)])
		for i := range t.Data {
			t.Data[i] = byte(r.Intn(256))
		}
		t.Gas, t.Note = uint64(100000+r.Intn(200000)), fmt.Sprintf("evm-call-precompile-%d", pc[19])
		return t
	}
	switch r.Intn(5) {
	case 0, 1:
		t := s.baseTx(6, from, c)
		small := make([]byte, 20)
		small[19] = byte(r.Intn(50))
		arg := word(small)
		s.watchAddr(small) // a program may send value there: every touched account is watched
		if r.Intn(2) == 0 {
			arg = word(s.pick(s.all).Addr)
		}
		t.Data = arg
		t.Amount = fmt.Sprint(r.Intn(4) * 500)
		t.Gas = uint64(100000 + r.Intn(400000))
		if r.Intn(10) == 0 {
			t.Gas = uint64(21000 + r.Intn(30000))
		}
		t.Note = "evm-call"
		if quiet := append(s.contractOf("empty-runtime"), s.contractOf("raw-stop")...); len(quiet) >= 20 && r.Intn(6) == 0 {
			// a call without data, to an account without code, with EXACTLY the intrinsic gas (21000):
			// admitted ("covers" means >=) and successful with gas used = gas limit
			t.To = quiet[:20]
			t.Data, t.Amount, t.Gas, t.Note = nil, "0", 21000, "evm-call-exact-intrinsic-gas"
			return t
		}
		if r.Intn(12) == 0 {
			// gas limits of the order of the block's EVM gas pool (25,000,000): two of them do not fit into one block
			t.Gas = uint64(9000000 + r.Intn(16000001))
			t.Note = "evm-call-huge-gas-limit"
			if r.Intn(2) == 0 {
				u := s.baseTx(6, s.pick(s.all), c)
				u.Data, u.Gas, u.Note = arg, uint64(9000000+r.Intn(16000001)), "evm-call-huge-gas-limit-2"
				s.pending = append(s.pending, u)
			}
		}
		return t
	case 2:
		t := s.baseTx(1, from, c)
		t.Amount = fmt.Sprint(100 + r.Intn(900))
		t.Gas = uint64(100000 + r.Intn(400000))
		t.Note = "evm-transfer-to-contract"
		if r.Intn(4) == 0 { // a transfer of nothing still runs the receiver's code
			t.Amount, t.Note = "0", "evm-transfer-of-zero-to-contract"
		}
		if r.Intn(4) == 0 { // enough for the governance minimum, not for the EVM's intrinsic gas
			t.Gas = s.params.MinTrxGas + uint64(r.Intn(50))
			t.Note = "evm-transfer-to-contract-low-gas"
		}
		return t
	case 3:
		t := s.baseTx(7, from, c)
		t.DocName = fmt.Sprintf("name-%d", r.Intn(4))
		t.DocURL = fmt.Sprintf("https://doc/%d", r.Intn(4))
		t.Note = "setdoc-to-contract-address"
		return t
	default:
		t := s.baseTx(8, from, c)
		rw := s.rewards[string(from.Addr)]
		if rw == nil {
			rw = big.NewInt(0)
		}
		t.WithdrawReq = frac(rw, 1, 3)
		t.Note = "withdraw-to-contract-address"
		return t
	}
}

// observeEvm reads, right after a delivery that may have gone through the EVM, the balances and
// nonces of all watched accounts: the observed effect the model's EVM oracle is given
// readBeforeEvm: balances and nonces of the watched accounts (and of the address a deployment would
// create) right before a delivery that may go through the EVM; nil for other transactions
func (s *Sim) readBeforeEvm(bt *Built) map[string]AcctObs {
	t := bt.Spec
	evm := t.Type == 6
	for _, c := range s.contracts {
		if string(c) == string(t.To) && t.Type == 1 { // only plain transfers to contracts are routed to the EVM
			evm = true
		}
	}
	if !evm {
		return nil
	}
	out := map[string]AcctObs{}
	ac := s.node.App.VerifAcctCtrler()
	addrs := append([][]byte(nil), s.H.WatchA...)
	if t.Type == 6 && isZero(t.To) && len(t.From) == 20 {
		created := ethcrypto.CreateAddress(common.BytesToAddress(t.From), t.Nonce)
		addrs = append(addrs, created[:])
	}
	for _, a := range addrs {
		if acct := ac.FindAccount(a, true); acct != nil {
			out[string(a)] = AcctObs{Addr: a, Bal: acct.GetBalance().Dec(), Nonce: acct.GetNonce()}
		}
	}
	return out
}

func (s *Sim) observeEvm(bt *Built, d DeliverObs, before map[string]AcctObs) {
	t := bt.Spec
	isContractTo := false
	for _, c := range s.contracts {
		if string(c) == string(t.To) {
			isContractTo = true
		}
	}
	if t.Type != 6 && !isContractTo {
		return
	}
	e := &EvmEffect{OK: d.Code == 0, Gas: d.GasUsed}
	if d.Code == 0 && t.Type == 6 && isZero(t.To) {
		created := ethcrypto.CreateAddress(common.BytesToAddress(t.From), t.Nonce)
		e.Created = created[:]
		s.contracts = append(s.contracts, created[:])
		if s.progOf == nil {
			s.progOf = map[string]string{}
		}
		if len(t.Note) > len("evm-deploy:") && t.Note[:len("evm-deploy:")] == "evm-deploy:" {
			s.progOf[string(created[:])] = t.Note[len("evm-deploy:"):]
		}
		s.watchAddr(created[:])
	}
	if d.Code == 0 {
		ac := s.node.App.VerifAcctCtrler()
		for _, a := range s.H.WatchA {
			if acct := ac.FindAccount(a, true); acct != nil {
				e.Accts = append(e.Accts, AcctObs{Addr: a, Bal: acct.GetBalance().Dec(), Nonce: acct.GetNonce()})
			}
		}
		e.Pure = pureJudgement(before, e, t, d.GasUsed)
	}
	bt.Evm = e
}

// pureJudgement: the effect contract judged on the node's own values before and after the
// transaction (independent of the model's state): "" when it holds, else what is wrong, in words
func pureJudgement(before map[string]AcctObs, e *EvmEffect, t *TxSpec, gasUsed int64) string {
	if before == nil {
		return ""
	}
	out := ""
	sum := new(big.Int)
	for _, x := range e.Accts {
		after, _ := new(big.Int).SetString(x.Bal, 10)
		sum.Add(sum, after)
		if b0, ok := before[string(x.Addr)]; ok {
			bb, _ := new(big.Int).SetString(b0.Bal, 10)
			sum.Sub(sum, bb)
		}
		if string(x.Addr) == string(t.From) {
			if b0, ok := before[string(x.Addr)]; !ok || x.Nonce != b0.Nonce+1 {
				out += fmt.Sprintf("sender nonce %d -> %d; ", b0.Nonce, x.Nonce)
			}
		}
	}
	price, _ := new(big.Int).SetString(t.GasPrice, 10)
	if price == nil {
		price = new(big.Int)
	}
	sum.Add(sum, new(big.Int).Mul(big.NewInt(gasUsed), price))
	if sum.Sign() != 0 {
		out += fmt.Sprintf("touched accounts changed by %s beyond -gasUsed*price; ", sum.String())
	}
	return out
}

// contractOf: a deployed contract running the named program (nil: none yet)
func (s *Sim) contractOf(prog string) []byte {
	for _, c := range s.contracts {
		if s.progOf[string(c)] == prog {
			return c
		}
	}
	return nil
}
