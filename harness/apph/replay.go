package apph

import (
	"encoding/json"
	"fmt"
	"os"
)

// Rerun executes a recorded history (genesis, block headers, the exact transaction bytes) on a
// fresh node in its own directory and returns what that node answered.
func Rerun(h *History, scratch, label string) (*History, error) {
	dir := freshDir(scratch, label)
	defer os.RemoveAll(dir)
	n, info, err := OpenNode(dir)
	if err != nil {
		return nil, err
	}
	defer n.Close()
	if info.LastBlockHeight != 0 {
		return nil, fmt.Errorf("fresh node reports height %d", info.LastBlockHeight)
	}
	if err := n.InitChain(h.Genesis); err != nil {
		return nil, err
	}
	out := &History{Seed: h.Seed, Genesis: h.Genesis, Blocks: h.Blocks, WatchA: h.WatchA, WatchH: h.WatchH,
		StrTab: h.StrTab, OptTab: h.OptTab, Stats: map[string]int{}, Keys: h.Keys}
	out.Blocks = nil
	for _, b0 := range h.Blocks {
		// the EVM effects handed to the model are observed again on this node
		b := *b0
		b.Txs = nil
		for _, t := range b0.Txs {
			c := *t
			b.Txs = append(b.Txs, &c)
		}
		out.Blocks = append(out.Blocks, &b)
		o := n.runBlockObserving(&b, h.WatchA)
		out.Obs = append(out.Obs, o)
		if o.BeginPanic != "" || o.EndPanic != "" || o.CommitPanic != "" {
			out.Err = "panic: " + o.BeginPanic + o.EndPanic + o.CommitPanic
			break
		}
	}
	for i := range out.Obs {
		if out.Obs[i].AppHash == nil {
			break
		}
		sn, err := n.Snapshot(int64(i+1), h.WatchA, h.WatchH)
		if err != nil {
			return out, err
		}
		out.Snaps = append(out.Snaps, sn)
	}
	return out, nil
}

// LoadHistories reads the JSON written by GenerateCases
func LoadHistories(path string) ([]*History, error) {
	bz, err := os.ReadFile(path)
	if err != nil {
		return nil, err
	}
	var hs []*History
	if err := json.Unmarshal(bz, &hs); err != nil {
		var one History
		if err2 := json.Unmarshal(bz, &one); err2 != nil {
			return nil, err
		}
		hs = []*History{&one}
	}
	return hs, nil
}

// ReplayCases re-executes recorded histories and writes a case file for them
func ReplayCases(histPath, outPath, scratch, evals string) (*AppStats, error) {
	hs, err := LoadHistories(histPath)
	if err != nil {
		return nil, err
	}
	var rer []*History
	for i, h := range hs {
		r, err := Rerun(h, scratch, fmt.Sprintf("replay-%d", i))
		if err != nil {
			return nil, err
		}
		rer = append(rer, r)
	}
	return writeCases(rer, outPath, "", evals)
}
