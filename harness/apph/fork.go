package apph

import (
	"fmt"
	"reflect"
)

// ForkDelete re-executes a recorded history on a fresh node WITHOUT the transactions that failed
// and reports every observable difference: answers of the remaining transactions, validator
// updates, issued rewards and the projected state after every commit must be identical if failed
// transactions have no effect (property C05).  Application hashes are not compared: a failed
// delivery may leave an empty receiver account behind, which no query can tell from an absent one.
func ForkDelete(h *History, scratch, label string) (diffs []string, deleted int, err error) {
	return forkDeleteIf(h, scratch, label, func(int, int, string) bool { return true })
}

// ForkDeleteFirstPerBlock removes only the FIRST failed transaction of every block.  Removing all
// failed transactions together hides an effect of one failed transaction on another transaction
// that then fails too (a limit consumed by a refused staking transaction refuses the next one):
// both are gone from the second run.  Here the later one stays and must fail again.
func ForkDeleteFirstPerBlock(h *History, scratch, label string) (diffs []string, deleted int, err error) {
	seen := map[int]bool{}
	return forkDeleteIf(h, scratch, label, func(bi, i int, note string) bool {
		if seen[bi] {
			return false
		}
		seen[bi] = true
		return true
	})
}

// ForkDeleteHalf removes every second failed transaction (a choice derived from the history's seed)
func ForkDeleteHalf(h *History, scratch, label string) (diffs []string, deleted int, err error) {
	x := uint64(h.Seed)*2654435761 + 12345
	return forkDeleteIf(h, scratch, label, func(bi, i int, note string) bool {
		x = x*6364136223846793005 + 1442695040888963407
		return (x>>33)&1 == 1
	})
}

// deliberatelyInvalid: notes of the generator's invalid stream (transactions built to be refused)
func deliberatelyInvalid(note string) bool {
	for _, p := range []string{"tamper-", "forged-", "signed-by-other", "wrong-chain", "reused-signature", "bad-nonce", "bad-gasprice", "low-gas",
		"unknown-sender", "replay", "insufficient-funds", "amount-2^255", "unstake-not-owner", "unstake-unknown-hash", "unstake-short-hash",
		"vote-bad-choice", "vote-negative-choice", "withdraw-excessive", "setdoc-too-long", "stake-not-multiple", "script-proposal-by-non-validator",
		"script-call-below-minimum-fee", "evm-transfer-to-contract-low-gas"} {
		if len(note) >= len(p) && note[:len(p)] == p {
			return true
		}
	}
	return false
}

// ForkDeleteInvalidOnly removes only the failed transactions that were BUILT to be refused.  A
// transaction built to be valid that failed stays: if it failed because of something a refused
// transaction left behind (a consumed limit, a moved nonce), it succeeds here and shows as a difference
// — which removing all failed transactions together would hide.
func ForkDeleteInvalidOnly(h *History, scratch, label string) (diffs []string, deleted int, err error) {
	return forkDeleteIf(h, scratch, label, func(_, _ int, note string) bool { return deliberatelyInvalid(note) })
}

func forkDeleteIf(h *History, scratch, label string, pred func(bi, i int, note string) bool) (diffs []string, deleted int, err error) {
	h2 := &History{Seed: h.Seed, Genesis: h.Genesis, WatchA: h.WatchA, WatchH: h.WatchH, StrTab: h.StrTab, OptTab: h.OptTab, Keys: h.Keys}
	type pos struct{ b, i int }
	var kept [][]int
	for bi, b := range h.Blocks {
		nb := &BlockSpec{Height: b.Height, Proposer: b.Proposer, Votes: b.Votes, Evidence: b.Evidence}
		var idx []int
		for i, t := range b.Txs {
			if bi < len(h.Obs) && i < len(h.Obs[bi].Delivers) && h.Obs[bi].Delivers[i].Code != 0 && pred(bi, i, t.Spec.Note) {
				deleted++
				continue
			}
			nb.Txs = append(nb.Txs, t)
			idx = append(idx, i)
		}
		h2.Blocks = append(h2.Blocks, nb)
		kept = append(kept, idx)
	}
	r, err := Rerun(h2, scratch, label)
	if err != nil {
		return nil, deleted, err
	}
	for bi := range h.Blocks {
		if bi >= len(h.Obs) || bi >= len(r.Obs) {
			break
		}
		o, o2 := h.Obs[bi], r.Obs[bi]
		if o.Issued != o2.Issued {
			diffs = append(diffs, fmt.Sprintf("block %d: issued reward %s vs %s without the failed transactions", bi+1, o.Issued, o2.Issued))
		}
		for k, i := range kept[bi] {
			if k >= len(o2.Delivers) || i >= len(o.Delivers) {
				break
			}
			a, b := o.Delivers[i], o2.Delivers[k]
			if a.Code != b.Code || a.GasUsed != b.GasUsed || a.GasWanted != b.GasWanted || string(a.Data) != string(b.Data) {
				diffs = append(diffs, fmt.Sprintf("block %d tx %d (%s): code/gas %d/%d vs %d/%d without the failed transactions before it",
					bi+1, i, h.Blocks[bi].Txs[i].Spec.Note, a.Code, a.GasUsed, b.Code, b.GasUsed))
			}
		}
		if !reflect.DeepEqual(o.ValUpdates, o2.ValUpdates) && !(len(o.ValUpdates) == 0 && len(o2.ValUpdates) == 0) {
			diffs = append(diffs, fmt.Sprintf("block %d: validator updates differ without the failed transactions", bi+1))
		}
		if !reflect.DeepEqual(o.Frozen, o2.Frozen) && !(len(o.Frozen) == 0 && len(o2.Frozen) == 0) {
			diffs = append(diffs, fmt.Sprintf("block %d: unbonding stakes differ without the failed transactions", bi+1))
		}
		if bi < len(h.Snaps) && bi < len(r.Snaps) {
			s1, s2 := *h.Snaps[bi], *r.Snaps[bi]
			s1.Raw, s2.Raw = nil, nil
			if !reflect.DeepEqual(s1, s2) {
				what := "state"
				switch {
				case !reflect.DeepEqual(s1.Accts, s2.Accts):
					what = "accounts"
				case !reflect.DeepEqual(s1.Dels, s2.Dels):
					what = "delegatees"
				case !reflect.DeepEqual(s1.Rewards, s2.Rewards):
					what = "rewards"
				case !reflect.DeepEqual(s1.Props, s2.Props):
					what = "proposals"
				case !reflect.DeepEqual(s1.Params, s2.Params):
					what = "parameters"
				}
				diffs = append(diffs, fmt.Sprintf("block %d: committed %s differ without the failed transactions", bi+1, what))
			}
		}
	}
	return diffs, deleted, nil
}
