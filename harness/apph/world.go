// Package apph drives a real RigoApp in-process: deterministic keys and genesis, block-level
// ABCI driving with a consensus simulator, projection of the committed state through Query and
// the verif accessors, and emission of Coq case files for Spec.v / AppRun.v.
package apph

import (
	"crypto/ecdsa"
	"crypto/sha256"
	"encoding/hex"
	"encoding/json"
	"fmt"
	"math/big"
	"os"
	"path/filepath"
	"strconv"
	"strings"
	"time"

	ethcrypto "github.com/ethereum/go-ethereum/crypto"
	"github.com/holiman/uint256"
	cfg "github.com/rigochain/rigo-go/cmd/config"
	ctrlertypes "github.com/rigochain/rigo-go/ctrlers/types"
	"github.com/rigochain/rigo-go/node"
	rcrypto "github.com/rigochain/rigo-go/types/crypto"
	abcitypes "github.com/tendermint/tendermint/abci/types"
	cryptoenc "github.com/tendermint/tendermint/crypto/encoding"
	"github.com/tendermint/tendermint/crypto/secp256k1"
	"github.com/tendermint/tendermint/libs/log"
	tmproto "github.com/tendermint/tendermint/proto/tendermint/types"
	tmtypes "github.com/tendermint/tendermint/types"
)

// ---------------------------------------------------------------- parameters

// Params mirrors ctrlertypes.GovParams (whose fields are unexported); decimal strings for the
// 256-bit fields.  A zero / empty field means "unset" in a proposal option document.
type Params struct {
	Version, MaxValidatorCnt                                           int64
	MinValidatorStake, MinDelegatorStake, RewardPerPower               string
	LazyRewardBlocks, LazyApplyingBlocks                               int64
	GasPrice                                                           string
	MinTrxGas, MaxTrxGas, MaxBlockGas                                  uint64
	MinVotingPeriodBlocks, MaxVotingPeriodBlocks                       int64
	MinSelfStakeRatio, MaxUpdatableStakeRatio, MaxIndividualStakeRatio int64
	SlashRatio, SignedBlocksWindow, MinSignedBlocks                    int64
}

// JSON renders the document as GovParams.UnmarshalJSON (tmjson: 64-bit integers as strings) reads it.
// With sparse=true zero fields are left out (a proposal option).
func (p Params) JSON(sparse bool) []byte {
	var parts []string
	addI := func(k string, v int64) {
		if !sparse || v != 0 {
			parts = append(parts, fmt.Sprintf("%q:\"%d\"", k, v))
		}
	}
	addU := func(k string, v uint64) {
		if !sparse || v != 0 {
			parts = append(parts, fmt.Sprintf("%q:\"%d\"", k, v))
		}
	}
	addS := func(k string, v string) {
		if !sparse || (v != "" && v != "0") {
			if v == "" {
				v = "0"
			}
			parts = append(parts, fmt.Sprintf("%q:%q", k, v))
		}
	}
	addI("version", p.Version)
	addI("maxValidatorCnt", p.MaxValidatorCnt)
	addS("minValidatorStake", p.MinValidatorStake)
	addS("minDelegatorStake", p.MinDelegatorStake)
	addS("rewardPerPower", p.RewardPerPower)
	addI("lazyRewardBlocks", p.LazyRewardBlocks)
	addI("lazyApplyingBlocks", p.LazyApplyingBlocks)
	addS("gasPrice", p.GasPrice)
	addU("minTrxGas", p.MinTrxGas)
	addU("maxTrxGas", p.MaxTrxGas)
	addU("maxBlockGas", p.MaxBlockGas)
	addI("minVotingPeriodBlocks", p.MinVotingPeriodBlocks)
	addI("maxVotingPeriodBlocks", p.MaxVotingPeriodBlocks)
	addI("minSelfStakeRatio", p.MinSelfStakeRatio)
	addI("maxUpdatableStakeRatio", p.MaxUpdatableStakeRatio)
	addI("maxIndividualStakeRatio", p.MaxIndividualStakeRatio)
	addI("slashRatio", p.SlashRatio)
	addI("signedBlocksWindow", p.SignedBlocksWindow)
	addI("minSignedBlocks", p.MinSignedBlocks)
	return []byte("{" + strings.Join(parts, ",") + "}")
}

func zs(s string) string {
	if s == "" {
		return "0"
	}
	return s
}

// Coq renders `mk_params ...`
func (p Params) Coq() string {
	return fmt.Sprintf("(mk_params %d %d %s %s %s %d %d %s %d %d %d %d %d %d %d %d %d %d %d)",
		p.Version, p.MaxValidatorCnt, zbig(p.MinValidatorStake), zbig(p.MinDelegatorStake), zbig(p.RewardPerPower),
		p.LazyRewardBlocks, p.LazyApplyingBlocks, zbig(p.GasPrice), p.MinTrxGas, p.MaxTrxGas, p.MaxBlockGas,
		p.MinVotingPeriodBlocks, p.MaxVotingPeriodBlocks, p.MinSelfStakeRatio, p.MaxUpdatableStakeRatio,
		p.MaxIndividualStakeRatio, p.SlashRatio, p.SignedBlocksWindow, p.MinSignedBlocks)
}

// ---------------------------------------------------------------- keys

type Key struct {
	Prv  *ecdsa.PrivateKey `json:"-"`
	Addr []byte            // 20 bytes
	Pub  []byte            // 33 bytes compressed
	Name string
}

func NewKey(label string) Key {
	for i := 0; ; i++ {
		h := sha256.Sum256([]byte(fmt.Sprintf("verif-key:%s:%d", label, i)))
		prv, err := ethcrypto.ToECDSA(h[:])
		if err != nil {
			continue
		}
		return Key{Prv: prv, Addr: rcrypto.Pub2Addr(&prv.PublicKey), Pub: rcrypto.CompressPubkey(&prv.PublicKey), Name: label}
	}
}

func AddrN(a []byte) string { return new(big.Int).SetBytes(a).String() }

// ---------------------------------------------------------------- genesis / world

type Holder struct {
	Addr    []byte
	Balance string
}
type GenVal struct {
	Key   Key
	Power int64
}

type Genesis struct {
	ChainID string
	Params  Params
	Holders []Holder
	Vals    []GenVal
}

func (g Genesis) Coq() string {
	var hs, vs []string
	for _, h := range g.Holders {
		hs = append(hs, fmt.Sprintf("(%s, %s)", nlit(AddrN(h.Addr)), zbig(h.Balance)))
	}
	for _, v := range g.Vals {
		vs = append(vs, fmt.Sprintf("(%s, %d)", nlit(AddrN(v.Key.Addr)), v.Power))
	}
	return fmt.Sprintf("(mk_gen %s [%s] [%s])", g.Params.Coq(), strings.Join(hs, "; "), strings.Join(vs, "; "))
}

func (g Genesis) appState() []byte {
	var hs []string
	for _, h := range g.Holders {
		hs = append(hs, fmt.Sprintf(`{"address":"%X","balance":%q}`, h.Addr, h.Balance))
	}
	return []byte(fmt.Sprintf(`{"assetHolders":[%s],"govParams":%s}`, strings.Join(hs, ","), g.Params.JSON(false)))
}

// ---------------------------------------------------------------- the node under test

type Node struct {
	Dir string
	App *node.RigoApp
}

// OpenNode opens (or reopens) a RigoApp on dir and calls Info, as Tendermint's handshake does.
func OpenNode(dir string) (*Node, abcitypes.ResponseInfo, error) {
	c := cfg.DefaultConfig()
	c.SetRoot(dir)
	if err := os.MkdirAll(c.DBDir(), 0o700); err != nil {
		return nil, abcitypes.ResponseInfo{}, err
	}
	var app *node.RigoApp
	var info abcitypes.ResponseInfo
	err := guard(func() {
		app = node.NewRigoApp(c, log.NewNopLogger())
		info = app.Info(abcitypes.RequestInfo{})
	})
	if err != nil {
		return nil, info, err
	}
	return &Node{Dir: dir, App: app}, info, nil
}

func (n *Node) Close() { _ = guard(func() { _ = n.App.VerifStopAll() }) }

// guard converts a panic into an error
func guard(f func()) (err error) {
	defer func() {
		if r := recover(); r != nil {
			err = fmt.Errorf("panic: %v", r)
		}
	}()
	f()
	return nil
}

func (n *Node) InitChain(g Genesis) error {
	var vals []abcitypes.ValidatorUpdate
	for _, v := range g.Vals {
		pk, err := cryptoenc.PubKeyToProto(secp256k1.PubKey(v.Key.Pub))
		if err != nil {
			return err
		}
		vals = append(vals, abcitypes.ValidatorUpdate{PubKey: pk, Power: v.Power})
	}
	return guard(func() {
		n.App.InitChain(abcitypes.RequestInitChain{ChainId: g.ChainID, Validators: vals, AppStateBytes: g.appState()})
	})
}

// ---------------------------------------------------------------- transactions

// TxSpec is a decoded transaction plus what the harness did to it
type TxSpec struct {
	Type     int32
	From, To []byte
	Amount   string // decimal
	GasPrice string
	Gas      uint64
	Nonce    uint64
	Time     int64
	// payloads
	UnstakeHash []byte
	WithdrawReq string
	Prop        *PropSpec
	VoteHash    []byte
	VoteChoice  int32
	DocName     string
	DocURL      string
	Data        []byte // contract call data
	// signing
	SignerLabel string // key that signs
	SignChain   string // chain id signed for ("" = the node's)
	Tamper      string // "" | "sig" | a field name altered after signing
	Note        string // what the generator intended (for the evidence distribution)
}

type PropSpec struct {
	Message              string
	Start, Period, Apply int64
	OptType              int32
	Options              []OptSpec
}
type OptSpec struct {
	Raw    []byte  // the option bytes
	Params *Params // what they parse to (nil: not parseable as parameters)
}

func u256(dec string) *uint256.Int {
	if dec == "" {
		return uint256.NewInt(0)
	}
	v, err := uint256.FromDecimal(dec)
	if err != nil {
		b, ok := new(big.Int).SetString(dec, 10)
		if !ok {
			panic("bad decimal " + dec)
		}
		v, _ = uint256.FromBig(b)
	}
	return v
}

func (t *TxSpec) payload() ctrlertypes.ITrxPayload {
	switch t.Type {
	case ctrlertypes.TRX_UNSTAKING:
		return &ctrlertypes.TrxPayloadUnstaking{TxHash: t.UnstakeHash}
	case ctrlertypes.TRX_WITHDRAW:
		return &ctrlertypes.TrxPayloadWithdraw{ReqAmt: u256(t.WithdrawReq)}
	case ctrlertypes.TRX_PROPOSAL:
		var opts [][]byte
		for _, o := range t.Prop.Options {
			opts = append(opts, o.Raw)
		}
		return &ctrlertypes.TrxPayloadProposal{Message: t.Prop.Message, StartVotingHeight: t.Prop.Start,
			VotingPeriodBlocks: t.Prop.Period, ApplyingHeight: t.Prop.Apply, OptType: t.Prop.OptType, Options: opts}
	case ctrlertypes.TRX_VOTING:
		return &ctrlertypes.TrxPayloadVoting{TxHash: t.VoteHash, Choice: t.VoteChoice}
	case ctrlertypes.TRX_SETDOC:
		return &ctrlertypes.TrxPayloadSetDoc{Name: t.DocName, URL: t.DocURL}
	case ctrlertypes.TRX_CONTRACT:
		return &ctrlertypes.TrxPayloadContract{Data: t.Data}
	}
	return nil
}

func (t *TxSpec) trx() *ctrlertypes.Trx {
	return &ctrlertypes.Trx{Version: 1, Time: t.Time, Nonce: t.Nonce, From: t.From, To: t.To, Amount: u256(t.Amount),
		Gas: t.Gas, GasPrice: u256(t.GasPrice), Type: t.Type, Payload: t.payload()}
}

// Built is a transaction ready to deliver
type Built struct {
	Spec  *TxSpec
	Bytes []byte
	Hash  []byte
	SigOK bool       // signed by From's key for exactly these fields and the node's chain id
	Evm   *EvmEffect // observed effect of the EVM execution (oracle of the model), nil for native transactions
}

type AcctObs struct {
	Addr  []byte
	Bal   string
	Nonce uint64
}
type EvmEffect struct {
	Pure    string // non-empty: the node's own before/after values break the effect contract (what, in words)
	OK      bool
	Gas     int64
	Created []byte
	Accts   []AcctObs
}

// Build signs the specification with the named key (the node's own preimage function is what an
// honest client uses), applies the requested tampering, and encodes it.
func Build(t *TxSpec, keys map[string]Key, nodeChain string) (*Built, error) {
	tx := t.trx()
	chain := t.SignChain
	if chain == "" {
		chain = nodeChain
	}
	key, ok := keys[t.SignerLabel]
	if !ok {
		return nil, fmt.Errorf("unknown signer %q", t.SignerLabel)
	}
	pre, xerr := ctrlertypes.PreImageToSignTrxRLP(tx, chain)
	if xerr != nil {
		return nil, fmt.Errorf("preimage: %v", xerr)
	}
	h := sha256.Sum256(pre)
	sig, err := ethcrypto.Sign(h[:], key.Prv)
	if err != nil {
		return nil, err
	}
	tx.Sig = sig
	sigok := chain == nodeChain && string(key.Addr) == string(t.From)
	switch t.Tamper {
	case "":
	case "sig":
		tx.Sig = append([]byte(nil), sig...)
		tx.Sig[7] ^= 0x40
		sigok = false
	case "amount":
		tx.Amount = new(uint256.Int).AddUint64(tx.Amount, 1)
		t.Amount = tx.Amount.Dec()
		sigok = false
	case "nonce-field": // nonce altered after signing to the value the ledger expects + keep sig
		sigok = false
	case "to":
		tx.To = append([]byte(nil), tx.To...)
		tx.To[19] ^= 1
		t.To = tx.To
		sigok = false
	case "gas":
		tx.Gas++
		t.Gas = tx.Gas
		sigok = false
	case "time":
		tx.Time++
		t.Time = tx.Time
		sigok = false
	case "version-0", "version-2": // the version field on the wire differs from the signed one (0 is what a missing proto3 field decodes to)
		tx.Version = map[string]uint32{"version-0": 0, "version-2": 2}[t.Tamper]
		sigok = false
	default:
		if strings.HasPrefix(t.Tamper, "siglen:") { // the signature cut or zero-padded to n bytes
			n, _ := strconv.Atoi(t.Tamper[len("siglen:"):])
			s2 := make([]byte, n)
			copy(s2, sig)
			tx.Sig = s2
			sigok = false
			break
		}
		if strings.HasPrefix(t.Tamper, "reuse-sig:") {
			old, err := hex.DecodeString(t.Tamper[len("reuse-sig:"):])
			if err != nil {
				return nil, err
			}
			sigok = string(old) == string(sig)
			tx.Sig = old
			break
		}
		return nil, fmt.Errorf("unknown tamper %q", t.Tamper)
	}
	bz, xerr := tx.Encode()
	if xerr != nil {
		return nil, fmt.Errorf("encode: %v", xerr)
	}
	return &Built{Spec: t, Bytes: bz, Hash: tmtypes.Tx(bz).Hash(), SigOK: sigok}, nil
}

// ---------------------------------------------------------------- blocks

type Vote struct {
	Addr   []byte
	Power  int64
	Signed bool
}

type BlockSpec struct {
	Height   int64
	Proposer []byte // nil: none
	Votes    []Vote
	Evidence [][]byte
	Txs      []*Built
}

var t0 = time.Unix(1_700_000_000, 0).UTC()

func (b *BlockSpec) request() abcitypes.RequestBeginBlock {
	var votes []abcitypes.VoteInfo
	for _, v := range b.Votes {
		votes = append(votes, abcitypes.VoteInfo{Validator: abcitypes.Validator{Address: v.Addr, Power: v.Power}, SignedLastBlock: v.Signed})
	}
	var evs []abcitypes.Evidence
	for _, e := range b.Evidence {
		evs = append(evs, abcitypes.Evidence{Type: abcitypes.EvidenceType_DUPLICATE_VOTE, Validator: abcitypes.Validator{Address: e, Power: 1},
			Height: b.Height - 1, Time: t0, TotalVotingPower: 1})
	}
	return abcitypes.RequestBeginBlock{
		Header:              tmproto.Header{Height: b.Height, Time: t0.Add(time.Duration(b.Height) * 3 * time.Second), ProposerAddress: b.Proposer, ChainID: ""},
		LastCommitInfo:      abcitypes.LastCommitInfo{Votes: votes},
		ByzantineValidators: evs,
	}
}

func freshDir(scratch, label string) string {
	d := filepath.Join(scratch, label)
	_ = os.RemoveAll(d)
	_ = os.MkdirAll(d, 0o700)
	return d
}

func jsonOf(v interface{}) string {
	bz, _ := json.Marshal(v)
	return string(bz)
}
