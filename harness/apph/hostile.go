package apph

import (
	"fmt"
	"math"
	"math/big"
	"math/rand"
	"strings"

	ctrlertypes "github.com/rigochain/rigo-go/ctrlers/types"
)

// HostileStats: what the adversarial stream did to a live node (property C09)
type HostileStats struct {
	Inputs, DeliverInputs, CheckInputs, QueryInputs int
	ByKind                                          map[string]int
	Panics                                          []string // every panic, with the input class that caused it
	ReachedController                               int      // inputs that got past decoding and common validation
	FollowUps, FollowUpOK                           int      // well-formed requests after hostile ones
	Unusable                                        []string // node stopped answering correctly
}

func randBytes(r *rand.Rand, n int) []byte {
	b := make([]byte, n)
	r.Read(b)
	return b
}

var maxU256 = new(big.Int).Sub(new(big.Int).Lsh(big.NewInt(1), 256), big.NewInt(1)).String()

// hostileSpecs: valid envelopes with hostile field values; they are signed by the sender so that
// DeliverTx gets past the signature check and reaches the controllers
func (s *Sim) hostileSpecs(r *rand.Rand) []*TxSpec {
	var out []*TxSpec
	add := func(note string, t *TxSpec) {
		t.Note = "hostile:" + note
		out = append(out, t)
	}
	zero := make([]byte, 20)
	u := func() Key { return s.pick(s.all) }
	lens := []int{0, 1, 19, 21, 32, 64}
	for _, l := range lens {
		t := s.baseTx(1, u(), randBytes(r, l))
		t.Amount = "1"
		add(fmt.Sprintf("to-len-%d", l), t)
	}
	for _, amt := range []string{maxU256, new(big.Int).Lsh(big.NewInt(1), 255).String(), new(big.Int).Sub(new(big.Int).Lsh(big.NewInt(1), 255), big.NewInt(1)).String(),
		new(big.Int).Mul(new(big.Int).Lsh(big.NewInt(1), 63), e18).String(), new(big.Int).Mul(new(big.Int).Lsh(big.NewInt(1), 64), e18).String()} {
		for _, ty := range []int32{1, 2, 8} {
			k := u()
			to := k.Addr
			if ty == 8 {
				to = zero
			}
			t := s.baseTx(ty, k, to)
			t.Amount = amt
			t.WithdrawReq = amt
			add(fmt.Sprintf("amount-extreme-type%d", ty), t)
		}
	}
	for _, gas := range []uint64{0, 1, math.MaxInt64, math.MaxInt64 + 1, math.MaxUint64} {
		t := s.baseTx(1, u(), u().Addr)
		t.Gas = gas
		add("gas-extreme", t)
	}
	for _, gp := range []string{"0", maxU256, new(big.Int).Lsh(big.NewInt(1), 255).String()} {
		t := s.baseTx(1, u(), u().Addr)
		t.GasPrice = gp
		add("gasprice-extreme", t)
	}
	for _, ty := range []int32{0, 9, -1, math.MaxInt32, math.MinInt32} {
		t := s.baseTx(ty, u(), u().Addr)
		add("type-unknown", t)
	}
	for _, l := range []int{0, 1, 31, 33, 64} {
		t := s.baseTx(3, u(), u().Addr)
		t.UnstakeHash = randBytes(r, l)
		add("unstake-hash-len", t)
		v := s.baseTx(5, u(), zero)
		v.VoteHash = randBytes(r, l)
		add("vote-hash-len", v)
	}
	for _, ch := range []int32{math.MinInt32, -2, math.MaxInt32} {
		v := s.baseTx(5, u(), zero)
		v.VoteHash = make([]byte, 32)
		if len(s.props) > 0 {
			v.VoteHash = s.props[r.Intn(len(s.props))].Hash
		}
		v.VoteChoice = ch
		add("vote-choice-extreme", v)
	}
	for _, hs := range [][3]int64{{math.MaxInt64, 1, math.MaxInt64}, {math.MinInt64, 1, 0}, {s.height + 1, math.MaxInt64, math.MaxInt64}, {s.height + 1, math.MinInt64, 5}, {s.height + 1, 1, math.MinInt64}} {
		from := u()
		if lv := s.lastVals(); len(lv) > 0 {
			from, _ = s.key(lv[r.Intn(len(lv))])
		}
		p := s.baseTx(4, from, zero)
		p.Prop = &PropSpec{Message: "x", Start: hs[0], Period: hs[1], Apply: hs[2], OptType: 257, Options: []OptSpec{{Raw: []byte(`{"gasPrice":"7"}`)}}}
		add("proposal-heights-extreme", p)
	}
	for _, opts := range [][]OptSpec{nil, {{Raw: nil}}, {{Raw: []byte("")}}, {{Raw: []byte(`{"gasPrice":""}`)}}, {{Raw: []byte(`{"maxValidatorCnt":"-5"}`)}}, {{Raw: []byte(`[]`)}}, {{Raw: []byte(`{"gasPrice":"x"}`)}}, {{Raw: randBytes(r, 300)}}} {
		from := u()
		if lv := s.lastVals(); len(lv) > 0 {
			from, _ = s.key(lv[r.Intn(len(lv))])
		}
		p := s.baseTx(4, from, zero)
		p.Prop = &PropSpec{Message: strings.Repeat("m", r.Intn(3000)), Start: s.height + 1, Period: s.params.MinVotingPeriodBlocks, Apply: s.height + 1 + s.params.MinVotingPeriodBlocks + s.params.LazyApplyingBlocks,
			OptType: []int32{257, 0, 512, -1}[r.Intn(4)], Options: opts}
		// such a proposal must never be accepted: a winning option that fails to parse at its applying
		// height, or out-of-range limits, would stop block processing (DESIGN C09 governance candidates)
		p.Note = "hostile:proposal-option"
		out = append(out, p)
	}
	for _, n := range []int{0, 1, 32, 63, 64, 66, 96, 130} {
		t := s.baseTx(1, u(), u().Addr)
		t.Amount = "1"
		t.Tamper = fmt.Sprintf("siglen:%d", n)
		add("signature-length", t)
	}
	d := s.baseTx(7, u(), zero)
	d.DocName, d.DocURL = strings.Repeat("n", 100000), strings.Repeat("u", 5000)
	add("setdoc-huge", d)
	st := s.H.Keys[fmt.Sprintf("s%d-stranger", s.H.Seed)]
	x := s.baseTx(1, st, u().Addr)
	x.Nonce = 0
	add("unknown-sender", x)
	return out
}

// wrongPayload re-encodes a transaction with a payload that does not belong to its type
func wrongPayload(bt *Built, r *rand.Rand) []byte {
	tx := bt.Spec.trx()
	switch r.Intn(4) {
	case 0:
		tx.Payload = nil
	case 1:
		tx.Payload = &ctrlertypes.TrxPayloadVoting{TxHash: randBytes(r, 32), Choice: 1}
	case 2:
		tx.Payload = &ctrlertypes.TrxPayloadWithdraw{ReqAmt: u256("5")}
	default:
		tx.Payload = &ctrlertypes.TrxPayloadSetDoc{Name: "a", URL: "b"}
	}
	bz, _ := tx.Encode()
	return bz
}

// HostileRun builds a little state, then feeds the adversarial stream to DeliverTx (inside blocks),
// CheckTx and Query, with panic capture and well-formed follow-up requests.
func HostileRun(seed int64, scratch string, rounds int) (*HostileStats, error) {
	hs := &HostileStats{ByKind: map[string]int{}}
	s, err := NewSim(seed, scratch, "hostile")
	if err != nil {
		return nil, err
	}
	defer s.node.Close()
	for i := 0; i < 6; i++ {
		if err := s.Step(); err != nil {
			if strings.Contains(err.Error(), "panicked") {
				// an ordinary generated block already crashes the node: report it with the transaction
				last := ""
				if nb := len(s.H.Blocks); nb > 0 && len(s.H.Blocks[nb-1].Txs) > 0 {
					txs := s.H.Blocks[nb-1].Txs
					last = txs[len(txs)-1].Spec.Note
				}
				hs.Panics = append(hs.Panics, fmt.Sprintf("generated-tx(%s) via DeliverTx: %s", last, firstWords(err.Error())))
				return hs, nil
			}
			return nil, fmt.Errorf("warm-up: %v", err)
		}
	}
	r := rand.New(rand.NewSource(seed ^ 0x5ca1ab1e))
	note := func(kind, where, p string) {
		if len(p) > 1500 {
			p = p[:1500]
		}
		hs.Panics = append(hs.Panics, fmt.Sprintf("%s via %s: %s", kind, where, strings.ReplaceAll(p, "\n", " ")))
	}
	for round := 0; round < rounds; round++ {
		// ---- a block whose transactions are hostile
		s.height++
		b := &BlockSpec{Height: s.height}
		if cur := s.sets[s.height]; len(cur) > 0 {
			b.Proposer = cur[0].Addr
		}
		for _, v := range s.sets[s.height-1] {
			b.Votes = append(b.Votes, Vote{Addr: v.Addr, Power: v.Power, Signed: true})
		}
		if _, _, p := s.node.Begin(b); p != "" {
			hs.Unusable = append(hs.Unusable, "BeginBlock panicked: "+firstWords(p))
			return hs, nil
		}
		var inputs []struct {
			kind string
			ty   int32
			bz   []byte
		}
		push := func(kind string, ty int32, bz []byte) {
			inputs = append(inputs, struct {
				kind string
				ty   int32
				bz   []byte
			}{kind, ty, bz})
		}
		for k := 0; k < 6; k++ {
			push("random-bytes", 0, randBytes(r, r.Intn(400)))
		}
		push("empty", 0, nil)
		var goodBuilt []*Built
		for k := 0; k < 6; k++ {
			bt, err := Build(s.genValidish(), s.H.Keys, s.H.Genesis.ChainID)
			if err != nil {
				continue
			}
			goodBuilt = append(goodBuilt, bt)
			trunc := bt.Bytes[:r.Intn(len(bt.Bytes))]
			push("truncated", bt.Spec.Type, trunc)
			fl := append([]byte(nil), bt.Bytes...)
			for q := 0; q < 1+r.Intn(3); q++ {
				fl[r.Intn(len(fl))] ^= byte(1 << uint(r.Intn(8)))
			}
			push("bit-flipped", bt.Spec.Type, fl)
			push("wrong-payload", bt.Spec.Type, wrongPayload(bt, r))
			push("appended-garbage", bt.Spec.Type, append(append([]byte(nil), bt.Bytes...), randBytes(r, 1+r.Intn(20))...))
		}
		for _, spec := range s.hostileSpecs(r) {
			bt, err := Build(spec, s.H.Keys, s.H.Genesis.ChainID)
			if err != nil {
				continue
			}
			push(spec.Note, spec.Type, bt.Bytes)
		}
		for _, in := range inputs {
			hs.Inputs++
			hs.DeliverInputs++
			hs.ByKind[in.kind]++
			d := s.node.Deliver(in.ty, in.bz)
			if d.Panic != "" {
				note(in.kind, "DeliverTx", d.Panic+fmt.Sprintf(" [input bytes %x]", in.bz))
			} else if d.Code == 0 || (d.Reason != 0 && d.Reason != 6 && d.Reason != 1) {
				hs.ReachedController++
				if d.Code == 0 {
					// keep the generator's shadow in step when a hostile-looking input was in fact valid
					var t ctrlertypes.Trx
					if xerr := t.Decode(in.bz); xerr == nil {
						s.nonces[string(t.From)]++
					}
				}
			}
			hs.Inputs++
			hs.CheckInputs++
			if _, p := s.node.Check(in.bz); p != "" {
				note(in.kind, "CheckTx", p+fmt.Sprintf(" [input bytes %x]", in.bz))
			}
		}
		// follow-up: a well-formed transfer must still be processed
		if bt, err := Build(s.genTxNoInvalid(), s.H.Keys, s.H.Genesis.ChainID); err == nil {
			hs.FollowUps++
			d := s.node.Deliver(bt.Spec.Type, bt.Bytes)
			if d.Panic == "" && d.Code == 0 {
				hs.FollowUpOK++
				s.nonces[string(bt.Spec.From)]++
			} else if d.Panic != "" {
				hs.Unusable = append(hs.Unusable, "follow-up DeliverTx panicked: "+firstWords(d.Panic))
			}
		}
		ups, _, p := s.node.End(s.height)
		if p != "" {
			hs.Unusable = append(hs.Unusable, "EndBlock panicked after hostile block: "+firstWords(p))
			return hs, nil
		}
		if _, p := s.node.Commit(); p != "" {
			hs.Unusable = append(hs.Unusable, "Commit panicked after hostile block: "+firstWords(p))
			return hs, nil
		}
		s.sets[s.height+2] = applyUps(s.sets[s.height+1], ups)
		if _, ok := s.sets[s.height+3]; !ok {
			s.sets[s.height+3] = nil
		}
		s.refreshShadow()
		// ---- queries
		datas := [][]byte{nil, {}, {1}, randBytes(r, 19), randBytes(r, 20), randBytes(r, 21), randBytes(r, 32), randBytes(r, 39), randBytes(r, 40), randBytes(r, 41), randBytes(r, 200)}
		if len(s.all) > 0 {
			datas = append(datas, s.pick(s.all).Addr)
		}
		heights := []int64{-1, 0, 1, s.height, s.height + 1, s.height + 1000, math.MaxInt64, math.MinInt64}
		paths := append(append([]string{}, queryPaths...), "vm_call", "", "unknown/path", "account/", "stakes/")
		for _, path := range paths {
			for _, d := range datas {
				hq := heights[r.Intn(len(heights))]
				hs.Inputs++
				hs.QueryInputs++
				hs.ByKind["query:"+path]++
				if path == "vm_call" && len(d) >= 40 {
					// past its length check vm_call asks the Tendermint RPC layer for the block time, which
					// does not exist in-process: the rest of the handler is driven through the accessor
					perr := guard(func() {
						_, _ = s.node.App.VerifEVMCtrler().VerifCallVM(d[:20], d[20:40], d[40:], hq, 1_700_000_000)
					})
					if perr != nil {
						note(fmt.Sprintf("vm_call body data-len %d height %d", len(d), hq), "callVM", perr.Error())
					}
					continue
				}
				if _, p := s.node.Query(path, d, hq); p != "" {
					note(fmt.Sprintf("query %q data-len %d height %d", path, len(d), hq), "Query", p)
				}
			}
		}
		// the node must still answer a plain query
		if r0, p := s.node.Query("gov_params", nil, 0); p != "" || r0.Code != 0 {
			hs.Unusable = append(hs.Unusable, "gov_params query fails after the hostile stream")
		}
		_ = goodBuilt
		// a normal block afterwards
		if err := s.Step(); err != nil {
			hs.Unusable = append(hs.Unusable, "normal block after hostile stream: "+err.Error())
			return hs, nil
		}
	}
	return hs, nil
}
