package apph

import (
	"bytes"
	"encoding/hex"
	"encoding/json"
	"fmt"
	"math/big"
	"math/rand"
	"os"
	"os/exec"
	"path/filepath"
	"reflect"
	"sort"
	"strings"
	"time"
)

// Perturb describes what is done to a recorded history when it is executed again on another real
// node: restarts from the data directory at block boundaries, mempool checks and queries injected
// at every ABCI call boundary.  The consensus-visible answers must not change (C01, C06, C07).
type Perturb struct {
	RestartAfter map[int64]bool
	Noise        bool
	NoiseSeed    int64
	ExtraCheck   []*Built // transactions offered to CheckTx (besides the history's own)
}

type PerturbStats struct {
	Restarts, Checks, ChecksPassed, Queries, Boundaries int
	FreshChecks, FreshPassed, QueriesCompared           int
	FreshVotes                                          int // never-delivered votes of recorded voters that passed CheckTx
	FreshToContract                                     int
	QueryMismatch                                       []string
	CheckPanics, QueryPanics                            []string
	InfoMismatch                                        []string
}

// dirListing: names and sizes of all files below dir (to notice a store that changed while being copied)
func dirListing(dir string) string {
	var sb strings.Builder
	_ = filepath.Walk(dir, func(p string, info os.FileInfo, err error) error {
		if err == nil && !info.IsDir() {
			fmt.Fprintf(&sb, "%s:%d;", p[len(dir):], info.Size())
		}
		return nil
	})
	return sb.String()
}

// copyDir copies a data directory of a node that is idle between two ABCI calls.  goleveldb may still
// be compacting in the background (files appear and vanish): the copy is repeated until it
// succeeds and the source listing is the same before and after it.
func copyDir(src, dst string) error {
	var lastErr error
	for attempt := 0; attempt < 40; attempt++ {
		_ = os.RemoveAll(dst)
		if err := os.MkdirAll(filepath.Dir(dst), 0o700); err != nil {
			return err
		}
		before := dirListing(src)
		out, err := exec.Command("cp", "-r", src, dst).CombinedOutput()
		if err == nil && dirListing(src) == before {
			return nil
		}
		if err != nil {
			lastErr = fmt.Errorf("cp -r: %v: %s", err, out)
		} else {
			lastErr = fmt.Errorf("data directory kept changing while it was copied")
		}
		time.Sleep(50 * time.Millisecond)
	}
	return lastErr
}

var queryPaths = []string{"account", "delegatee", "stakes", "stakes/total_power", "stakes/voting_power", "reward", "proposal", "gov_params"}

// RerunPerturbed executes the recorded history with the perturbations and returns the answers
func RerunPerturbed(h *History, scratch, label string, p Perturb) (*History, *PerturbStats, error) {
	st := &PerturbStats{}
	rng := rand.New(rand.NewSource(p.NoiseSeed))
	dir := freshDir(scratch, label)
	var dirs = []string{dir}
	defer func() {
		for _, d := range dirs {
			os.RemoveAll(d)
		}
	}()
	n, info, err := OpenNode(dir)
	if err != nil {
		return nil, st, err
	}
	nodes := []*Node{n}
	defer func() {
		for _, x := range nodes {
			x.Close()
		}
	}()
	if info.LastBlockHeight != 0 {
		return nil, st, fmt.Errorf("fresh node reports height %d", info.LastBlockHeight)
	}
	if err := n.InitChain(h.Genesis); err != nil {
		return nil, st, err
	}
	out := &History{Seed: h.Seed, Genesis: h.Genesis, Blocks: h.Blocks, WatchA: h.WatchA, WatchH: h.WatchH,
		StrTab: h.StrTab, OptTab: h.OptTab, Stats: map[string]int{}, Keys: h.Keys}

	// pool of transactions for the injected CheckTx calls
	var pool []*Built
	for _, b := range h.Blocks {
		pool = append(pool, b.Txs...)
	}
	pool = append(pool, p.ExtraCheck...)
	// fresh mempool traffic: transactions signed now, with the nonce the mempool side expects,
	// that pass CheckTx and are NEVER delivered (a real mempool holds such transactions all the time)
	var labels []string
	for l := range h.Keys {
		labels = append(labels, l)
	}
	sort.Strings(labels)
	pendingNonce := map[string]uint64{}
	fresh := func(height int64) {
		if height < 2 || len(labels) == 0 {
			return
		}
		key := h.Keys[labels[rng.Intn(len(labels))]]
		watch := [][]byte{key.Addr}
		for _, v := range h.Genesis.Vals {
			watch = append(watch, v.Key.Addr)
		}
		sn, err := n.Snapshot(height-1, watch, nil)
		if err != nil || len(sn.Accts) == 0 {
			return
		}
		t := &TxSpec{Type: 1, From: key.Addr, To: watch[rng.Intn(len(watch))], Amount: "1", GasPrice: sn.Params.GasPrice,
			Gas: sn.Params.MinTrxGas + 1, Nonce: sn.Accts[0].Nonce + pendingNonce[string(key.Addr)],
			Time: int64(1_800_000_000_000_000_000) + int64(st.Checks), SignerLabel: key.Name, Note: "noise-fresh"}
		// contracts deployed so far: a plain transfer to one of them is routed to the EVM
		var contracts [][]byte
		for _, b := range h.Blocks {
			if b.Height >= height {
				break
			}
			for _, bt := range b.Txs {
				if bt.Evm != nil && bt.Evm.OK && bt.Evm.Created != nil {
					contracts = append(contracts, bt.Evm.Created)
				}
			}
		}
		if len(contracts) > 0 && rng.Intn(3) == 0 {
			t.To = contracts[rng.Intn(len(contracts))]
			t.Amount = fmt.Sprint(100 + rng.Intn(900))
			t.Gas = uint64(100000 + rng.Intn(300000))
			if rng.Intn(3) == 0 {
				t.Type = 6
				t.Data = word(big.NewInt(int64(rng.Intn(50))).Bytes())
			}
			t.Note = "noise-fresh-to-contract"
			if bt, err := Build(t, h.Keys, h.Genesis.ChainID); err == nil {
				code, pn := n.Check(bt.Bytes)
				st.Checks++
				st.FreshChecks++
				if pn != "" {
					st.CheckPanics = append(st.CheckPanics, pn)
				} else if code == 0 {
					st.ChecksPassed++
					st.FreshPassed++
					st.FreshToContract++
					pendingNonce[string(key.Addr)]++
				}
			}
			return
		}
		if rng.Intn(4) == 0 && len(h.WatchH) > 0 {
			// a vote of a recorded voter on a proposal whose voting window is open: checked, never delivered
			if snp, err := n.Snapshot(height-1, nil, h.WatchH); err == nil {
				for pi, p := range snp.Props {
					if p == nil || p.Frozen || height < p.Start || height > p.End || len(p.Voters) == 0 || len(p.Options) == 0 {
						continue
					}
					v := p.Voters[rng.Intn(len(p.Voters))]
					var vk *Key
					for _, k := range h.Keys {
						if bytes.Equal(k.Addr, v.Addr) {
							kk := k
							vk = &kk
						}
					}
					sv, err := n.Snapshot(height-1, [][]byte{v.Addr}, nil)
					if vk == nil || err != nil || len(sv.Accts) == 0 {
						continue
					}
					vt := &TxSpec{Type: 5, From: v.Addr, To: make([]byte, 20), Amount: "0", GasPrice: sn.Params.GasPrice, Gas: sn.Params.MinTrxGas + 1,
						Nonce: sv.Accts[0].Nonce + pendingNonce[string(v.Addr)], Time: int64(1_800_000_000_000_000_000) + int64(st.Checks),
						SignerLabel: vk.Name, VoteHash: h.WatchH[pi], VoteChoice: int32(rng.Intn(len(p.Options))), Note: "noise-fresh-vote"}
					if bt, err := Build(vt, h.Keys, h.Genesis.ChainID); err == nil {
						code, pn := n.Check(bt.Bytes)
						st.Checks++
						st.FreshChecks++
						if pn != "" {
							st.CheckPanics = append(st.CheckPanics, pn)
						} else if code == 0 {
							st.ChecksPassed++
							st.FreshPassed++
							st.FreshVotes++
							pendingNonce[string(v.Addr)]++
						}
					}
					return
				}
			}
		}
		switch rng.Intn(5) {
		case 0: // transfer
		case 4: // withdraw part (often most) of the committed reward
			if len(sn.Rewards) == 0 || sn.Rewards[0] == nil {
				return
			}
			cum, ok := new(big.Int).SetString(sn.Rewards[0].Cumulated, 10)
			if !ok || cum.Sign() == 0 {
				return
			}
			t.Type, t.To, t.Amount = 8, make([]byte, 20), "0"
			t.WithdrawReq = frac(cum, int64(2+rng.Intn(3)), 4)
		case 1: // stake to self or to a validator
			t.Type, t.Amount = 2, rigo(int64(1+rng.Intn(3)))
			if rng.Intn(2) == 0 {
				t.To = key.Addr
			}
		default: // release one of the sender's stakes (twice as likely: this is what moves stakes between ledgers)
			var own []StakeView
			for _, d := range sn.Dels {
				if d == nil {
					continue
				}
				for _, s0 := range d.Stakes {
					if string(s0.From) == string(key.Addr) {
						own = append(own, s0)
					}
				}
			}
			if len(own) == 0 {
				return
			}
			s0 := own[rng.Intn(len(own))]
			t.Type, t.To, t.UnstakeHash, t.Amount = 3, s0.To, s0.Hash, "0"
		}
		bt, err := Build(t, h.Keys, h.Genesis.ChainID)
		if err != nil {
			return
		}
		code, pn := n.Check(bt.Bytes)
		st.Checks++
		st.FreshChecks++
		if pn != "" {
			st.CheckPanics = append(st.CheckPanics, pn)
		} else if code == 0 {
			st.ChecksPassed++
			st.FreshPassed++
			pendingNonce[string(key.Addr)]++
		}
	}
	committed := int64(0) // latest committed height on this node
	noise := func(height int64) {
		st.Boundaries++
		if !p.Noise {
			return
		}
		if rng.Intn(3) == 0 {
			fresh(height)
		}
		for k := rng.Intn(3); k > 0; k-- {
			switch rng.Intn(5) {
			case 0, 1, 2:
				if len(pool) == 0 {
					continue
				}
				t := pool[rng.Intn(len(pool))]
				bz := t.Bytes
				if rng.Intn(10) == 0 {
					bz = append([]byte(nil), bz...)
					bz[rng.Intn(len(bz))] ^= byte(1 << uint(rng.Intn(8)))
				}
				code, pn := n.Check(bz)
				st.Checks++
				if pn != "" {
					st.CheckPanics = append(st.CheckPanics, pn)
				} else if code == 0 {
					st.ChecksPassed++
				}
			default:
				path := queryPaths[rng.Intn(len(queryPaths))]
				var data []byte
				if len(h.WatchA) > 0 {
					data = h.WatchA[rng.Intn(len(h.WatchA))]
				}
				if path == "proposal" {
					data = nil
					if len(h.WatchH) > 0 && rng.Intn(2) == 0 {
						data = h.WatchH[rng.Intn(len(h.WatchH))]
					}
				}
				hq := int64(0)
				if height > 1 && rng.Intn(2) == 0 {
					hq = 1 + rng.Int63n(height)
				}
				rq, pn := n.Query(path, data, hq)
				st.Queries++
				if pn != "" {
					st.QueryPanics = append(st.QueryPanics, fmt.Sprintf("%s h=%d: %s", path, hq, pn))
				} else {
					// the answer must be the one the quiet node gave for that committed height at the
					// end of its run, whatever the mempool side has seen since
					eff := hq
					if eff == 0 {
						eff = committed
					}
					if eff >= 1 && eff <= committed && int(eff) <= len(h.Snaps) && h.Snaps[eff-1] != nil {
						if want, ok := h.Snaps[eff-1].Raw[path+"|"+hex.EncodeToString(data)]; ok {
							st.QueriesCompared++
							wc, wv := want, ""
							if i := strings.Index(want, ":"); i >= 0 {
								wc, wv = want[:i], want[i+1:]
							}
							got := fmt.Sprintf("%d:%s", rq.Code, canonJSON(rq.Value))
							if got != wc+":"+canonJSON([]byte(wv)) {
								st.QueryMismatch = append(st.QueryMismatch, fmt.Sprintf("%s key=%x asked height=%d (latest committed %d) while block %d was being processed, after %d passed mempool checks: got %.300s want %.300s",
									path, data, hq, committed, height, st.ChecksPassed, got, wc+":"+canonJSON([]byte(wv))))
							}
						}
					}
				}
			}
		}
	}

	for bi, b := range h.Blocks {
		o := &BlockObs{}
		noise(b.Height)
		o.Issued, o.BeginEvts, o.BeginPanic = n.Begin(b)
		if o.BeginPanic != "" {
			out.Obs = append(out.Obs, o)
			out.Err = "BeginBlock panicked: " + o.BeginPanic
			break
		}
		noise(b.Height)
		for _, t := range b.Txs {
			o.Delivers = append(o.Delivers, n.Deliver(t.Spec.Type, t.Bytes))
			noise(b.Height)
		}
		o.ValUpdates, o.EndEvts, o.EndPanic = n.End(b.Height)
		if o.EndPanic != "" {
			out.Obs = append(out.Obs, o)
			out.Err = "EndBlock panicked: " + o.EndPanic
			break
		}
		noise(b.Height)
		if p.Noise {
			// between the EndBlock that applied a governance proposal and its Commit (the new parameters are
			// decided but not yet in force) the mempool always checks something
			for _, e := range o.EndEvts {
				if strings.Contains(e, "applied") {
					fresh(b.Height)
					if len(pool) > 0 {
						if code, pn := n.Check(pool[rng.Intn(len(pool))].Bytes); pn != "" {
							st.CheckPanics = append(st.CheckPanics, pn)
						} else if code == 0 {
							st.ChecksPassed++
						}
						st.Checks++
					}
					break
				}
			}
		}
		o.AppHash, o.CommitPanic = n.Commit()
		if o.CommitPanic != "" {
			out.Obs = append(out.Obs, o)
			out.Err = "Commit panicked: " + o.CommitPanic
			break
		}
		o.TreeOps, o.Writes = lastTreeOps, lastWrites
		o.Frozen = n.FrozenStakes()
		out.Obs = append(out.Obs, o)
		committed = b.Height
		for k := range pendingNonce { // Commit resets the mempool-side state
			delete(pendingNonce, k)
		}
		noise(b.Height + 1)
		if p.RestartAfter[b.Height] && bi < len(h.Blocks)-1 {
			// the process stops after this commit and starts again from what is on disk
			ndir := filepath.Join(scratch, fmt.Sprintf("%s-r%d", label, b.Height))
			if err := copyDir(n.Dir, ndir); err != nil {
				return out, st, err
			}
			dirs = append(dirs, ndir)
			nn, ninfo, err := OpenNode(ndir)
			if err != nil {
				out.Err = fmt.Sprintf("restart after block %d failed: %v", b.Height, err)
				break
			}
			// the stopped process is gone: its stores are closed (a node holds a few hundred MB of
			// database caches) and its directory is removed
			n.Close()
			os.RemoveAll(n.Dir)
			nodes[len(nodes)-1] = nn
			n = nn
			st.Restarts++
			if ninfo.LastBlockHeight != b.Height || !bytes.Equal(ninfo.LastBlockAppHash, o.AppHash) {
				st.InfoMismatch = append(st.InfoMismatch, fmt.Sprintf("after restart at %d Info reports height %d hash %X, committed %X",
					b.Height, ninfo.LastBlockHeight, ninfo.LastBlockAppHash, o.AppHash))
			}
		}
	}
	for i := range out.Obs {
		if out.Obs[i].AppHash == nil {
			break
		}
		sn, err := n.Snapshot(int64(i+1), h.WatchA, h.WatchH)
		if err != nil {
			return out, st, err
		}
		out.Snaps = append(out.Snaps, sn)
	}
	return out, st, nil
}

// CompareRuns lists every consensus-visible difference between two executions of one history
func CompareRuns(a, b *History, what string) []string {
	var diffs []string
	if a.Err != b.Err {
		diffs = append(diffs, fmt.Sprintf("%s: run ended differently: %q vs %q", what, a.Err, b.Err))
	}
	for i := range a.Obs {
		if i >= len(b.Obs) {
			diffs = append(diffs, fmt.Sprintf("%s: block %d missing in the second run", what, i+1))
			break
		}
		x, y := a.Obs[i], b.Obs[i]
		if x.Issued != y.Issued {
			diffs = append(diffs, fmt.Sprintf("%s: block %d issued reward %s vs %s", what, i+1, x.Issued, y.Issued))
		}
		for j := range x.Delivers {
			if j >= len(y.Delivers) {
				break
			}
			p, q := x.Delivers[j], y.Delivers[j]
			if p.Code != q.Code || p.GasUsed != q.GasUsed || p.GasWanted != q.GasWanted || !bytes.Equal(p.Data, q.Data) || p.Panic != q.Panic {
				diffs = append(diffs, fmt.Sprintf("%s: block %d tx %d (%s): code %d gas %d vs code %d gas %d [%s | %s]", what, i+1, j,
					a.Blocks[i].Txs[j].Spec.Note, p.Code, p.GasUsed, q.Code, q.GasUsed, firstLine(p.Log), firstLine(q.Log)))
			}
		}
		if !(len(x.ValUpdates) == 0 && len(y.ValUpdates) == 0) && !reflect.DeepEqual(x.ValUpdates, y.ValUpdates) {
			diffs = append(diffs, fmt.Sprintf("%s: block %d validator updates %v vs %v", what, i+1, x.ValUpdates, y.ValUpdates))
		}
		if !bytes.Equal(x.AppHash, y.AppHash) {
			diffs = append(diffs, fmt.Sprintf("%s: block %d application hash %X vs %X", what, i+1, x.AppHash, y.AppHash))
		}
	}
	return diffs
}

func firstLine(s string) string {
	for i := 0; i < len(s); i++ {
		if s[i] == '\n' {
			if i+60 < len(s) {
				return s[i+1 : i+60]
			}
			return s[i+1:]
		}
	}
	return s
}

// TreeOpShape checks, per commit and per ledger, that the tree operations are all removals
// followed by sets in strictly descending key order (the shape Ledger.commit_treeops prescribes:
// the only place where Go's map iteration order could reach the IAVL root hash).  It returns the
// violations and the number of commits that wrote two or more keys into one ledger.
func TreeOpShape(h *History) (bad []string, multi int) {
	for bi, o := range h.Obs {
		per := map[string][]TreeOp{}
		var order []string
		for _, t := range o.TreeOps {
			if _, ok := per[t.Ledger]; !ok {
				order = append(order, t.Ledger)
			}
			per[t.Ledger] = append(per[t.Ledger], t)
		}
		for _, name := range order {
			ops := per[name]
			sets := 0
			seenSet := false
			var prev []byte
			for _, t := range ops {
				if !t.Set {
					if seenSet {
						bad = append(bad, fmt.Sprintf("block %d ledger %s: a removal after a set", bi+1, name))
					}
					continue
				}
				seenSet = true
				sets++
				if prev != nil && bytes.Compare(prev, t.Key) <= 0 {
					bad = append(bad, fmt.Sprintf("block %d ledger %s: sets not in strictly descending key order (%X then %X)", bi+1, name, prev[:4], t.Key[:4]))
				}
				prev = t.Key
			}
			if sets >= 2 {
				multi++
			}
		}
	}
	return
}

// CompareTreeOps: two replicas must perform the same tree operations in the same order
func CompareTreeOps(a, b *History) []string {
	var diffs []string
	for i := range a.Obs {
		if i >= len(b.Obs) {
			break
		}
		if !reflect.DeepEqual(a.Obs[i].TreeOps, b.Obs[i].TreeOps) && !(len(a.Obs[i].TreeOps) == 0 && len(b.Obs[i].TreeOps) == 0) {
			diffs = append(diffs, fmt.Sprintf("block %d: the two replicas performed different tree operations at commit", i+1))
		}
		if !reflect.DeepEqual(a.Obs[i].Writes, b.Obs[i].Writes) {
			diffs = append(diffs, fmt.Sprintf("block %d: durable write order differs: %v vs %v", i+1, a.Obs[i].Writes, b.Obs[i].Writes))
		}
	}
	return diffs
}

// QueryStats: what the query-stability run covered (property C19)
type QueryStats struct {
	Asked, Repeated, MidBlock, Height0, Beyond int
	Changed                                    []string // an answer for a past height changed
	Height0Wrong                               []string // height 0 did not mean "latest committed"
	BeyondOK                                   []string // a height above the latest was answered
	Panics                                     []string
}

// QueryStability re-executes the history and asks every query path for sampled (key, height) pairs
// at many moments — between blocks, in the middle of a block, after later blocks, after a restart.
// The first answer for a (path, key, height) is remembered; every later answer must be identical.
func QueryStability(h *History, scratch, label string, seed int64) (*QueryStats, error) {
	qs := &QueryStats{}
	rng := rand.New(rand.NewSource(seed))
	dir := freshDir(scratch, label)
	dirs := []string{dir}
	defer func() {
		for _, d := range dirs {
			os.RemoveAll(d)
		}
	}()
	n, _, err := OpenNode(dir)
	if err != nil {
		return nil, err
	}
	nodes := []*Node{n}
	defer func() {
		for _, x := range nodes {
			x.Close()
		}
	}()
	if err := n.InitChain(h.Genesis); err != nil {
		return nil, err
	}
	first := map[string]string{}
	latest := int64(0)
	keyOf := func(path string) []byte {
		switch path {
		case "proposal":
			if len(h.WatchH) > 0 && rng.Intn(3) > 0 {
				return h.WatchH[rng.Intn(len(h.WatchH))]
			}
			return nil
		case "gov_params", "stakes/total_power", "stakes/voting_power":
			return nil
		}
		return h.WatchA[rng.Intn(len(h.WatchA))]
	}
	paths := []string{"account", "delegatee", "stakes", "stakes/total_power", "reward", "proposal", "gov_params"}
	ask := func(path string, key []byte, height int64, mid bool) {
		r, p := n.Query(path, key, height)
		qs.Asked++
		if mid {
			qs.MidBlock++
		}
		if p != "" {
			qs.Panics = append(qs.Panics, fmt.Sprintf("%s h=%d: %s", path, height, firstWords(p)))
			return
		}
		// answers are compared as JSON values, not as bytes: the query encoder (tmjson) writes Go maps
		// (a proposal's voter table) in iteration order, which differs from call to call
		ans := fmt.Sprintf("%d:%s", r.Code, canonJSON(r.Value))
		if height > latest {
			qs.Beyond++
			if r.Code == 0 {
				qs.BeyondOK = append(qs.BeyondOK, fmt.Sprintf("%s at height %d answered although the latest committed height is %d", path, height, latest))
			}
			return
		}
		eff := height
		if height == 0 {
			qs.Height0++
			eff = latest
			if latest == 0 {
				return
			}
		}
		k := fmt.Sprintf("%s|%x|%d", path, key, eff)
		if old, ok := first[k]; ok {
			qs.Repeated++
			if old != ans {
				if height == 0 {
					qs.Height0Wrong = append(qs.Height0Wrong, fmt.Sprintf("%s with height 0 differs from the answer for height %d (latest committed)%s", path, latest, map[bool]string{true: " in the middle of a block", false: ""}[mid]))
				} else {
					qs.Changed = append(qs.Changed, fmt.Sprintf("%s key %x height %d: answer changed%s (latest %d)", path, key, height, map[bool]string{true: " in the middle of a block", false: ""}[mid], latest))
				}
			}
		} else {
			first[k] = ans
		}
	}
	burst := func(mid bool) {
		if latest == 0 {
			return
		}
		for k := 0; k < 14; k++ {
			path := paths[rng.Intn(len(paths))]
			key := keyOf(path)
			hq := 1 + rng.Int63n(latest)
			switch rng.Intn(6) {
			case 0:
				hq = 0
			case 1:
				hq = latest
			case 2:
				hq = latest + 1 + rng.Int63n(3)
			}
			ask(path, key, hq, mid)
			if hq == 0 { // the same question with the explicit height, for the comparison
				ask(path, key, latest, mid)
			}
		}
	}
	for bi, b := range h.Blocks {
		if _, _, p := n.Begin(b); p != "" {
			break
		}
		burst(true)
		for j, t := range b.Txs {
			n.Deliver(t.Spec.Type, t.Bytes)
			if j%2 == 0 {
				burst(true)
			}
		}
		if _, _, p := n.End(b.Height); p != "" {
			break
		}
		burst(true)
		if _, p := n.Commit(); p != "" {
			break
		}
		latest = b.Height
		burst(false)
		if bi == len(h.Blocks)/2 { // and after a restart from disk
			ndir := filepath.Join(scratch, label+"-r")
			if err := copyDir(n.Dir, ndir); err == nil {
				dirs = append(dirs, ndir)
				if nn, _, err := OpenNode(ndir); err == nil {
					n.Close()
					nodes[len(nodes)-1] = nn
					n = nn
					burst(false)
				}
			}
		}
	}
	for k := 0; k < 10; k++ {
		burst(false)
	}
	return qs, nil
}

func canonJSON(bz []byte) string {
	var v interface{}
	d := json.NewDecoder(bytes.NewReader(bz))
	d.UseNumber()
	if err := d.Decode(&v); err != nil {
		return string(bz)
	}
	out, err := json.Marshal(v)
	if err != nil {
		return string(bz)
	}
	return string(out)
}
