package apph

import (
	"fmt"
	"math/big"
)

// Corpus: hand-written histories that once separated the model from the code or exhibit a known
// finding.  They run before the generated histories in every application-level check.

func zero32() []byte { return make([]byte, 32) }

func easyParams(g *Genesis) {
	g.Params.MinValidatorStake = rigo(1)
	g.Params.MinDelegatorStake = "0"
	g.Params.MinSelfStakeRatio = 10
	g.Params.MaxValidatorCnt = 5
	g.Params.LazyRewardBlocks = 2
	for i := range g.Vals {
		found := false
		for _, h := range g.Holders {
			if string(h.Addr) == string(g.Vals[i].Key.Addr) {
				found = true
			}
		}
		if !found {
			g.Holders = append(g.Holders, Holder{Addr: g.Vals[i].Key.Addr, Balance: rigo(500)})
		}
	}
}

// CorpusHistories returns the named corpus scenarios (all of them when names is empty)
func CorpusHistories(scratch string, names map[string]bool) ([]*History, []string, error) {
	type sc struct {
		name          string
		nvals, nusers int
		blocks        int
		script        func(s *Sim, h int64) []*TxSpec
		tweak         func(g *Genesis)
	}
	scs := []sc{
		// two genesis stakes (both with tx hash 0) unbonding at once collide in the frozen ledger
		{"genesis-stake-collision", 2, 2, 6, func(s *Sim, h int64) []*TxSpec {
			if h == 2 {
				return []*TxSpec{s.TxUnstake(s.Val(0), s.Val(0).Addr, zero32()), s.TxUnstake(s.Val(1), s.Val(1).Addr, zero32())}
			}
			return nil
		}, nil},
		// a validator unbonds completely and stakes again twice inside one block (ledger set-after-delete)
		{"restake-after-full-unbond", 2, 2, 5, func(s *Sim, h int64) []*TxSpec {
			if h == 2 {
				v := s.Val(0)
				return SeqNonce([]*TxSpec{s.TxUnstake(v, v.Addr, zero32()), s.TxStake(v, v.Addr, 10), s.TxStake(v, v.Addr, 20)})
			}
			return nil
		}, nil},
		// a delegation in block 2 must not change the rewards of block 4
		{"reward-at-block-4", 2, 2, 7, func(s *Sim, h int64) []*TxSpec {
			if h == 2 {
				return []*TxSpec{s.TxStake(s.User(0), s.Val(0).Addr, 7)}
			}
			return nil
		}, nil},
		// staking to a genesis validator already in block 1: versions before 1 do not exist
		{"delegation-in-block-1", 2, 2, 7, func(s *Sim, h int64) []*TxSpec {
			if h == 1 {
				return []*TxSpec{s.TxStake(s.User(0), s.Val(0).Addr, 3)}
			}
			return nil
		}, nil},
		// a genesis validator withdraws in block 1: its removal is never announced to consensus
		{"genesis-validator-leaves-in-block-1", 3, 2, 5, func(s *Sim, h int64) []*TxSpec {
			if h == 1 {
				return []*TxSpec{s.TxUnstake(s.Val(0), s.Val(0).Addr, zero32())}
			}
			return nil
		}, nil},
		// byzantine evidence against a validator that also holds a stake too small to be slashed
		// proportionally (floor(1*50/100) = 0): that stake is forfeited as a whole and must leave the totals
		{"slash-with-tiny-stake", 2, 2, 7, func(s *Sim, h int64) []*TxSpec {
			switch h {
			case 2:
				return SeqNonce([]*TxSpec{s.TxStake(s.User(0), s.Val(0).Addr, 1), s.TxStake(s.User(0), s.Val(0).Addr, 3)})
			case 4:
				s.scriptEvidence = [][]byte{s.Val(0).Addr}
			case 5:
				return []*TxSpec{s.TxStake(s.User(1), s.Val(0).Addr, 2)}
			}
			return nil
		}, func(g *Genesis) { easyParams(g); g.Params.SlashRatio = 50 }},
		// the two ends of the legal slash-ratio range.  100: every stake is cut to power 0 and STAYS bonded
		// (floor(p*100/100) = p >= 1: it "can be reduced"); its owner can still release it and a later
		// stake bonds next to it.  0: floor(p*0/100) = 0 for every stake, so every stake is "too small to
		// be reduced" and is forfeited as a whole — what the code does and Spec.v says (slash_kept_ratio0)
		{"slash-ratio-100", 2, 2, 9, func(s *Sim, h int64) []*TxSpec {
			switch h {
			case 2:
				return []*TxSpec{s.TxStake(s.User(0), s.Val(0).Addr, 10)}
			case 3:
				s.scriptEvidence = [][]byte{s.Val(0).Addr}
			case 4:
				return []*TxSpec{s.TxStake(s.User(1), s.Val(0).Addr, 4)}
			case 5:
				for _, st := range s.stakes {
					if string(st.From) == string(s.User(0).Addr) {
						return []*TxSpec{s.TxUnstake(s.User(0), s.Val(0).Addr, st.Hash)}
					}
				}
			case 6:
				s.scriptEvidence = [][]byte{s.Val(0).Addr}
			}
			return nil
		}, func(g *Genesis) { easyParams(g); g.Params.SlashRatio = 100 }},
		{"slash-ratio-0", 2, 2, 7, func(s *Sim, h int64) []*TxSpec {
			switch h {
			case 2:
				return []*TxSpec{s.TxStake(s.User(0), s.Val(0).Addr, 10)}
			case 3:
				s.scriptEvidence = [][]byte{s.Val(1).Addr}
			case 4:
				return []*TxSpec{s.TxStake(s.User(1), s.Val(1).Addr, 4)}
			case 5:
				s.scriptEvidence = [][]byte{s.Val(0).Addr}
			}
			return nil
		}, func(g *Genesis) { easyParams(g); g.Params.SlashRatio = 0 }},
		// a validator's own stake falls below the minimum while delegations keep its total above it:
		// it must leave the validator set (the selection is by own stake, the ranking by total power)
		{"own-stake-falls-below-minimum", 2, 3, 11, func(s *Sim, h int64) []*TxSpec {
			a := s.User(0)
			switch h {
			case 2:
				return SeqNonce([]*TxSpec{s.TxStake(a, a.Addr, 10), s.TxStake(a, a.Addr, 5)})
			case 3:
				return []*TxSpec{s.TxStake(s.User(1), a.Addr, 10)}
			case 5:
				for _, st := range s.stakes {
					if string(st.From) == string(a.Addr) && st.Power == 10 {
						return []*TxSpec{s.TxUnstake(a, a.Addr, st.Hash)}
					}
				}
			case 7:
				return []*TxSpec{s.TxStake(s.User(2), a.Addr, 1)}
			case 8: // if A is still voting it is reported absent once: its record is written again
				s.scriptMiss = [][]byte{a.Addr}
			}
			return nil
		}, func(g *Genesis) {
			easyParams(g)
			g.Params.MinValidatorStake = rigo(10)
			g.Params.MinSelfStakeRatio = 50
		}},
		// governance lowers the maximum validator count from 3 to 2: the block after the parameters
		// change must drop the third validator — also on a node restarted right at that boundary
		{"validator-count-lowered-by-governance", 3, 2, 11, func(s *Sim, h int64) []*TxSpec {
			switch h {
			case 3:
				np := s.params
				np.MaxValidatorCnt, np.Version = 2, 2
				t := s.TxProposal(s.Val(0), 4, 1, 6)
				t.Prop.Options = []OptSpec{{Raw: np.JSON(true), Params: &np}}
				return []*TxSpec{t}
			case 4:
				if len(s.H.WatchH) > 0 {
					ph := s.H.WatchH[len(s.H.WatchH)-1]
					return []*TxSpec{s.TxVote(s.Val(0), ph, 0), s.TxVote(s.Val(1), ph, 0), s.TxVote(s.Val(2), ph, 0)}
				}
			case 9:
				return []*TxSpec{s.TxStake(s.User(0), s.Val(0).Addr, 1)}
			}
			return nil
		}, func(g *Genesis) {
			easyParams(g)
			g.Params.MaxValidatorCnt = 3
			g.Params.MinVotingPeriodBlocks, g.Params.MaxVotingPeriodBlocks, g.Params.LazyApplyingBlocks = 1, 3, 1
		}},
		// a validator that has already voted on an open proposal is slashed: its recorded weight and the
		// votes it gave shrink together, so the tally never counts power that no longer exists
		{"slashed-voter-on-open-proposal", 3, 2, 14, func(s *Sim, h int64) []*TxSpec {
			switch h {
			case 3:
				np := s.params
				np.MaxValidatorCnt, np.Version = 7, 2
				t := s.TxProposal(s.Val(0), 4, 3, 9)
				t.Prop.Options = []OptSpec{{Raw: np.JSON(true), Params: &np}}
				return []*TxSpec{t}
			case 4:
				if len(s.H.WatchH) > 0 {
					return []*TxSpec{s.TxVote(s.Val(0), s.H.WatchH[len(s.H.WatchH)-1], 0)}
				}
			case 5:
				s.scriptEvidence = [][]byte{s.Val(0).Addr}
			case 6:
				// two more voters of the same open proposal named in ONE block: both cuts stay in its record
				s.scriptEvidence = [][]byte{s.Val(1).Addr, s.Val(2).Addr}
				if len(s.H.WatchH) > 0 {
					return []*TxSpec{s.TxVote(s.Val(1), s.H.WatchH[len(s.H.WatchH)-1], 0)}
				}
			}
			return nil
		}, func(g *Genesis) {
			easyParams(g)
			g.Params.SlashRatio = 50
			g.Vals[0].Power, g.Vals[1].Power, g.Vals[2].Power = 40, 30, 30
			g.Params.MinVotingPeriodBlocks, g.Params.MaxVotingPeriodBlocks, g.Params.LazyApplyingBlocks = 1, 5, 1
		}},
		// evidence against a validator ALL of whose stakes are too small for the ratio (floor(p*1/100) = 0):
		// every stake is forfeited although the slashed sum is 0; later blocks write the delegatee again
		{"slash-when-every-stake-is-dust", 3, 2, 9, func(s *Sim, h int64) []*TxSpec {
			switch h {
			case 2:
				return []*TxSpec{s.TxStake(s.User(0), s.Val(0).Addr, 3)}
			case 4:
				s.scriptEvidence = [][]byte{s.Val(0).Addr}
			case 6:
				s.scriptMiss = [][]byte{s.Val(0).Addr}
			case 7:
				return []*TxSpec{s.TxStake(s.User(1), s.Val(0).Addr, 2)}
			}
			return nil
		}, func(g *Genesis) { easyParams(g); g.Params.SlashRatio = 1 }},
		// slashing forfeits a validator's whole (tiny) self stake while a delegation to it survives; when the
		// validator then stakes to itself again its record is the SAME record: the surviving delegation stays
		// bonded next to the new self stake
		{"self-stake-wiped-by-slashing-then-restaked", 2, 2, 8, func(s *Sim, h int64) []*TxSpec {
			switch h {
			case 2:
				return []*TxSpec{s.TxStake(s.User(0), s.Val(0).Addr, 5)}
			case 3:
				s.scriptEvidence = [][]byte{s.Val(0).Addr}
			case 4:
				return []*TxSpec{s.TxStake(s.Val(0), s.Val(0).Addr, 1)}
			case 6:
				return []*TxSpec{s.TxStake(s.User(1), s.Val(0).Addr, 2)}
			}
			return nil
		}, func(g *Genesis) { easyParams(g); g.Params.SlashRatio = 50; g.Vals[0].Power = 1 }},
		// an option reaches 2/3 of the voting power and loses it again when a voter changes its choice:
		// at the end of the window nobody holds 2/3, the proposal must be dropped and nothing applied
		{"revote-away-from-majority", 3, 2, 13, func(s *Sim, h int64) []*TxSpec {
			ph := func() []byte {
				if len(s.H.WatchH) > 0 {
					return s.H.WatchH[len(s.H.WatchH)-1]
				}
				return nil
			}
			switch h {
			case 3:
				a, b := s.params, s.params
				a.SlashRatio, a.Version = 77, 2
				b.SlashRatio, b.Version = 33, 2
				t := s.TxProposal(s.Val(0), 4, 4, 10)
				t.Prop.Options = []OptSpec{{Raw: a.JSON(true), Params: &a}, {Raw: b.JSON(true), Params: &b}}
				return []*TxSpec{t}
			case 4:
				if ph() != nil {
					return []*TxSpec{s.TxVote(s.Val(0), ph(), 0), s.TxVote(s.Val(1), ph(), 0)}
				}
			case 5: // votes by a recorded voter, inside the window, for options that do not exist: refused, no panic
				if ph() != nil {
					bad := func(choice int32) *TxSpec {
						t := s.TxVote(s.Val(2), ph(), choice)
						t.Note = "vote-bad-choice"
						return t
					}
					// ... also by a voter that HAS a vote on record (a refused vote must not withdraw it): the first
					// non-existing option (= number of options) and others; and the same choice sent again by the
					// same voter, which counts once
					bad0 := func(choice int32) *TxSpec {
						t := s.TxVote(s.Val(0), ph(), choice)
						t.Note = "vote-bad-choice-by-recorded-voter"
						return t
					}
					again := s.TxVote(s.Val(0), ph(), 0)
					again.Note = "vote-same-choice-again"
					// the repetition first (accepted), then the refused ones: nothing after them restores the vote
					out := []*TxSpec{bad(2), bad(3), bad(-1), bad(1 << 30), again}
					for _, c := range []int32{2, -1, 3} {
						t := bad0(c)
						t.Nonce++ // after the accepted repetition
						out = append(out, t)
					}
					return out
				}
			case 6:
				if ph() != nil {
					return []*TxSpec{s.TxVote(s.Val(1), ph(), 1)}
				}
			}
			return nil
		}, func(g *Genesis) {
			easyParams(g)
			g.Vals[0].Power, g.Vals[1].Power, g.Vals[2].Power = 10, 10, 10
			g.Params.MinVotingPeriodBlocks, g.Params.MaxVotingPeriodBlocks, g.Params.LazyApplyingBlocks = 1, 6, 1
		}},
		// contracts in a scripted history: a contract that destroys itself when it receives a plain
		// transfer (beneficiary = address 0), transfers before and after its destruction, a reverting call
		{"transfer-to-selfdestructing-contract", 2, 3, 9, func(s *Sim, h int64) []*TxSpec {
			deploy := func(from Key, prog []byte, value int64) *TxSpec {
				t := s.baseTx(6, from, make([]byte, 20))
				t.Data, t.Amount, t.Gas, t.Note = deployer(prog), fmt.Sprint(value), 400000, "script-deploy"
				return t
			}
			s.watchAddr(make([]byte, 20))
			switch h {
			case 2:
				return SeqNonce([]*TxSpec{deploy(s.User(0), progSuicide(), 5000), deploy(s.User(0), progReverter(), 0), deploy(s.User(0), progStore(s.rng), 0)})
			case 4:
				if len(s.contracts) >= 3 {
					t := s.TxTransfer(s.User(1), s.contracts[0], "700")
					t.Gas, t.Note = 100000, "script-transfer-to-suicide"
					u := s.TxTransfer(s.User(2), s.contracts[1], "5")
					u.Gas, u.Note = 100000, "script-transfer-to-reverter"
					v := s.TxTransfer(s.User(0), s.contracts[2], "9")
					v.Gas, v.Note = 100000, "script-transfer-to-store"
					return []*TxSpec{t, u, v}
				}
			case 6:
				if len(s.contracts) >= 1 {
					t := s.TxTransfer(s.User(1), s.contracts[0], "300")
					t.Gas, t.Note = 100000, "script-transfer-to-destroyed"
					return []*TxSpec{t}
				}
			case 7: // gas limit between the intrinsic gas and the governance minimum: refused like any other type
				if len(s.contracts) >= 3 {
					t := s.baseTx(6, s.User(2), s.contracts[2])
					t.Data, t.Gas, t.Note = word([]byte{7}), 30000, "script-call-below-minimum-fee"
					u := s.baseTx(6, s.User(2), s.contracts[2])
					u.Data, u.Gas, u.Note = word([]byte{8}), 100000, "script-call-at-minimum-fee"
					return []*TxSpec{t, u}
				}
			}
			return nil
		}, func(g *Genesis) { easyParams(g); g.Params.MinTrxGas = 100000 }},
		// every signed field once: a correctly signed transfer whose wire form is altered in ONE field after
		// signing (the version among them: 0 is what a missing proto3 field decodes to), then the honest
		// transaction itself — only the last one may have an effect
		{"one-field-altered-after-signing", 1, 2, 5, func(s *Sim, h int64) []*TxSpec {
			if h != 2 && h != 3 {
				return nil
			}
			var out []*TxSpec
			for _, tp := range []string{"version-0", "version-2", "amount", "to", "gas", "time"} {
				t := s.TxTransfer(s.User(0), s.User(1).Addr, "1000")
				t.Tamper, t.Note = tp, "tamper-"+tp
				out = append(out, t)
			}
			honest := s.TxTransfer(s.User(0), s.User(1).Addr, "1000")
			honest.Note = "honest-after-tampered"
			return append(out, honest)
		}, func(g *Genesis) { easyParams(g) }},
		// a chain without fees (gas price 0 is a legal parameter value): a contract call that moves no value
		// leaves the sender's balance exactly as it was, and its nonce is the only thing that keeps the same
		// signed call from being executed again
		{"fee-less-chain-contract-calls", 1, 2, 7, func(s *Sim, h int64) []*TxSpec {
			switch h {
			case 2:
				t := s.baseTx(6, s.User(0), make([]byte, 20))
				t.Data, t.Gas, t.Note = deployer(progStore(s.rng)), 400000, "script-deploy"
				return []*TxSpec{t}
			case 3, 4, 5:
				if len(s.contracts) >= 1 {
					t := s.baseTx(6, s.User(0), s.contracts[0])
					t.Data, t.Gas, t.Note = word([]byte{3}), 200000, "script-call"
					if h == 3 {
						s.scriptKeep = t
						return []*TxSpec{t}
					}
					if s.scriptKeep != nil { // the call of block 3 once more, bit for bit, then a fresh one
						again := *s.scriptKeep
						again.Note = "script-call-delivered-again"
						// and, where nothing has to be paid, a transfer out of somebody else's account signed with one's own key
						forged := s.TxTransfer(s.User(1), s.User(0).Addr, "777")
						forged.From, forged.Nonce = s.User(0).Addr, t.Nonce
						forged.SignerLabel, forged.Note = s.User(1).Name, "signed-by-other-on-a-fee-less-chain"
						return []*TxSpec{&again, forged, t}
					}
				}
			}
			return nil
		}, func(g *Genesis) { easyParams(g); g.Params.GasPrice = "0" }},
		// the EVM gas pool of a block (25,000,000): the second transaction whose gas LIMIT no longer fits is
		// refused ("gas limit reached") and leaves nothing; the pool starts afresh with every block — also on a
		// node restarted in between
		{"evm-block-gas-pool", 2, 3, 9, func(s *Sim, h int64) []*TxSpec {
			call := func(from Key, gas uint64, note string) *TxSpec {
				t := s.baseTx(6, from, s.contracts[0])
				t.Data, t.Gas, t.Note = word([]byte{byte(h)}), gas, note
				return t
			}
			switch h {
			case 2:
				t := s.baseTx(6, s.User(0), make([]byte, 20))
				t.Data, t.Gas, t.Note = deployer(progStore(s.rng)), 400000, "script-deploy"
				return []*TxSpec{t}
			case 4, 7:
				if len(s.contracts) >= 1 {
					// ... and between the refusal and the next contract call the refused sender acts natively:
					// what the EVM side loaded for it before the refusal must not come back over that
					nat := s.TxTransfer(s.User(1), s.User(2).Addr, "4000")
					nat.Note = "script-native-transfer-after-pool-refusal"
					return []*TxSpec{call(s.User(0), 25000000, "script-call-gas-25M"), call(s.User(1), 25000000, "script-call-gas-25M-second"), nat, call(s.User(2), 100000, "script-call-after-pool-refusal")}
				}
			case 5:
				if len(s.contracts) >= 1 {
					return []*TxSpec{call(s.User(1), 15000000, "script-call-gas-15M"), call(s.User(2), 15000000, "script-call-gas-15M-second")}
				}
			}
			return nil
		}, func(g *Genesis) { easyParams(g) }},
		// an account with enough own stake to be a candidate, but outside the selected validator set
		// (the set is full), submits a parameter proposal: only current validators may
		{"candidate-outside-the-set-proposes", 2, 2, 9, func(s *Sim, h int64) []*TxSpec {
			switch h {
			case 2:
				return []*TxSpec{s.TxStake(s.User(0), s.User(0).Addr, 5)}
			case 5:
				np := s.params
				np.SlashRatio, np.Version = 60, 2
				t := s.TxProposal(s.User(0), 6, 1, 8)
				t.Prop.Options = []OptSpec{{Raw: np.JSON(true), Params: &np}}
				t.Note = "script-proposal-by-non-validator"
				return []*TxSpec{t}
			case 6:
				if len(s.H.WatchH) > 0 {
					ph := s.H.WatchH[len(s.H.WatchH)-1]
					return []*TxSpec{s.TxVote(s.Val(0), ph, 0), s.TxVote(s.Val(1), ph, 0)}
				}
			}
			return nil
		}, func(g *Genesis) {
			easyParams(g)
			g.Params.MaxValidatorCnt = 2
			g.Params.MinVotingPeriodBlocks, g.Params.MaxVotingPeriodBlocks, g.Params.LazyApplyingBlocks = 1, 3, 1
		}},
		// the unbonding period changes by governance between two releases: each release is locked for the
		// period in force at ITS release
		{"unbonding-period-changed-by-governance", 1, 2, 20, func(s *Sim, h int64) []*TxSpec {
			u := s.User(0)
			mine := func(power int64) *TxSpec {
				for _, st := range s.stakes {
					if string(st.From) == string(u.Addr) && st.Power == power {
						return s.TxUnstake(u, st.To, st.Hash)
					}
				}
				return nil
			}
			switch h {
			case 2:
				return SeqNonce([]*TxSpec{s.TxStake(u, s.Val(0).Addr, 3), s.TxStake(u, s.Val(0).Addr, 4)})
			case 3:
				np := s.params
				np.LazyRewardBlocks, np.Version = 9, 2
				t := s.TxProposal(s.Val(0), 4, 1, 6)
				t.Prop.Options = []OptSpec{{Raw: np.JSON(true), Params: &np}}
				if r := mine(3); r != nil {
					return []*TxSpec{t, r}
				}
				return []*TxSpec{t}
			case 4:
				if len(s.H.WatchH) > 0 {
					return []*TxSpec{s.TxVote(s.Val(0), s.H.WatchH[len(s.H.WatchH)-1], 0)}
				}
			case 8:
				if r := mine(4); r != nil {
					return []*TxSpec{r}
				}
			}
			return nil
		}, func(g *Genesis) {
			easyParams(g)
			g.Params.LazyRewardBlocks = 2
			g.Params.MinVotingPeriodBlocks, g.Params.MaxVotingPeriodBlocks, g.Params.LazyApplyingBlocks = 1, 3, 1
		}},
		// governance doubles the minimum gas: from the block after the change took effect a transaction that
		// pays the OLD minimum fee is refused (the price a fee is checked against is the one in force)
		{"minimum-fee-raised-by-governance", 1, 2, 13, func(s *Sim, h int64) []*TxSpec {
			u := s.User(0)
			switch h {
			case 3:
				np := s.params
				np.MinTrxGas, np.Version = 2*s.params.MinTrxGas, 2
				t := s.TxProposal(s.Val(0), 4, 1, 6)
				t.Prop.Options = []OptSpec{{Raw: np.JSON(true), Params: &np}}
				s.scriptOldGas = s.params.MinTrxGas
				return []*TxSpec{t}
			case 4:
				if len(s.H.WatchH) > 0 {
					return []*TxSpec{s.TxVote(s.Val(0), s.H.WatchH[len(s.H.WatchH)-1], 0)}
				}
			case 5, 6, 7, 8, 9, 10, 11:
				old := s.TxTransfer(u, s.User(1).Addr, "5")
				old.Gas, old.Note = s.scriptOldGas+1, "transfer-paying-the-old-minimum-fee"
				ok := s.TxTransfer(u, s.User(1).Addr, "6")
				ok.Note = "transfer-paying-the-current-minimum-fee"
				if old.Gas >= s.params.MinTrxGas { // still enough: both succeed, the second one follows
					ok.Nonce++
				}
				return []*TxSpec{old, ok}
			}
			return nil
		}, func(g *Genesis) {
			easyParams(g)
			g.Params.MinVotingPeriodBlocks, g.Params.MaxVotingPeriodBlocks, g.Params.LazyApplyingBlocks = 1, 3, 1
		}},
		// with three validators the stake-change limiter is on: an unstaking transaction of somebody who does
		// not own the stake is refused and must not use up any of the block's budget — the owner's own
		// unstaking (and a further delegation) right after it go through as if it had never been there
		{"refused-unstake-before-the-owners", 3, 2, 8, func(s *Sim, h int64) []*TxSpec {
			y := s.User(0)
			switch h {
			case 3:
				return []*TxSpec{s.TxStake(y, s.Val(0).Addr, 100)}
			case 4, 6:
				for _, st := range s.stakes {
					if string(st.From) == string(y.Addr) {
						bad := s.TxUnstake(s.User(1), st.To, st.Hash)
						bad.Note = "unstake-not-owner"
						// ... nor may the validator the stake is bonded to release it ("unstaking from itself")
						byVal := s.TxUnstake(s.Val(0), st.To, st.Hash)
						byVal.Note = "unstake-not-owner-by-the-delegatee"
						own := s.TxUnstake(y, st.To, st.Hash)
						more := s.TxStake(s.User(1), s.Val(0).Addr, 50)
						return []*TxSpec{bad, byVal, own, more}
					}
				}
				return []*TxSpec{s.TxStake(y, s.Val(0).Addr, 100)}
			case 5:
				return []*TxSpec{s.TxStake(y, s.Val(0).Addr, 100)}
			}
			return nil
		}, func(g *Genesis) {
			easyParams(g)
			for i := range g.Vals {
				g.Vals[i].Power = 1000
			}
			for i := range g.Holders {
				g.Holders[i].Balance = rigo(5000)
			}
		}},
		// an unbonding stake is locked until the END of the block of its refund height: a transfer in that very
		// block that could only be paid with the stake still locked is refused
		{"spend-in-the-maturity-block", 1, 2, 8, func(s *Sim, h int64) []*TxSpec {
			u := s.User(0)
			switch h {
			case 2:
				return []*TxSpec{s.TxStake(u, s.Val(0).Addr, 190)}
			case 3:
				for _, st := range s.stakes {
					if string(st.From) == string(u.Addr) {
						return []*TxSpec{s.TxUnstake(u, st.To, st.Hash)}
					}
				}
			case 5, 6: // refund height = 3 + 2: in block 5 the 190 units are still locked, in block 6 they are back
				t := s.TxTransfer(u, s.User(1).Addr, rigo(100))
				t.Note = fmt.Sprintf("script-transfer-needing-the-unbonding-stake-at-%d", h)
				return []*TxSpec{t}
			}
			return nil
		}, func(g *Genesis) {
			easyParams(g)
			for i := range g.Holders {
				g.Holders[i].Balance = rigo(200)
			}
		}},
		// a contract calls X without value (X refuses such calls), then calls X again with the value it was
		// given: the second, successful call reaches an X that the reverted frame had already made "warm";
		// the value must arrive on X's native account
		{"inner-call-reverts-then-succeeds", 1, 2, 7, func(s *Sim, h int64) []*TxSpec {
			deploy := func(prog []byte, name string) *TxSpec {
				t := s.baseTx(6, s.User(0), make([]byte, 20))
				t.Data, t.Gas, t.Note = deployer(prog), 400000, "evm-deploy:"+name
				return t
			}
			switch h {
			case 2:
				return SeqNonce([]*TxSpec{deploy(progPickyReceiver(), "picky-receiver"), deploy(progRetryCaller(), "retry-caller")})
			case 4, 5:
				if picky, retry := s.contractOf("picky-receiver"), s.contractOf("retry-caller"); picky != nil && retry != nil {
					t := s.baseTx(6, s.User(1), retry)
					t.Data, t.Amount, t.Gas, t.Note = word(picky), "5000", 300000, "evm-inner-call-reverts-then-succeeds-with-value"
					return []*TxSpec{t}
				}
			}
			return nil
		}, func(g *Genesis) { easyParams(g) }},
		// stake amounts that are not a whole number of power units: refused for a delegation as for a
		// self-stake (the power of a stake is amount / 10^18: a remainder would be debited and never returned)
		{"stake-amount-with-a-fraction", 1, 2, 6, func(s *Sim, h int64) []*TxSpec {
			half := new(big.Int).Div(e18, big.NewInt(2))
			frac := func(t *TxSpec, note string) *TxSpec {
				t.Amount = new(big.Int).Add(u256(t.Amount).ToBig(), half).String()
				t.Note = note
				return t
			}
			switch h {
			case 2:
				return []*TxSpec{frac(s.TxStake(s.User(0), s.Val(0).Addr, 2), "delegation-of-2.5-units"), s.TxStake(s.User(0), s.Val(0).Addr, 2)}
			case 3:
				return []*TxSpec{frac(s.TxStake(s.User(1), s.User(1).Addr, 1), "self-stake-of-1.5-units"), s.TxStake(s.User(1), s.User(1).Addr, 1)}
			case 4:
				one := s.TxStake(s.User(0), s.Val(0).Addr, 0)
				one.Amount, one.Note = "1", "delegation-of-one-fon"
				return []*TxSpec{one}
			}
			return nil
		}, func(g *Genesis) { easyParams(g) }},
		// a parameter document that names only a few parameters wins: the others keep their values — in the
		// running node AND in what is stored (a node restarted afterwards reads the stored set); transactions
		// that depend on parameters the document left out follow
		{"partial-parameter-document-applied", 1, 2, 13, func(s *Sim, h int64) []*TxSpec {
			u := s.User(0)
			switch h {
			case 3:
				np := Params{LazyRewardBlocks: 9, MinValidatorStake: s.params.MinValidatorStake, RewardPerPower: s.params.RewardPerPower, GasPrice: s.params.GasPrice}
				t := s.TxProposal(s.Val(0), 4, 1, 6)
				t.Prop.Options = []OptSpec{{Raw: np.JSON(true), Params: &np}}
				return []*TxSpec{t}
			case 4:
				if len(s.H.WatchH) > 0 {
					return []*TxSpec{s.TxVote(s.Val(0), s.H.WatchH[len(s.H.WatchH)-1], 0)}
				}
			case 8, 9, 10, 11:
				low := s.TxTransfer(u, s.User(1).Addr, "5")
				low.Gas, low.Note = s.params.MinTrxGas-1, "low-gas-after-partial-document"
				ok := s.TxTransfer(u, s.User(1).Addr, "6")
				ok.Note = "transfer-after-partial-document"
				st := s.TxStake(s.User(1), s.Val(0).Addr, 1)
				st.Note = "delegate-after-partial-document"
				return []*TxSpec{low, ok, st}
			}
			return nil
		}, func(g *Genesis) {
			easyParams(g)
			g.Params.LazyRewardBlocks = 2
			g.Params.MinVotingPeriodBlocks, g.Params.MaxVotingPeriodBlocks, g.Params.LazyApplyingBlocks = 1, 3, 1
		}},
		// a successful contract call whose INNER frame is the first to look at account X and then reverts:
		// X (whose native nonce is ahead of what the EVM trie last stored) must come out untouched
		{"inner-frame-reverts-after-first-touch", 1, 3, 8, func(s *Sim, h int64) []*TxSpec {
			deploy := func(from Key, prog []byte, name string) *TxSpec {
				t := s.baseTx(6, from, make([]byte, 20))
				t.Data, t.Gas, t.Note = deployer(prog), 400000, "evm-deploy:"+name
				return t
			}
			x := s.User(1)
			switch h {
			case 2:
				return SeqNonce([]*TxSpec{deploy(s.User(0), progProbeRevert(), "probe-revert"), deploy(s.User(0), progCallIgnoring(), "call-ignoring"),
					deploy(s.User(0), progStore(s.rng), "store")})
			case 3: // X is stored in the EVM trie by a contract transaction of its own
				if c := s.contractOf("store"); c != nil {
					t := s.baseTx(6, x, c)
					t.Data, t.Gas, t.Note = word([]byte{3}), 200000, "script-call"
					return []*TxSpec{t}
				}
			case 4, 5: // ... then moves its native nonce ahead
				return []*TxSpec{s.TxTransfer(x, s.User(2).Addr, "1000")}
			case 6:
				if p, o := s.contractOf("probe-revert"), s.contractOf("call-ignoring"); p != nil && o != nil {
					t := s.baseTx(6, s.User(0), o)
					t.Data, t.Gas, t.Note = append(word(p), word(x.Addr)...), 300000, "evm-inner-frame-reverts-after-first-touch"
					return []*TxSpec{t}
				}
			case 7: // X's next native transaction still carries the right nonce
				return []*TxSpec{s.TxTransfer(x, s.User(2).Addr, "7")}
			}
			return nil
		}, nil},
		// two evidence items against two DIFFERENT validators in one block (and a third one against an
		// address that is no delegatee): each named validator is slashed once, nobody else
		{"two-evidence-items-in-one-block", 3, 2, 7, func(s *Sim, h int64) []*TxSpec {
			switch h {
			case 2:
				return []*TxSpec{s.TxStake(s.User(0), s.Val(0).Addr, 4), s.TxStake(s.User(1), s.Val(1).Addr, 6)}
			case 4:
				s.scriptEvidence = [][]byte{s.Val(0).Addr, s.Val(1).Addr, s.User(1).Addr}
			case 5:
				s.scriptEvidence = [][]byte{s.Val(2).Addr, s.User(0).Addr}
			case 6: // the same validator named twice in one block (same evidence height): two cuts, one after the other
				s.scriptEvidence = [][]byte{s.Val(1).Addr, s.Val(1).Addr}
			}
			return nil
		}, func(g *Genesis) { easyParams(g); g.Params.SlashRatio = 30 }},
		// downtime: with window 10 and minimum 8 the third miss inside the window (blocks 4, 6, 8) is the
		// one that takes the validator below the minimum: it must lose all stake in that very block
		{"downtime-at-exact-threshold", 3, 2, 14, func(s *Sim, h int64) []*TxSpec {
			switch h {
			case 2:
				return []*TxSpec{s.TxStake(s.User(0), s.Val(0).Addr, 3)}
			case 5, 7, 9: // the votes of block h are about block h-1
				s.scriptMiss = [][]byte{s.Val(0).Addr}
			}
			return nil
		}, func(g *Genesis) { easyParams(g); g.Params.SignedBlocksWindow, g.Params.MinSignedBlocks = 10, 8 }},
		// a miss exactly at the first height of the signing window counts (the window is inclusive), also when
		// an older miss outside the window is still on record: window 4, at least 2 signed; heights 1, 6, 9 and
		// 10 are missed, so at block 11 the window [6,10] holds 3 misses and the validator is stopped
		{"downtime-miss-at-window-start", 3, 2, 14, func(s *Sim, h int64) []*TxSpec {
			switch h {
			case 3:
				return []*TxSpec{s.TxStake(s.User(0), s.Val(0).Addr, 3)}
			case 2, 7, 10, 11: // the votes of block h are about block h-1
				s.scriptMiss = [][]byte{s.Val(0).Addr}
			}
			return nil
		}, func(g *Genesis) { easyParams(g); g.Params.SignedBlocksWindow, g.Params.MinSignedBlocks = 4, 2 }},
		// every validator is reported absent in block 10, a height at which the reward-ledger root enters the
		// application hash: the block writes nothing to the reward ledger, and a node restarted after it must
		// still carry the root of height 10 into the hashes of blocks 11..13
		{"quiet-block-at-a-reward-hash-height", 2, 2, 13, func(s *Sim, h int64) []*TxSpec {
			switch h {
			case 3:
				return []*TxSpec{s.TxStake(s.User(0), s.Val(0).Addr, 3)}
			case 10: // the votes of block h are about block h-1
				s.scriptMiss = [][]byte{s.Val(0).Addr, s.Val(1).Addr}
			case 12:
				return []*TxSpec{s.TxTransfer(s.User(1), s.User(0).Addr, "5")}
			}
			return nil
		}, nil},
		// two candidates with the same power compete for the last seat: the one holding more stakes ranks
		// first (power, then number of stakes, then address)
		{"equal-power-more-stakes-takes-the-last-seat", 1, 2, 7, func(s *Sim, h int64) []*TxSpec {
			a, b := s.User(0), s.User(1)
			switch h {
			case 2:
				return SeqNonce([]*TxSpec{s.TxStake(a, a.Addr, 20), s.TxStake(b, b.Addr, 10), s.TxStake(b, b.Addr, 10)})
			case 5:
				return []*TxSpec{s.TxTransfer(a, b.Addr, "7")}
			}
			return nil
		}, func(g *Genesis) { easyParams(g); g.Params.MaxValidatorCnt = 2 }},
		// a delegator spends its whole balance and then asks for one unit of its reward: the request cannot
		// pay its fee, is refused, and leaves the reward, the balance and the nonce as they were
		{"withdrawal-that-cannot-pay-its-fee", 1, 2, 9, func(s *Sim, h int64) []*TxSpec {
			u := s.User(0)
			switch h {
			case 2:
				return []*TxSpec{s.TxStake(u, s.Val(0).Addr, 50)}
			case 6:
				t := s.TxTransfer(u, s.User(1).Addr, "0")
				t.Gas = s.params.MinTrxGas
				fee := new(big.Int).Mul(big.NewInt(int64(t.Gas)), u256(s.params.GasPrice).ToBig())
				t.Amount = new(big.Int).Sub(s.balOf(u.Addr), fee).String()
				t.Note = "script-transfer-of-the-whole-balance"
				return []*TxSpec{t}
			case 7, 8:
				t := s.baseTx(8, u, zero32()[:20])
				t.WithdrawReq = "1"
				t.Note = "script-withdraw-without-the-fee"
				return []*TxSpec{t}
			}
			return nil
		}, nil},
		// several unbonding stakes mature in one block: several removals in one ledger commit
		{"many-refunds-in-one-block", 2, 3, 8, func(s *Sim, h int64) []*TxSpec {
			switch h {
			case 2:
				var txs []*TxSpec
				for i := 0; i < 3; i++ {
					for j := 0; j < 4; j++ {
						txs = append(txs, s.TxStake(s.User(i), s.Val(j%2).Addr, int64(1+j)))
					}
				}
				return SeqNonce(txs)
			case 3:
				var txs []*TxSpec
				for _, st := range s.stakes {
					if owner, ok := s.key(st.From); ok && !isZero(st.Hash) {
						txs = append(txs, s.TxUnstake(owner, st.To, st.Hash))
					}
				}
				return SeqNonce(txs)
			}
			return nil
		}, nil},
	}
	var out []*History
	var used []string
	for i, c := range scs {
		if len(names) > 0 && !names[c.name] {
			continue
		}
		tweak := c.tweak
		if tweak == nil {
			tweak = easyParams
		}
		h, err := Scripted(c.name, int64(900000+i), scratch, c.nvals, c.nusers, tweak, c.blocks, c.script)
		if err != nil {
			return nil, nil, err
		}
		out = append(out, h)
		used = append(used, c.name)
	}
	return out, used, nil
}

func (s *Sim) TxProposal(from Key, start, period, apply int64, opts ...[]byte) *TxSpec {
	t := s.baseTx(4, from, make([]byte, 20))
	p := &PropSpec{Message: "script", Start: start, Period: period, Apply: apply, OptType: 257}
	for _, o := range opts {
		p.Options = append(p.Options, OptSpec{Raw: o})
	}
	t.Prop = p
	t.Note = "script-proposal"
	return t
}
func (s *Sim) TxVote(from Key, hash []byte, choice int32) *TxSpec {
	t := s.baseTx(5, from, make([]byte, 20))
	t.VoteHash, t.VoteChoice = hash, choice
	t.Note = "script-vote"
	return t
}

// GovPanicScenarios: parameter documents that pass proposal validation, win the vote, and then stop
// block processing when they are applied or used (C09).  Each run is expected to END with a panic if
// the defect is present; the returned map gives, per scenario, where the node panicked ("" = it did not).
func GovPanicScenarios(scratch string) (map[string]string, error) {
	docs := map[string][]byte{
		"gov-option-unparsable-after-rewrite":  []byte(`{"gasPrice":""}`),
		"gov-negative-max-validator-count":     []byte(`{"maxValidatorCnt":"-5"}`),
		"gov-zero-max-validator-count-limiter": []byte(`{"maxValidatorCnt":"-1","maxUpdatableStakeRatio":"1"}`),
		// ranges the submission check does not enforce (InvReach.params_ok_needs_opts_ok): do they stop the node?
		"gov-slash-ratio-above-100":       []byte(`{"slashRatio":"250"}`),
		"gov-negative-slash-ratio":        []byte(`{"slashRatio":"-50"}`),
		"gov-huge-reward-per-power":       []byte(`{"rewardPerPower":"115792089237316195423570985008687907853269984665640564039457584007913129639935"}`),
		"gov-negative-signed-window":      []byte(`{"signedBlocksWindow":"-3","minSignedBlocks":"5"}`),
		"gov-negative-lazy-reward-blocks": []byte(`{"lazyRewardBlocks":"-9"}`),
		"gov-huge-gas-price":              []byte(`{"gasPrice":"115792089237316195423570985008687907853269984665640564039457584007913129639935"}`),
		"gov-min-self-stake-ratio-500":    []byte(`{"minSelfStakeRatio":"500"}`),
	}
	out := map[string]string{}
	i := 0
	for name, doc := range docs {
		i++
		doc := doc
		var propHash []byte
		h, err := Scripted(name, int64(910000+i), scratch, 1, 2, func(g *Genesis) {
			easyParams(g)
			g.Params.MinVotingPeriodBlocks, g.Params.MaxVotingPeriodBlocks, g.Params.LazyApplyingBlocks = 1, 3, 1
		}, 14, func(s *Sim, h int64) []*TxSpec {
			switch h {
			case 3: // the validator set is known to the node from the end of block 2 on
				return []*TxSpec{s.TxProposal(s.Val(0), 4, 1, 6, doc)}
			case 4:
				if len(s.H.WatchH) > 0 {
					propHash = s.H.WatchH[len(s.H.WatchH)-1]
					return []*TxSpec{s.TxVote(s.Val(0), propHash, 0)}
				}
			case 8: // the new parameters are in force: evidence, a missed vote, a withdrawal, an unstaking
				s.scriptEvidence = [][]byte{s.Val(0).Addr}
			case 9:
				return []*TxSpec{s.TxStake(s.User(0), s.Val(0).Addr, 1)}
			case 10:
				for _, st := range s.stakes {
					if string(st.From) == string(s.User(0).Addr) {
						return []*TxSpec{s.TxUnstake(s.User(0), st.To, st.Hash)}
					}
				}
			}
			return nil
		})
		if err != nil {
			return nil, err
		}
		trace := ""
		for _, o := range h.Obs {
			for _, d := range o.Delivers {
				trace += fmt.Sprintf("[code %d] ", d.Code)
			}
			for _, e := range o.EndEvts {
				trace += e + " "
			}
		}
		out[name] = h.Err
		out[name+":trace"] = trace
	}
	return out, nil
}
