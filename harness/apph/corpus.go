package apph

// Corpus: hand-written histories that once separated the model from the code or exhibit a known
// finding.  They run before the generated histories in every application-level check.

func zero32() []byte { return make([]byte, 32) }

func easyParams(g *Genesis) {
	g.Params.MinValidatorStake = rigo(1)
	g.Params.MinDelegatorStake = "0"
	g.Params.MinSelfStakeRatio = 10
	g.Params.MaxValidatorCnt = 5
	g.Params.LazyRewardBlocks = 2
	for i := range g.Vals {
		found := false
		for _, h := range g.Holders {
			if string(h.Addr) == string(g.Vals[i].Key.Addr) {
				found = true
			}
		}
		if !found {
			g.Holders = append(g.Holders, Holder{Addr: g.Vals[i].Key.Addr, Balance: rigo(500)})
		}
	}
}

// CorpusHistories returns the named corpus scenarios (all of them when names is empty)
func CorpusHistories(scratch string, names map[string]bool) ([]*History, []string, error) {
	type sc struct {
		name          string
		nvals, nusers int
		blocks        int
		script        func(s *Sim, h int64) []*TxSpec
	}
	scs := []sc{
		// two genesis stakes (both with tx hash 0) unbonding at once collide in the frozen ledger
		{"genesis-stake-collision", 2, 2, 6, func(s *Sim, h int64) []*TxSpec {
			if h == 2 {
				return []*TxSpec{s.TxUnstake(s.Val(0), s.Val(0).Addr, zero32()), s.TxUnstake(s.Val(1), s.Val(1).Addr, zero32())}
			}
			return nil
		}},
		// a validator unbonds completely and stakes again twice inside one block (ledger set-after-delete)
		{"restake-after-full-unbond", 2, 2, 5, func(s *Sim, h int64) []*TxSpec {
			if h == 2 {
				v := s.Val(0)
				return SeqNonce([]*TxSpec{s.TxUnstake(v, v.Addr, zero32()), s.TxStake(v, v.Addr, 10), s.TxStake(v, v.Addr, 20)})
			}
			return nil
		}},
		// a delegation in block 2 must not change the rewards of block 4
		{"reward-at-block-4", 2, 2, 7, func(s *Sim, h int64) []*TxSpec {
			if h == 2 {
				return []*TxSpec{s.TxStake(s.User(0), s.Val(0).Addr, 7)}
			}
			return nil
		}},
		// staking to a genesis validator already in block 1: versions before 1 do not exist
		{"delegation-in-block-1", 2, 2, 7, func(s *Sim, h int64) []*TxSpec {
			if h == 1 {
				return []*TxSpec{s.TxStake(s.User(0), s.Val(0).Addr, 3)}
			}
			return nil
		}},
		// a genesis validator withdraws in block 1: its removal is never announced to consensus
		{"genesis-validator-leaves-in-block-1", 3, 2, 5, func(s *Sim, h int64) []*TxSpec {
			if h == 1 {
				return []*TxSpec{s.TxUnstake(s.Val(0), s.Val(0).Addr, zero32())}
			}
			return nil
		}},
	}
	var out []*History
	var used []string
	for i, c := range scs {
		if len(names) > 0 && !names[c.name] {
			continue
		}
		h, err := Scripted(c.name, int64(900000+i), scratch, c.nvals, c.nusers, easyParams, c.blocks, c.script)
		if err != nil {
			return nil, nil, err
		}
		out = append(out, h)
		used = append(used, c.name)
	}
	return out, used, nil
}
