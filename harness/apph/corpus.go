package apph

import "fmt"

// Corpus: hand-written histories that once separated the model from the code or exhibit a known
// finding.  They run before the generated histories in every application-level check.

func zero32() []byte { return make([]byte, 32) }

func easyParams(g *Genesis) {
	g.Params.MinValidatorStake = rigo(1)
	g.Params.MinDelegatorStake = "0"
	g.Params.MinSelfStakeRatio = 10
	g.Params.MaxValidatorCnt = 5
	g.Params.LazyRewardBlocks = 2
	for i := range g.Vals {
		found := false
		for _, h := range g.Holders {
			if string(h.Addr) == string(g.Vals[i].Key.Addr) {
				found = true
			}
		}
		if !found {
			g.Holders = append(g.Holders, Holder{Addr: g.Vals[i].Key.Addr, Balance: rigo(500)})
		}
	}
}

// CorpusHistories returns the named corpus scenarios (all of them when names is empty)
func CorpusHistories(scratch string, names map[string]bool) ([]*History, []string, error) {
	type sc struct {
		name          string
		nvals, nusers int
		blocks        int
		script        func(s *Sim, h int64) []*TxSpec
	}
	scs := []sc{
		// two genesis stakes (both with tx hash 0) unbonding at once collide in the frozen ledger
		{"genesis-stake-collision", 2, 2, 6, func(s *Sim, h int64) []*TxSpec {
			if h == 2 {
				return []*TxSpec{s.TxUnstake(s.Val(0), s.Val(0).Addr, zero32()), s.TxUnstake(s.Val(1), s.Val(1).Addr, zero32())}
			}
			return nil
		}},
		// a validator unbonds completely and stakes again twice inside one block (ledger set-after-delete)
		{"restake-after-full-unbond", 2, 2, 5, func(s *Sim, h int64) []*TxSpec {
			if h == 2 {
				v := s.Val(0)
				return SeqNonce([]*TxSpec{s.TxUnstake(v, v.Addr, zero32()), s.TxStake(v, v.Addr, 10), s.TxStake(v, v.Addr, 20)})
			}
			return nil
		}},
		// a delegation in block 2 must not change the rewards of block 4
		{"reward-at-block-4", 2, 2, 7, func(s *Sim, h int64) []*TxSpec {
			if h == 2 {
				return []*TxSpec{s.TxStake(s.User(0), s.Val(0).Addr, 7)}
			}
			return nil
		}},
		// staking to a genesis validator already in block 1: versions before 1 do not exist
		{"delegation-in-block-1", 2, 2, 7, func(s *Sim, h int64) []*TxSpec {
			if h == 1 {
				return []*TxSpec{s.TxStake(s.User(0), s.Val(0).Addr, 3)}
			}
			return nil
		}},
		// a genesis validator withdraws in block 1: its removal is never announced to consensus
		{"genesis-validator-leaves-in-block-1", 3, 2, 5, func(s *Sim, h int64) []*TxSpec {
			if h == 1 {
				return []*TxSpec{s.TxUnstake(s.Val(0), s.Val(0).Addr, zero32())}
			}
			return nil
		}},
	}
	var out []*History
	var used []string
	for i, c := range scs {
		if len(names) > 0 && !names[c.name] {
			continue
		}
		h, err := Scripted(c.name, int64(900000+i), scratch, c.nvals, c.nusers, easyParams, c.blocks, c.script)
		if err != nil {
			return nil, nil, err
		}
		out = append(out, h)
		used = append(used, c.name)
	}
	return out, used, nil
}

func (s *Sim) TxProposal(from Key, start, period, apply int64, opts ...[]byte) *TxSpec {
	t := s.baseTx(4, from, make([]byte, 20))
	p := &PropSpec{Message: "script", Start: start, Period: period, Apply: apply, OptType: 257}
	for _, o := range opts {
		p.Options = append(p.Options, OptSpec{Raw: o})
	}
	t.Prop = p
	t.Note = "script-proposal"
	return t
}
func (s *Sim) TxVote(from Key, hash []byte, choice int32) *TxSpec {
	t := s.baseTx(5, from, make([]byte, 20))
	t.VoteHash, t.VoteChoice = hash, choice
	t.Note = "script-vote"
	return t
}

// GovPanicScenarios: parameter documents that pass proposal validation, win the vote, and then stop
// block processing when they are applied or used (C09).  Each run is expected to END with a panic if
// the defect is present; the returned map gives, per scenario, where the node panicked ("" = it did not).
func GovPanicScenarios(scratch string) (map[string]string, error) {
	docs := map[string][]byte{
		"gov-option-unparsable-after-rewrite":  []byte(`{"gasPrice":""}`),
		"gov-negative-max-validator-count":     []byte(`{"maxValidatorCnt":"-5"}`),
		"gov-zero-max-validator-count-limiter": []byte(`{"maxValidatorCnt":"-1","maxUpdatableStakeRatio":"1"}`),
	}
	out := map[string]string{}
	i := 0
	for name, doc := range docs {
		i++
		doc := doc
		var propHash []byte
		h, err := Scripted(name, int64(910000+i), scratch, 1, 2, func(g *Genesis) {
			easyParams(g)
			g.Params.MinVotingPeriodBlocks, g.Params.MaxVotingPeriodBlocks, g.Params.LazyApplyingBlocks = 1, 3, 1
		}, 11, func(s *Sim, h int64) []*TxSpec {
			switch h {
			case 3: // the validator set is known to the node from the end of block 2 on
				return []*TxSpec{s.TxProposal(s.Val(0), 4, 1, 6, doc)}
			case 4:
				if len(s.H.WatchH) > 0 {
					propHash = s.H.WatchH[len(s.H.WatchH)-1]
					return []*TxSpec{s.TxVote(s.Val(0), propHash, 0)}
				}
			case 9:
				return []*TxSpec{s.TxStake(s.User(0), s.Val(0).Addr, 1)}
			}
			return nil
		})
		if err != nil {
			return nil, err
		}
		trace := ""
		for _, o := range h.Obs {
			for _, d := range o.Delivers {
				trace += fmt.Sprintf("[code %d] ", d.Code)
			}
			for _, e := range o.EndEvts {
				trace += e + " "
			}
		}
		out[name] = h.Err
		out[name+":trace"] = trace
	}
	return out, nil
}
