package apph

import (
	"bytes"
	"fmt"
	"os"
	"path/filepath"
	"strings"

	"github.com/rigochain/rigo-go/libs/verifhook"
)

// CrashOutcome is what happened when a node was started on the data directory as it was at one
// instant of block processing ("the process died here") and consensus replayed what was missing.
type CrashOutcome struct {
	Block   int64
	Point   string // "before-commit", "mid-block", or "after:<store>" (the durable write that completed last)
	Outcome string // "ok" | "panic@<call>" | "hash-mismatch@<call>" | "answer-mismatch@<call>" | "bad-height" | "open-failed"
	Detail  string
}

// CrashExperiment executes the history on a fresh node and, at block `at`, snapshots the data
// directory in the middle of the block, before Commit and after every durable write of Commit
// (verif hook); every snapshot is then recovered the way Tendermint's handshake does it.
func CrashExperiment(h *History, at int, scratch, label string) ([]CrashOutcome, error) {
	if at < 0 || at >= len(h.Blocks) || at >= len(h.Obs) {
		return nil, fmt.Errorf("block %d out of range", at)
	}
	dir := freshDir(scratch, label)
	var dirs = []string{dir}
	defer func() {
		for _, d := range dirs {
			os.RemoveAll(d)
		}
	}()
	n, _, err := OpenNode(dir)
	if err != nil {
		return nil, err
	}
	defer n.Close()
	if err := n.InitChain(h.Genesis); err != nil {
		return nil, err
	}
	for i := 0; i < at; i++ {
		o := n.RunBlock(h.Blocks[i])
		if o.BeginPanic+o.EndPanic+o.CommitPanic != "" {
			return nil, fmt.Errorf("prefix block %d panicked", i+1)
		}
		if !bytes.Equal(o.AppHash, h.Obs[i].AppHash) {
			return nil, fmt.Errorf("prefix block %d: app hash differs from the recorded run", i+1)
		}
	}
	b := h.Blocks[at]
	type snap struct{ point, dir string }
	var snaps []snap
	take := func(point string) {
		d := filepath.Join(scratch, fmt.Sprintf("%s-snap%d", label, len(snaps)))
		if err := copyDir(n.Dir, d); err == nil {
			snaps = append(snaps, snap{point, d})
			dirs = append(dirs, d)
		}
	}
	if _, _, p := n.Begin(b); p != "" {
		return nil, fmt.Errorf("BeginBlock panicked: %s", p)
	}
	for j, t := range b.Txs {
		n.Deliver(t.Spec.Type, t.Bytes)
		if j == len(b.Txs)/2 {
			take("mid-block")
		}
	}
	if _, _, p := n.End(b.Height); p != "" {
		return nil, fmt.Errorf("EndBlock panicked: %s", p)
	}
	take("before-commit")
	verifhook.SetCallbacks(nil, func(store string) { take("after:" + store) })
	var hash []byte
	perr := guard(func() { hash = n.App.Commit().Data })
	verifhook.SetCallbacks(nil, nil)
	if perr != nil {
		return nil, fmt.Errorf("Commit panicked: %v", perr)
	}
	if !bytes.Equal(hash, h.Obs[at].AppHash) {
		return nil, fmt.Errorf("block %d: app hash differs from the recorded run", at+1)
	}
	var out []CrashOutcome
	// a second crash while the interrupted block is being replayed (before the snapshots are used up below)
	for _, s := range snaps {
		if s.point == "after:accounts" {
			d2 := filepath.Join(scratch, label+"-again")
			d3 := filepath.Join(scratch, label+"-again-snap")
			dirs = append(dirs, d2, d3)
			if err := copyDir(s.dir, d2); err == nil && crashAgain(h, at, d2, d3, "frozen") {
				out = append(out, recoverFrom(h, at, "double:after:accounts+after:frozen", d3))
			}
		}
	}
	for _, s := range snaps {
		out = append(out, recoverFrom(h, at, s.point, s.dir))
	}
	return out, nil
}

// crashAgain starts a node on dir (a snapshot of an interrupted commit of block at+1), replays that
// block and copies the data directory to snapDir right after the durable write `store` of the
// replayed commit: the process dies a second time, in the middle of the recovery.
func crashAgain(h *History, at int, dir, snapDir, store string) bool {
	n, info, err := OpenNode(dir)
	if err != nil {
		return false
	}
	defer n.Close()
	if info.LastBlockHeight != int64(at) {
		return false
	}
	taken := false
	ok := guard(func() {
		if at == 0 {
			if e := n.InitChain(h.Genesis); e != nil {
				panic(e)
			}
		}
		b := h.Blocks[at]
		if _, _, p := n.Begin(b); p != "" {
			panic(p)
		}
		for _, t := range b.Txs {
			n.Deliver(t.Spec.Type, t.Bytes)
		}
		if _, _, p := n.End(b.Height); p != "" {
			panic(p)
		}
		verifhook.SetCallbacks(nil, func(st string) {
			if st == store && !taken {
				taken = copyDir(n.Dir, snapDir) == nil
			}
		})
		defer verifhook.SetCallbacks(nil, nil)
		n.App.Commit()
	})
	return ok == nil && taken
}

func recoverFrom(h *History, at int, point, dir string) CrashOutcome {
	res := CrashOutcome{Block: int64(at + 1), Point: point}
	n, info, err := OpenNode(dir)
	if err != nil {
		res.Outcome, res.Detail = "panic@open", err.Error()
		return res
	}
	defer n.Close()
	next := at // index of the first block to (re)play
	switch info.LastBlockHeight {
	case int64(at): // the interrupted block is not reported: consensus replays it
		if at == 0 {
			// height 0: the handshake starts with InitChain, as on a node that has never run
			if err := guard(func() {
				if e := n.InitChain(h.Genesis); e != nil {
					panic(e)
				}
			}); err != nil {
				res.Outcome, res.Detail = "panic@InitChain", firstWords(err.Error())
				return res
			}
		}
	case int64(at + 1):
		if !bytes.Equal(info.LastBlockAppHash, h.Obs[at].AppHash) {
			res.Outcome, res.Detail = "hash-mismatch@Info", fmt.Sprintf("Info reports %X, the block committed %X", info.LastBlockAppHash, h.Obs[at].AppHash)
			return res
		}
		next = at + 1
	default:
		res.Outcome, res.Detail = "bad-height", fmt.Sprintf("Info reports height %d while block %d was being committed", info.LastBlockHeight, at+1)
		return res
	}
	for i := next; i < len(h.Blocks) && i <= at+1; i++ {
		o := n.RunBlock(h.Blocks[i])
		for call, p := range map[string]string{"BeginBlock": o.BeginPanic, "EndBlock": o.EndPanic, "Commit": o.CommitPanic} {
			if p != "" {
				res.Outcome, res.Detail = "panic@"+call, firstWords(p)
				return res
			}
		}
		for _, d := range o.Delivers {
			if d.Panic != "" {
				res.Outcome, res.Detail = "panic@DeliverTx", firstWords(d.Panic)
				return res
			}
		}
		if i < len(h.Obs) {
			// the replayed blocks must answer as they did on the node that never crashed
			for j, d := range o.Delivers {
				if j < len(h.Obs[i].Delivers) && d.Code != h.Obs[i].Delivers[j].Code {
					res.Outcome, res.Detail = "answer-mismatch@DeliverTx", fmt.Sprintf("block %d tx %d: code %d, a node that never crashed: %d", i+1, j, d.Code, h.Obs[i].Delivers[j].Code)
					return res
				}
			}
			if fmt.Sprint(o.ValUpdates) != fmt.Sprint(h.Obs[i].ValUpdates) {
				res.Outcome, res.Detail = "answer-mismatch@EndBlock", fmt.Sprintf("block %d: validator updates %v, a node that never crashed: %v", i+1, o.ValUpdates, h.Obs[i].ValUpdates)
				return res
			}
		}
		if i < len(h.Obs) && !bytes.Equal(o.AppHash, h.Obs[i].AppHash) {
			res.Outcome, res.Detail = "hash-mismatch@Commit", fmt.Sprintf("block %d: %X, a node that never crashed: %X", i+1, o.AppHash, h.Obs[i].AppHash)
			return res
		}
	}
	res.Outcome = "ok"
	return res
}

func firstWords(s string) string {
	s = strings.ReplaceAll(s, "\n", " ")
	if len(s) > 160 {
		return s[:160]
	}
	return s
}
