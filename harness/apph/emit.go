package apph

import (
	"fmt"
	"math/big"
	"strings"

	ethcore "github.com/ethereum/go-ethereum/core"
)

func hashN(h []byte) string { return new(big.Int).SetBytes(pad32(h)).String() }

func coqBool(b bool) string {
	if b {
		return "true"
	}
	return "false"
}
func zlit(v int64) string {
	if v < 0 {
		return fmt.Sprintf("(%d)", v)
	}
	return fmt.Sprint(v)
}

// big literals are slow to parse in Coq (about 5 ms each): every distinct one is defined once at the
// top of the generated file and referred to by name
type symtab struct {
	names map[string]string
	order []string
}

var syms = &symtab{names: map[string]string{}}

func ResetSyms() { syms = &symtab{names: map[string]string{}} }

func (st *symtab) get(kind, dec string) string {
	k := kind + dec
	if n, ok := st.names[k]; ok {
		return n
	}
	n := fmt.Sprintf("%s%d", kind, len(st.order))
	st.names[k] = n
	st.order = append(st.order, fmt.Sprintf("Definition %s : %s := %s%%%s.", n, map[string]string{"n": "N", "z": "Z"}[kind], dec, map[string]string{"n": "N", "z": "Z"}[kind]))
	return n
}

// SymDefs returns the definitions of all big literals used so far
func SymDefs() string { return strings.Join(syms.order, "\n") + "\n" }

func nlit(s string) string {
	if len(s) > 9 {
		return syms.get("n", s)
	}
	return s + "%N"
}

// zbig renders a decimal Z literal
func zbig(s string) string {
	if s == "" {
		return "0"
	}
	if len(s) > 9 {
		return syms.get("z", s)
	}
	return s
}

func (h *History) strID(x string) int {
	if id, ok := h.StrTab[x]; ok {
		return id
	}
	id := len(h.StrTab)
	h.StrTab[x] = id
	return id
}

func optParamsCoq(o OptSpec) string {
	if o.Params == nil {
		return "None"
	}
	return "(Some " + o.Params.Coq() + ")"
}

// CoqTx renders the abstract transaction the model receives
func (h *History) CoqTx(b *Built) string {
	t := b.Spec
	pl := "PNone"
	switch t.Type {
	case 3:
		pl = fmt.Sprintf("(PUnstake %s %s)", nlit(hashN(t.UnstakeHash)), coqBool(len(t.UnstakeHash) == 32))
	case 8:
		pl = fmt.Sprintf("(PWithdraw %s)", zbig(t.WithdrawReq))
	case 4:
		var opts []string
		parse := true
		for _, o := range t.Prop.Options {
			opts = append(opts, fmt.Sprintf("(%d%%N, %s)", h.optID(o.Raw), optParamsCoq(o)))
			if o.Params == nil {
				parse = false
			}
		}
		pl = fmt.Sprintf("(PProposal %s %s %s %s [%s] %s)", zlit(t.Prop.Start), zlit(t.Prop.Period), zlit(t.Prop.Apply),
			zlit(int64(t.Prop.OptType)), strings.Join(opts, "; "), coqBool(parse))
	case 5:
		pl = fmt.Sprintf("(PVoting %s %s)", nlit(hashN(t.VoteHash)), zlit(int64(t.VoteChoice)))
	case 7:
		pl = fmt.Sprintf("(PSetDoc %d%%N %d%%N %d %d)", h.strID(t.DocName), h.strID(t.DocURL), len(t.DocName), len(t.DocURL))
	case 6:
		ig, _ := ethcore.IntrinsicGas(t.Data, nil, isZero(t.To), true, true)
		pl = fmt.Sprintf("(PContract %d)", ig)
	}
	evm := "None"
	if b.Evm != nil {
		created := "None"
		if b.Evm.Created != nil {
			created = "(Some " + nlit(AddrN(b.Evm.Created)) + ")"
		}
		var as []string
		for _, a := range b.Evm.Accts {
			as = append(as, fmt.Sprintf("(%s, %s, %d)", nlit(AddrN(a.Addr)), zbig(a.Bal), a.Nonce))
		}
		evm = fmt.Sprintf("(Some (mk_evm %s %d %s [%s]))", coqBool(b.Evm.OK), b.Evm.Gas, created, strings.Join(as, "; "))
	}
	return fmt.Sprintf("(mk_tx %d %s %s %s %s %s %s %d %d %s %s %s %s)", t.Type, nlit(AddrN(t.From)), nlit(AddrN(t.To)),
		coqBool(len(t.From) == 20), coqBool(len(t.To) == 20), zbig(t.Amount), zbig(t.GasPrice), t.Gas, t.Nonce, pl,
		nlit(hashN(b.Hash)), coqBool(b.SigOK), evm)
}

func isZero(a []byte) bool {
	for _, x := range a {
		if x != 0 {
			return false
		}
	}
	return true
}

func (b *BlockSpec) CoqHeader() string {
	prop := "None"
	if b.Proposer != nil {
		prop = "(Some " + nlit(AddrN(b.Proposer)) + ")"
	}
	var vs, es []string
	for _, v := range b.Votes {
		vs = append(vs, fmt.Sprintf("(%s, %s, %s)", nlit(AddrN(v.Addr)), zlit(v.Power), coqBool(v.Signed)))
	}
	for _, e := range b.Evidence {
		es = append(es, nlit(AddrN(e)))
	}
	return fmt.Sprintf("(mk_hdr %d %s [%s] [%s])", b.Height, prop, strings.Join(vs, "; "), strings.Join(es, "; "))
}

func stakeCoq(s StakeView) string {
	return fmt.Sprintf("(%s, %s, %s, %s, %s, %s)", nlit(AddrN(s.From)), nlit(AddrN(s.To)), nlit(hashN(s.Hash)), zlit(s.Start), zlit(s.Refund), zlit(s.Power))
}

func (h *History) snapCoq(sn *Snap, frozen []StakeView) string {
	var as, ds, fs, rs, ps []string
	for i, a := range h.WatchA {
		v := sn.Accts[i]
		as = append(as, fmt.Sprintf("(%s, (%d, %s, %s, %d%%N, %d%%N))", nlit(AddrN(a)), v.Nonce, zbig(v.Balance), coqBool(v.Code), h.strID(v.Name), h.strID(v.Doc)))
		if d := sn.Dels[i]; d == nil {
			ds = append(ds, fmt.Sprintf("(%s, None)", nlit(AddrN(a))))
		} else {
			var ss, ms []string
			for _, s := range d.Stakes {
				ss = append(ss, stakeCoq(s))
			}
			for _, m := range d.Marks {
				ms = append(ms, zlit(m))
			}
			ds = append(ds, fmt.Sprintf("(%s, Some (%s, %s, [%s], [%s]))", nlit(AddrN(a)), zlit(d.Self), zlit(d.Total), strings.Join(ss, "; "), strings.Join(ms, "; ")))
		}
		if r := sn.Rewards[i]; r == nil {
			rs = append(rs, fmt.Sprintf("(%s, None)", nlit(AddrN(a))))
		} else {
			rs = append(rs, fmt.Sprintf("(%s, Some (%s, %s, %s, %s, %s))", nlit(AddrN(a)), zbig(r.Issued), zbig(r.Withdrawn), zbig(r.Slashed), zbig(r.Cumulated), zlit(r.Height)))
		}
	}
	for _, s := range frozen {
		fs = append(fs, stakeCoq(s))
	}
	for i, ph := range h.WatchH {
		p := sn.Props[i]
		if p == nil {
			ps = append(ps, fmt.Sprintf("(%s, None)", nlit(hashN(ph))))
			continue
		}
		var vs, os []string
		for _, v := range p.Voters {
			vs = append(vs, fmt.Sprintf("(%s, %s, %s)", nlit(AddrN(v.Addr)), zlit(v.Power), zlit(v.Choice)))
		}
		for _, o := range p.Options {
			os = append(os, fmt.Sprintf("(%d%%N, %s)", h.optID(o.Raw), zlit(o.Votes)))
		}
		major := "None"
		if p.HasMajor {
			major = fmt.Sprintf("(Some %d%%N)", h.optID(p.Major))
		}
		ps = append(ps, fmt.Sprintf("(%s, Some (%s, (%s, %s, %s, %s, %s), [%s], %s, [%s], %s))", nlit(hashN(ph)), coqBool(p.Frozen),
			zlit(p.Start), zlit(p.End), zlit(p.Apply), zlit(p.Total), zlit(p.Majority), strings.Join(vs, "; "), zlit(p.OptType), strings.Join(os, "; "), major))
	}
	return fmt.Sprintf("(mk_snap\n      [%s]\n      [%s]\n      [%s]\n      [%s]\n      [%s]\n      %s %s)",
		strings.Join(as, "; "), strings.Join(ds, "; "), strings.Join(fs, "; "), strings.Join(rs, "; "), strings.Join(ps, "; "),
		sn.Params.Coq(), zlit(sn.TotalPower))
}

// CoqCase renders the history as `mk_case watchA watchH ops observations`
func (h *History) CoqCase() string {
	var wa, wh, ops, obs []string
	for _, a := range h.WatchA {
		wa = append(wa, nlit(AddrN(a)))
	}
	for _, x := range h.WatchH {
		wh = append(wh, nlit(hashN(x)))
	}
	ops = append(ops, "AInit "+h.Genesis.Coq())
	obs = append(obs, "OInit")
	for i, b := range h.Blocks {
		o := h.Obs[i]
		ops = append(ops, "ABegin "+b.CoqHeader())
		if o.BeginPanic != "" {
			obs = append(obs, "OBegin (Panic 0)")
			break
		}
		obs = append(obs, fmt.Sprintf("OBegin (Ok %s)", zbig(o.Issued)))
		stop := false
		for j, t := range b.Txs {
			if j >= len(o.Delivers) {
				break
			}
			d := o.Delivers[j]
			ops = append(ops, "ADeliver "+h.CoqTx(t))
			switch {
			case d.Panic != "":
				obs = append(obs, "ODeliver (Panic 0)")
				stop = true
			case d.Code == 0:
				obs = append(obs, fmt.Sprintf("ODeliver (Ok %d)", d.GasUsed))
			default:
				obs = append(obs, fmt.Sprintf("ODeliver (Err %d)", d.Reason))
			}
			if stop {
				break
			}
		}
		if stop {
			break
		}
		ops = append(ops, "AEnd")
		if o.EndPanic != "" {
			obs = append(obs, "OEnd (Panic 0)")
			break
		}
		var ups []string
		for _, u := range o.ValUpdates {
			ups = append(ups, fmt.Sprintf("(%s, %s)", nlit(AddrN(u.Addr)), zlit(u.Power)))
		}
		obs = append(obs, fmt.Sprintf("OEnd (Ok [%s])", strings.Join(ups, "; ")))
		if o.CommitPanic != "" || i >= len(h.Snaps) {
			break
		}
		ops = append(ops, "ACommit")
		obs = append(obs, "OCommit "+h.snapCoq(h.Snaps[i], o.Frozen))
	}
	return fmt.Sprintf("(mk_case [%s] [%s]\n  [%s]\n  [%s])", strings.Join(wa, "; "), strings.Join(wh, "; "),
		strings.Join(ops, ";\n   "), strings.Join(obs, ";\n   "))
}
