package apph

import (
	"bytes"
	"fmt"
	"math/big"
	"math/rand"
	"sort"

	"github.com/ethereum/go-ethereum/common"
	ethcore "github.com/ethereum/go-ethereum/core"
	"github.com/ethereum/go-ethereum/core/rawdb"
	"github.com/ethereum/go-ethereum/core/state"
	ethtypes "github.com/ethereum/go-ethereum/core/types"
	ethvm "github.com/ethereum/go-ethereum/core/vm"
	ethcrypto "github.com/ethereum/go-ethereum/crypto"
	"github.com/rigochain/rigo-go/ctrlers/vm/evm"
)

// ---------------------------------------------------------------- a tiny assembler

type asm struct{ b []byte }

func (a *asm) op(ops ...byte) *asm { a.b = append(a.b, ops...); return a }
func (a *asm) push(v uint64) *asm {
	bs := new(big.Int).SetUint64(v).Bytes()
	if len(bs) == 0 {
		bs = []byte{0}
	}
	a.b = append(a.b, byte(0x5f+len(bs)))
	a.b = append(a.b, bs...)
	return a
}
func (a *asm) pushBytes(bs []byte) *asm {
	a.b = append(a.b, byte(0x5f+len(bs)))
	a.b = append(a.b, bs...)
	return a
}

const (
	opSTOP, opADD, opMUL, opSUB, opDIV                   = 0x00, 0x01, 0x02, 0x03, 0x04
	opCALLDATALOAD, opCALLVALUE, opBALANCE               = 0x35, 0x34, 0x31
	opADDRESS, opCALLER, opSELFBALANCE                   = 0x30, 0x33, 0x47
	opPOP, opMLOAD, opMSTORE, opSLOAD, opSSTORE          = 0x50, 0x51, 0x52, 0x54, 0x55
	opGAS, opDUP1, opCODECOPY, opLOG1                    = 0x5a, 0x80, 0x39, 0xa1
	opCREATE, opCALL, opRETURN, opREVERT, opSELFDESTRUCT = 0xf0, 0xf1, 0xf3, 0xfd, 0xff
)

// deployer wraps runtime code into init code that returns it
func deployer(runtime []byte) []byte {
	a := &asm{}
	a.push(uint64(len(runtime))).op(opDUP1)
	// offset of the runtime inside the init code is known once the prefix length is: two passes
	prefixLen := 0
	for pass := 0; pass < 2; pass++ {
		a = &asm{}
		a.push(uint64(len(runtime))).op(opDUP1).push(uint64(prefixLen)).push(0).op(opCODECOPY).push(0).op(opRETURN)
		prefixLen = len(a.b)
	}
	return append(a.b, runtime...)
}

// runtime programs; argument word 0 of the call data is an address or a number
func progStore(r *rand.Rand) []byte { // slot[k] += calldata[0] + callvalue ; returns slot[k]
	k := uint64(r.Intn(3))
	a := &asm{}
	a.push(0).op(opCALLDATALOAD).op(opCALLVALUE).op(opADD).push(k).op(opSLOAD).op(opADD).op(opDUP1).push(k).op(opSSTORE)
	a.push(0).op(opMSTORE).push(32).push(0).op(opRETURN)
	return a.b
}
func progForward() []byte { // forwards half of the value to address calldata[0]; stores the success flag; logs
	a := &asm{}
	a.push(0).push(0).push(0).push(0).push(2).op(opCALLVALUE).op(opDIV).push(0).op(opCALLDATALOAD).op(opGAS).op(opCALL)
	a.op(opDUP1).push(1).op(opSSTORE).push(0).op(opMSTORE)
	a.push(0xabcdef).push(32).push(0).op(opLOG1)
	a.push(32).push(0).op(opRETURN)
	return a.b
}
func progForwardAll() []byte { // forwards its WHOLE balance (what it held plus what it just received) to address calldata[0]; stores the success flag
	a := &asm{}
	a.push(0).push(0).push(0).push(0).op(opSELFBALANCE).push(0).op(opCALLDATALOAD).op(opGAS).op(opCALL)
	a.push(1).op(opSSTORE).op(opSTOP)
	return a.b
}
func progProbeRevert() []byte { // looks at BALANCE(calldata[0]) and reverts
	a := &asm{}
	a.push(0).op(opCALLDATALOAD).op(opBALANCE).op(opPOP).push(0).push(0).op(opREVERT)
	return a.b
}
func progCallIgnoring() []byte { // calls contract calldata[0] with the 32-byte input calldata[1], ignores the outcome, stores 1 at slot 5
	a := &asm{}
	a.push(32).op(opCALLDATALOAD).push(0).op(opMSTORE)
	a.push(0).push(0).push(32).push(0).push(0).push(0).op(opCALLDATALOAD).op(opGAS).op(opCALL).op(opPOP)
	a.push(1).push(5).op(opSSTORE).op(opSTOP)
	return a.b
}
func progReverter() []byte { // writes storage, then reverts with 32 bytes of data
	a := &asm{}
	a.push(7).push(0).op(opSSTORE).push(0xdead).push(0).op(opMSTORE).push(32).push(0).op(opREVERT)
	return a.b
}
func progCallThenStore() []byte { // calls calldata[0] with the whole value (may revert), then stores 1+success at slot 2 and SELFBALANCE at 3
	a := &asm{}
	a.push(0).push(0).push(0).push(0).op(opCALLVALUE).push(0).op(opCALLDATALOAD).op(opGAS).op(opCALL)
	a.push(1).op(opADD).push(2).op(opSSTORE).op(opSELFBALANCE).push(3).op(opSSTORE).op(opSTOP)
	return a.b
}
func progFactory(child []byte) []byte { // CREATEs a child (with half the value) and stores its address at slot 0
	init := deployer(child)
	a := &asm{}
	// copy the child's init code from this contract's code to memory
	off := 0
	for pass := 0; pass < 2; pass++ {
		a = &asm{}
		a.push(uint64(len(init))).push(uint64(off)).push(0).op(opCODECOPY)
		a.push(uint64(len(init))).push(0).push(2).op(opCALLVALUE).op(opDIV).op(opCREATE)
		a.op(opDUP1).push(0).op(opSSTORE).push(0).op(opMSTORE).push(32).push(0).op(opRETURN)
		off = len(a.b)
	}
	return append(a.b, init...)
}
func progSuicide() []byte { // SELFDESTRUCT to calldata[0] (own address: burns)
	a := &asm{}
	a.push(0).op(opCALLDATALOAD).op(opSELFDESTRUCT)
	return a.b
}
func progBlockEnv() []byte { // stores TIMESTAMP, NUMBER, COINBASE, GASLIMIT and CHAINID at slots 0..4 and returns the timestamp: what the block looks like from inside a contract
	a := &asm{}
	a.op(0x42).op(opDUP1).push(0).op(opSSTORE).op(0x43).push(1).op(opSSTORE).op(0x41).push(2).op(opSSTORE).op(0x45).push(3).op(opSSTORE).op(0x46).push(4).op(opSSTORE)
	a.push(0).op(opMSTORE).push(32).push(0).op(opRETURN)
	return a.b
}
func progPickyReceiver() []byte { // accepts a call that carries value, reverts one that carries none
	return []byte{0x34, 0x15, 0x60, 0x07, 0x57, 0x00, 0x00, 0x5b, 0x60, 0x00, 0x60, 0x00, 0xfd}
}
func progRetryCaller() []byte { // calls calldata[0] first without value (the callee may revert), then with the whole call value; stores the second outcome at slot 0
	a := &asm{}
	a.push(0).push(0).push(0).push(0).push(0).push(0).op(opCALLDATALOAD).op(opGAS).op(opCALL).op(opPOP)
	a.push(0).push(0).push(0).push(0).op(opCALLVALUE).push(0).op(opCALLDATALOAD).op(opGAS).op(opCALL).push(0).op(opSSTORE).op(opSTOP)
	return a.b
}
func progBalanceReader() []byte { // stores BALANCE(calldata[0]) at slot 0 and returns it
	a := &asm{}
	a.push(0).op(opCALLDATALOAD).op(opBALANCE).op(opDUP1).push(0).op(opSSTORE).push(0).op(opMSTORE).push(32).push(0).op(opRETURN)
	return a.b
}

func word(b []byte) []byte {
	w := make([]byte, 32)
	copy(w[32-len(b):], b)
	return w
}

// ---------------------------------------------------------------- reference EVM

type EvmStats struct {
	Histories, ContractTxs, Deploys, Calls, TransfersToContracts int
	Reverted, OutOfGas, Created, Suicides                        int
	ReadOnlyCalls                                                int
	Mismatches                                                   []string
	Programs                                                     map[string]int
	DistinctNontrivial                                           int
}

type refWorld struct {
	db  *state.StateDB
	cfg *evm.EVMCtrler
}

// compareContractTx runs the same message on the reference world (a plain go-ethereum StateDB whose
// balances and nonces are first set to the native ledger's) and compares outcome, return data, gas,
// logs and, afterwards, balances, nonces, code and storage of every known account.
func (s *Sim) evmScenario(hs *EvmStats) error {
	r := s.rng
	ref, err := state.New(common.Hash{}, state.NewDatabase(rawdb.NewMemoryDatabase()), nil)
	if err != nil {
		return err
	}
	known := map[common.Address]bool{}
	for _, k := range s.all {
		known[common.BytesToAddress(k.Addr)] = true
	}
	var contracts []common.Address
	progOf := map[common.Address]string{}
	ac := s.node.App.VerifAcctCtrler()
	syncIn := func() {
		for a := range known {
			acct := ac.FindAccount(a[:], true)
			if acct == nil {
				ref.SetBalance(a, new(big.Int))
				ref.SetNonce(a, 0)
				continue
			}
			ref.SetBalance(a, acct.GetBalance().ToBig())
			ref.SetNonce(a, acct.GetNonce())
		}
	}
	nBlocks := 10 + r.Intn(8)
	for bi := 0; bi < nBlocks; bi++ {
		s.height++
		h := s.height
		b := &BlockSpec{Height: h}
		if cur := s.sets[h]; len(cur) > 0 {
			b.Proposer = cur[0].Addr
		}
		for _, v := range s.sets[h-1] {
			b.Votes = append(b.Votes, Vote{Addr: v.Addr, Power: v.Power, Signed: true})
		}
		if _, _, p := s.node.Begin(b); p != "" {
			return fmt.Errorf("BeginBlock panicked: %s", p)
		}
		ntx := 1 + r.Intn(4)
		refPool := new(ethcore.GasPool).AddGas(25_000_000) // the EVM gas pool of the block, as the reference keeps it
		hugeAgain := false                                 // the previous call carried a huge gas limit: one more follows in the same block
		for i := 0; i < ntx; i++ {
			from := s.pick(s.users)
			var spec *TxSpec
			var name string
			wholeBalance := false
			k := r.Intn(100)
			forceHuge := false
			if hugeAgain && len(contracts) > 0 {
				k, forceHuge, hugeAgain = 50, true, false
			}
			switch {
			case k < 30 || len(contracts) == 0: // deployment
				progs := []struct {
					n string
					c []byte
				}{{"store", progStore(r)}, {"forward", progForward()}, {"reverter", progReverter()}, {"call-then-store", progCallThenStore()},
					{"factory", progFactory(progStore(r))}, {"suicide", progSuicide()}, {"balance-reader", progBalanceReader()}, {"forward-all", progForwardAll()}, {"block-env", progBlockEnv()}, {"picky-receiver", progPickyReceiver()}, {"retry-caller", progRetryCaller()}}
				p := progs[r.Intn(len(progs))]
				name = "deploy:" + p.n
				spec = s.baseTx(6, from, make([]byte, 20))
				spec.Data = deployer(p.c)
				spec.Amount = fmt.Sprint(r.Intn(3) * 1000)
				hs.Deploys++
			case k < 80: // call
				c := contracts[r.Intn(len(contracts))]
				name = "call:" + progOf[c]
				spec = s.baseTx(6, from, c[:])
				arg := word(big.NewInt(int64(r.Intn(50))).Bytes())
				if progOf[c] == "retry-caller" {
					for _, x := range contracts {
						if progOf[x] == "picky-receiver" {
							arg = word(x[:])
						}
					}
				}
				switch r.Intn(4) {
				case 0:
					if progOf[c] == "retry-caller" {
						break
					}
					arg = word(contracts[r.Intn(len(contracts))][:])
				case 1:
					arg = word(s.pick(s.all).Addr)
				case 2:
					arg = word(c[:])
				}
				spec.Data = arg
				spec.Amount = fmt.Sprint(r.Intn(4) * 500)
				wholeBalance = r.Intn(8) == 0
				hs.Calls++
			case k < 92: // plain transfer to a contract address
				c := contracts[r.Intn(len(contracts))]
				name = "transfer-to:" + progOf[c]
				spec = s.baseTx(1, from, c[:])
				spec.Amount = fmt.Sprint(100 + r.Intn(900))
				if r.Intn(4) == 0 { // a transfer of nothing still runs the receiver's code
					spec.Amount = "0"
					name += ":zero-amount"
				}
				hs.TransfersToContracts++
			default: // native activity on the same accounts in between
				spec = s.TxTransfer(from, s.pick(s.all).Addr, fmt.Sprint(1+r.Intn(1000)))
				name = "native-transfer"
			}
			spec.Gas = uint64(300000 + r.Intn(700000))
			if r.Intn(12) == 0 {
				spec.Gas = uint64(21000 + r.Intn(40000)) // often runs out of gas
			}
			if isCall := len(name) > 5 && name[:5] == "call:"; isCall && (forceHuge || r.Intn(10) == 0) {
				// a gas limit of the order of the block's pool: the second such call of a block does not fit
				spec.Gas = uint64(13000000 + r.Intn(12000001))
				if forceHuge { // the whole pool: whatever the first call used is missing now
					spec.Gas = 25000000
				}
				name += ":huge-gas-limit"
				if !forceHuge {
					hugeAgain = true
					if i == ntx-1 {
						ntx++
					}
				}
			}
			if spec.Type == 1 && len(name) > 12 && name[:12] == "transfer-to:" && r.Intn(4) == 0 {
				// admitted by the node (at least the governance minimum) but below the EVM's intrinsic gas:
				// the reference refuses the message before anything is bought
				spec.Gas = s.params.MinTrxGas + uint64(r.Intn(100))
				name += ":below-intrinsic-gas"
			}
			if wholeBalance {
				// the sender spends everything it has: amount = balance - gas limit x price, exactly
				price, _ := new(big.Int).SetString(spec.GasPrice, 10)
				fee := new(big.Int).Mul(price, new(big.Int).SetUint64(spec.Gas))
				if rest := new(big.Int).Sub(s.balOf(from.Addr), fee); rest.Sign() > 0 {
					spec.Amount = rest.String()
					name += ":whole-balance"
				}
			}
			spec.Note = name
			hs.Programs[name]++
			bt, err := Build(spec, s.H.Keys, s.H.Genesis.ChainID)
			if err != nil {
				return err
			}
			isEvm := spec.Type == 6
			fromA := common.BytesToAddress(spec.From)
			toA := common.BytesToAddress(spec.To)
			if spec.Type == 1 {
				// the reference treats a transfer to an account that HAS CODE as a message call
				isEvm = len(ref.GetCode(toA)) > 0
			}
			syncIn()
			snap := ref.Snapshot()
			var refRes *ethcore.ExecutionResult
			var refErr error
			var refLogs []*ethtypes.Log
			if isEvm {
				var to *common.Address
				if !isZero(spec.To) {
					to = &toA
				}
				price, _ := new(big.Int).SetString(spec.GasPrice, 10)
				amt, _ := new(big.Int).SetString(spec.Amount, 10)
				msg := ethtypes.NewMessage(fromA, to, spec.Nonce, amt, spec.Gas, price, new(big.Int), new(big.Int), spec.Data, nil, false)
				var coinbase common.Address
				copy(coinbase[:], b.Proposer)
				bctx := ethvm.BlockContext{CanTransfer: ethcore.CanTransfer, Transfer: ethcore.Transfer, GetHash: evm.GetHash, // go-ethereum's own transfer rules: the reference must not share code with the node
					Coinbase:    coinbase,
					BlockNumber: big.NewInt(h), Time: big.NewInt(b.request().Header.Time.Unix()), Difficulty: big.NewInt(1), BaseFee: big.NewInt(0), GasLimit: 25_000_000}
				vm := ethvm.NewEVM(bctx, ethcore.NewEVMTxContext(msg), ref, evm.RIGOMainnetEVMCtrlerChainConfig, ethvm.Config{NoBaseFee: true})
				ref.Prepare(common.BytesToHash(bt.Hash), s.txIndex(b))
				// the node admits a transaction only if the sender covers gas limit x price + amount (C16);
				// with a zero fee cap go-ethereum's own purchase check would let a poorer sender through
				need := new(big.Int).Add(amt, new(big.Int).Mul(price, new(big.Int).SetUint64(spec.Gas)))
				if ref.GetBalance(fromA).Cmp(need) < 0 {
					refErr = fmt.Errorf("sender cannot cover gas limit x price + amount (admission rule)")
				} else {
					refRes, refErr = ethcore.ApplyMessage(vm, msg, refPool)
				}
				refLogs = ref.GetLogs(common.BytesToHash(bt.Hash), common.Hash{})
			}
			d := s.node.Deliver(spec.Type, bt.Bytes)
			b.Txs = append(b.Txs, bt)
			if d.Panic != "" {
				return fmt.Errorf("DeliverTx panicked: %s", d.Panic)
			}
			if d.Code == 0 {
				s.nonces[string(spec.From)]++
			}
			if !isEvm {
				ref.RevertToSnapshot(snap)
				continue
			}
			hs.ContractTxs++
			where := fmt.Sprintf("seed %d block %d tx %d (%s)", s.H.Seed, h, i, name)
			refFailed := refErr != nil || refRes.Failed()
			if refFailed != (d.Code != 0) {
				hs.Mismatches = append(hs.Mismatches, fmt.Sprintf("%s: node answers code %d, the reference EVM %s", where, d.Code, map[bool]string{true: "fails", false: "succeeds"}[refFailed]))
				ref.RevertToSnapshot(snap)
				continue
			}
			if refFailed {
				// the node undoes a failed contract transaction completely (no fee, no nonce): so does the reference world here
				if refErr == nil && !bytes.Equal(refRes.ReturnData, d.Data) {
					hs.Mismatches = append(hs.Mismatches, fmt.Sprintf("%s: revert data differ: node %x (log %.120q), reference %x (%v) [amount %s gas %d price %s nonce %d; sender balance now: node %s]", where, d.Data, d.Log, refRes.ReturnData, refRes.Err, spec.Amount, spec.Gas, spec.GasPrice, spec.Nonce, s.node.App.VerifAcctCtrler().FindAccount(spec.From, true).GetBalance().Dec()))
				}
				if refErr == nil && refRes.Err == ethvm.ErrOutOfGas {
					hs.OutOfGas++
				} else {
					hs.Reverted++
				}
				ref.RevertToSnapshot(snap)
				// ... and after the roll-back the native ledger must show what it showed before the transaction:
				// a message the EVM refuses (intrinsic gas, gas pool) or an execution that fails leaves no debit,
				// no nonce step and no credit behind
				for a := range known {
					acct := ac.FindAccount(a[:], true)
					nb, nn := new(big.Int), uint64(0)
					if acct != nil {
						nb, nn = acct.GetBalance().ToBig(), acct.GetNonce()
					}
					if nb.Cmp(ref.GetBalance(a)) != 0 || nn != ref.GetNonce(a) {
						hs.Mismatches = append(hs.Mismatches, fmt.Sprintf("%s: failed transaction changed account: native balance/nonce %v/%d, before it %v/%d", where, nb, nn, ref.GetBalance(a), ref.GetNonce(a)))
					}
				}
				continue
			}
			ref.Finalise(true)
			if uint64(d.GasUsed) != refRes.UsedGas {
				hs.Mismatches = append(hs.Mismatches, fmt.Sprintf("%s: gas used %d, reference %d", where, d.GasUsed, refRes.UsedGas))
			}
			if isZero(spec.To) {
				created := ethcrypto.CreateAddress(fromA, spec.Nonce)
				if !bytes.Equal(d.Data, created[:]) {
					hs.Mismatches = append(hs.Mismatches, fmt.Sprintf("%s: returned contract address %x, expected %x", where, d.Data, created))
				}
				contracts = append(contracts, created)
				progOf[created] = name[len("deploy:"):]
				known[created] = true
				hs.Created++
			} else if !bytes.Equal(refRes.ReturnData, d.Data) {
				hs.Mismatches = append(hs.Mismatches, fmt.Sprintf("%s: return data differ: %x vs reference %x", where, d.Data, refRes.ReturnData))
			}
			// addresses created by CREATE inside contracts become known through the reference world's logs / storage
			live := s.node.App.VerifEVMCtrler().VerifState()
			for _, c := range append([]common.Address{}, contracts...) {
				child := common.BytesToAddress(ref.GetState(c, common.Hash{}).Bytes())
				if progOf[c] == "factory" && child != (common.Address{}) && !known[child] {
					known[child] = true
					contracts = append(contracts, child)
					progOf[child] = "factory-child"
				}
			}
			if len(refLogs) > 0 || true {
				ll := live.GetLogs(common.BytesToHash(bt.Hash), common.Hash{})
				if len(ll) != len(refLogs) {
					hs.Mismatches = append(hs.Mismatches, fmt.Sprintf("%s: %d logs, reference %d", where, len(ll), len(refLogs)))
				} else {
					for j := range ll {
						if ll[j].Address != refLogs[j].Address || !bytes.Equal(ll[j].Data, refLogs[j].Data) || fmt.Sprint(ll[j].Topics) != fmt.Sprint(refLogs[j].Topics) {
							hs.Mismatches = append(hs.Mismatches, fmt.Sprintf("%s: log %d differs", where, j))
						}
					}
				}
			}
			var addrs []common.Address
			for a := range known {
				addrs = append(addrs, a)
			}
			sort.Slice(addrs, func(i, j int) bool { return bytes.Compare(addrs[i][:], addrs[j][:]) < 0 })
			for _, a := range addrs {
				acct := ac.FindAccount(a[:], true)
				nb, nn := new(big.Int), uint64(0)
				if acct != nil {
					nb, nn = acct.GetBalance().ToBig(), acct.GetNonce()
				}
				if nb.Cmp(ref.GetBalance(a)) != 0 || nn != ref.GetNonce(a) {
					hs.Mismatches = append(hs.Mismatches, fmt.Sprintf("%s: account %x native balance/nonce %v/%d, reference EVM %v/%d", where, a[:4], nb, nn, ref.GetBalance(a), ref.GetNonce(a)))
				}
				if !bytes.Equal(live.GetCode(a), ref.GetCode(a)) {
					hs.Mismatches = append(hs.Mismatches, fmt.Sprintf("%s: code of %x differs", where, a[:4]))
				}
				for slot := 0; slot < 4; slot++ {
					k := common.BigToHash(big.NewInt(int64(slot)))
					if live.GetState(a, k) != ref.GetState(a, k) {
						hs.Mismatches = append(hs.Mismatches, fmt.Sprintf("%s: storage slot %d of %x differs: %x vs reference %x", where, slot, a[:4], live.GetState(a, k), ref.GetState(a, k)))
					}
				}
				if ref.HasSuicided(a) {
					hs.Suicides++
				}
			}
		}
		ups, _, p := s.node.End(h)
		if p != "" {
			return fmt.Errorf("EndBlock panicked: %s", p)
		}
		if _, p := s.node.Commit(); p != "" {
			return fmt.Errorf("Commit panicked: %s", p)
		}
		if _, err := ref.Commit(true); err != nil {
			return err
		}
		s.sets[h+2] = applyUps(s.sets[h+1], ups)
		if _, ok := s.sets[h+3]; !ok {
			s.sets[h+3] = nil
		}
		s.refreshShadow()
		// a read-only call (the body of the vm_call query) must change nothing
		if len(contracts) > 0 {
			c := contracts[r.Intn(len(contracts))]
			rootBefore, _ := s.node.App.VerifEVMCtrler().VerifLastRoot()
			balBefore := s.balOf(s.users[0].Addr).String()
			_ = guard(func() {
				_, _ = s.node.App.VerifEVMCtrler().VerifCallVM(s.users[0].Addr, c[:], word([]byte{5}), h, 1_700_000_000)
			})
			hs.ReadOnlyCalls++
			// ... and must not be visible to the next read-only call at the same height either: every
			// contract is called twice with the same input; answers, gas and errors must be identical
			for _, c2 := range contracts {
				var r1, r2 string
				for k, dst := range []*string{&r1, &r2} {
					_ = k
					perr := guard(func() {
						res, xerr := s.node.App.VerifEVMCtrler().VerifCallVM(s.users[1%len(s.users)].Addr, c2[:], word([]byte{7}), h, 1_700_000_000)
						if xerr != nil {
							*dst = "xerr:" + xerr.Error()
						} else if res != nil {
							*dst = fmt.Sprintf("ret=%x gas=%d err=%v", res.ReturnData, res.UsedGas, res.Err)
						}
					})
					if perr != nil {
						*dst = "panic:" + perr.Error()
					}
					hs.ReadOnlyCalls++
				}
				if r1 != r2 {
					hs.Mismatches = append(hs.Mismatches, fmt.Sprintf("seed %d block %d (read-only-call-repeated): the same read-only call at height %d answered %q and then %q", s.H.Seed, h, h, r1, r2))
				}
			}
			rootAfter, _ := s.node.App.VerifEVMCtrler().VerifLastRoot()
			s.refreshShadow()
			if !bytes.Equal(rootBefore, rootAfter) || balBefore != s.balOf(s.users[0].Addr).String() {
				hs.Mismatches = append(hs.Mismatches, fmt.Sprintf("seed %d block %d: a read-only contract call changed state", s.H.Seed, h))
			}
		}
	}
	return nil
}

func (s *Sim) txIndex(b *BlockSpec) int { return len(b.Txs) }

// EvmRun: n histories of contract activity mixed with native transfers, against the reference EVM
func EvmRun(seed int64, n int, scratch string) (*EvmStats, error) {
	hs := &EvmStats{Programs: map[string]int{}}
	for i := 0; i < n; i++ {
		s, err := NewSim(seed*1000+int64(i), scratch, "evm")
		if err != nil {
			return nil, err
		}
		for k := 0; k < 3; k++ {
			if err := s.Step(); err != nil {
				s.node.Close()
				return nil, err
			}
		}
		before := len(hs.Mismatches)
		err = s.evmScenario(hs)
		s.node.Close()
		if err != nil {
			hs.Mismatches = append(hs.Mismatches, fmt.Sprintf("seed %d: %v", s.H.Seed, err))
		}
		hs.Histories++
		if hs.Created > 0 && len(hs.Mismatches) == before {
			hs.DistinctNontrivial++
		}
	}
	return hs, nil
}
