package preimage

import (
	"crypto/sha256"
	"fmt"
	"math/rand"
	"strings"

	ethcrypto "github.com/ethereum/go-ethereum/crypto"
	"github.com/holiman/uint256"
	ctrlertypes "github.com/rigochain/rigo-go/ctrlers/types"
	rtypes "github.com/rigochain/rigo-go/types"
	rcrypto "github.com/rigochain/rigo-go/types/crypto"
)

// ProbeResult is the outcome of evaluating the property directly on the implementation's
// verification function: every alteration of a signed transaction must be rejected.
type ProbeResult struct {
	Signed         int            // honestly signed transactions (all must verify)
	HonestRejected []string       // honest transactions that did not verify
	Mutations      int            // alterations tried
	ByMutation     map[string]int // alterations tried, by kind
	Accepted       []string       // alterations that still verified: violations of C03
	Collisions     []string       // alterations that left the preimage bytes unchanged
}

func cloneTx(t *ctrlertypes.Trx) *ctrlertypes.Trx {
	c := *t
	c.From = append(rtypes.Address(nil), t.From...)
	c.To = append(rtypes.Address(nil), t.To...)
	c.Amount = t.Amount.Clone()
	c.GasPrice = t.GasPrice.Clone()
	c.Sig = append([]byte(nil), t.Sig...)
	return &c
}

func flip(b []byte, i int) []byte {
	c := append([]byte(nil), b...)
	if len(c) == 0 {
		return []byte{1}
	}
	c[i%len(c)] ^= 0x01
	return c
}

// mutatePayload returns altered copies of the payload (same Go type, one field changed)
func mutatePayload(p ctrlertypes.ITrxPayload, r *rand.Rand) map[string]ctrlertypes.ITrxPayload {
	out := map[string]ctrlertypes.ITrxPayload{}
	switch q := p.(type) {
	case *ctrlertypes.TrxPayloadUnstaking:
		out["unstaking.txhash"] = &ctrlertypes.TrxPayloadUnstaking{TxHash: flip(q.TxHash, r.Intn(32))}
	case *ctrlertypes.TrxPayloadWithdraw:
		out["withdraw.reqamt"] = &ctrlertypes.TrxPayloadWithdraw{ReqAmt: new(uint256.Int).AddUint64(q.ReqAmt, 1)}
		for _, k := range []uint{64, 128, 255} {
			out[fmt.Sprintf("withdraw.reqamt+2^%d", k)] = &ctrlertypes.TrxPayloadWithdraw{ReqAmt: new(uint256.Int).Add(q.ReqAmt, new(uint256.Int).Lsh(uint256.NewInt(1), k))}
		}
	case *ctrlertypes.TrxPayloadContract:
		out["contract.data"] = &ctrlertypes.TrxPayloadContract{Data: flip(q.Data, r.Intn(64))}
		out["contract.data+byte"] = &ctrlertypes.TrxPayloadContract{Data: append(append([]byte(nil), q.Data...), 0)}
		if len(q.Data) == 1 {
			out["contract.data-next-byte"] = &ctrlertypes.TrxPayloadContract{Data: []byte{q.Data[0] + 1}}
		}
		if len(q.Data) == 0 {
			out["contract.data-one-small-byte"] = &ctrlertypes.TrxPayloadContract{Data: []byte{2}}
		}
	case *ctrlertypes.TrxPayloadSetDoc:
		out["setdoc.name"] = &ctrlertypes.TrxPayloadSetDoc{Name: q.Name + "x", URL: q.URL}
		out["setdoc.url"] = &ctrlertypes.TrxPayloadSetDoc{Name: q.Name, URL: q.URL + "x"}
		if len(q.Name) > 0 {
			out["setdoc.shift"] = &ctrlertypes.TrxPayloadSetDoc{Name: q.Name[:len(q.Name)-1], URL: q.Name[len(q.Name)-1:] + q.URL}
		}
	case *ctrlertypes.TrxPayloadVoting:
		out["voting.txhash"] = &ctrlertypes.TrxPayloadVoting{TxHash: flip(q.TxHash, r.Intn(32)), Choice: q.Choice}
		out["voting.choice"] = &ctrlertypes.TrxPayloadVoting{TxHash: q.TxHash, Choice: q.Choice + 1}
		out["voting.choice+2^8"] = &ctrlertypes.TrxPayloadVoting{TxHash: q.TxHash, Choice: q.Choice + 1<<8}
		out["voting.choice+2^16"] = &ctrlertypes.TrxPayloadVoting{TxHash: q.TxHash, Choice: q.Choice + 1<<16}
		out["voting.choice-sign"] = &ctrlertypes.TrxPayloadVoting{TxHash: q.TxHash, Choice: -q.Choice - 1}
	case *ctrlertypes.TrxPayloadProposal:
		// every alteration works on its own copy
		alt := func(name string, f func(c *ctrlertypes.TrxPayloadProposal)) {
			c := *q
			c.Options = append([][]byte(nil), q.Options...)
			f(&c)
			out[name] = &c
		}
		alt("proposal.message", func(c *ctrlertypes.TrxPayloadProposal) { c.Message += "x" })
		alt("proposal.start", func(c *ctrlertypes.TrxPayloadProposal) { c.StartVotingHeight++ })
		alt("proposal.period", func(c *ctrlertypes.TrxPayloadProposal) { c.VotingPeriodBlocks++ })
		alt("proposal.applying", func(c *ctrlertypes.TrxPayloadProposal) { c.ApplyingHeight++ })
		for _, k := range []uint{8, 16, 32, 48, 63} {
			k := k
			alt(fmt.Sprintf("proposal.start+2^%d", k), func(c *ctrlertypes.TrxPayloadProposal) { c.StartVotingHeight += int64(1) << k })
			alt(fmt.Sprintf("proposal.period+2^%d", k), func(c *ctrlertypes.TrxPayloadProposal) { c.VotingPeriodBlocks += int64(1) << k })
			alt(fmt.Sprintf("proposal.applying+2^%d", k), func(c *ctrlertypes.TrxPayloadProposal) { c.ApplyingHeight += int64(1) << k })
		}
		alt("proposal.opttype+2^16", func(c *ctrlertypes.TrxPayloadProposal) { c.OptType += 1 << 16 })
		alt("proposal.opttype", func(c *ctrlertypes.TrxPayloadProposal) { c.OptType ^= 1 })
		alt("proposal.options+1", func(c *ctrlertypes.TrxPayloadProposal) { c.Options = append(c.Options, []byte("{}")) })
		if len(q.Options) > 0 {
			alt("proposal.option0", func(c *ctrlertypes.TrxPayloadProposal) { c.Options[0] = flip(c.Options[0], r.Intn(8)) })
			alt("proposal.options-swap", func(c *ctrlertypes.TrxPayloadProposal) {
				if len(c.Options) > 1 {
					c.Options[0], c.Options[1] = c.Options[1], c.Options[0]
				} else {
					c.Options = append(c.Options, c.Options[0])
				}
			})
		}
	}
	return out
}

func honestTx(r *rand.Rand, ty int32, from rtypes.Address) *ctrlertypes.Trx {
	to := make([]byte, 20)
	r.Read(to)
	hash := make([]byte, 32)
	r.Read(hash)
	var pl ctrlertypes.ITrxPayload
	switch ty {
	case ctrlertypes.TRX_UNSTAKING:
		pl = &ctrlertypes.TrxPayloadUnstaking{TxHash: hash}
	case ctrlertypes.TRX_WITHDRAW:
		pl = &ctrlertypes.TrxPayloadWithdraw{ReqAmt: uint256.NewInt(r.Uint64())}
		if r.Intn(3) == 0 { // small amounts: their RLP encoding is a single byte
			pl = &ctrlertypes.TrxPayloadWithdraw{ReqAmt: uint256.NewInt([]uint64{0, 1, 5, 100, 126}[r.Intn(5)])}
		}
	case ctrlertypes.TRX_CONTRACT:
		d := make([]byte, r.Intn(100))
		r.Read(d)
		if r.Intn(3) == 0 {
			d = [][]byte{{}, {1}, {0x7e}, {0x80}}[r.Intn(4)]
		}
		pl = &ctrlertypes.TrxPayloadContract{Data: d}
	case ctrlertypes.TRX_SETDOC:
		pl = &ctrlertypes.TrxPayloadSetDoc{Name: fmt.Sprintf("n%d", r.Intn(1000)), URL: fmt.Sprintf("http://u/%d", r.Intn(1000))}
	case ctrlertypes.TRX_VOTING:
		pl = &ctrlertypes.TrxPayloadVoting{TxHash: hash, Choice: int32(r.Intn(3))}
	case ctrlertypes.TRX_PROPOSAL:
		pl = &ctrlertypes.TrxPayloadProposal{Message: "m", StartVotingHeight: int64(r.Intn(100)), VotingPeriodBlocks: int64(r.Intn(100)),
			ApplyingHeight: int64(r.Intn(1000)), OptType: 257, Options: [][]byte{[]byte(`{"gasPrice":"11"}`), []byte(`{"slashRatio":"3"}`)}}
	}
	amt := uint256.NewInt(r.Uint64())
	if r.Intn(4) == 0 {
		amt = new(uint256.Int).Lsh(uint256.NewInt(1), uint(r.Intn(255)))
	}
	return &ctrlertypes.Trx{Version: 1, Time: r.Int63(), Nonce: uint64(r.Intn(1000)), From: from, To: to,
		Amount: amt, Gas: uint64(r.Intn(1 << 30)), GasPrice: uint256.NewInt(uint64(r.Intn(1 << 30))), Type: ty, Payload: pl}
}

// Probe signs n honest transactions with the node's own preimage function and checks that the
// node's VerifyTrxRLP rejects every single alteration of them.
func Probe(seed int64, n int) *ProbeResult {
	r := rand.New(rand.NewSource(seed))
	res := &ProbeResult{ByMutation: map[string]int{}}
	chains := []string{"localnet", "rigo-mainnet", "testnet-7", "ab", "chain with spaces", "Mixed-Case-Net"}
	for i := 0; i < n; i++ {
		seedKey := sha256.Sum256([]byte(fmt.Sprintf("verif-probe-%d-%d", seed, i)))
		prv, err := ethcrypto.ToECDSA(seedKey[:])
		if err != nil {
			continue
		}
		from := rcrypto.Pub2Addr(&prv.PublicKey)
		ty := int32(1 + i%8)
		chain := chains[r.Intn(len(chains))]
		tx := honestTx(r, ty, from)
		pre, xerr := ctrlertypes.PreImageToSignTrxRLP(tx, chain)
		if xerr != nil {
			res.HonestRejected = append(res.HonestRejected, fmt.Sprintf("case %d: preimage error %v", i, xerr))
			continue
		}
		h := sha256.Sum256(pre)
		sig, err := ethcrypto.Sign(h[:], prv)
		if err != nil {
			continue
		}
		tx.Sig = sig
		res.Signed++
		if _, _, xerr := ctrlertypes.VerifyTrxRLP(tx, chain); xerr != nil {
			res.HonestRejected = append(res.HonestRejected, fmt.Sprintf("case %d type %d: %v", i, ty, xerr))
			continue
		}
		type mut struct {
			name  string
			tx    *ctrlertypes.Trx
			chain string
		}
		var muts []mut
		add := func(name string, f func(t *ctrlertypes.Trx)) {
			c := cloneTx(tx)
			f(c)
			muts = append(muts, mut{name, c, chain})
		}
		add("version", func(t *ctrlertypes.Trx) { t.Version++ })
		add("time", func(t *ctrlertypes.Trx) { t.Time++ })
		add("time-sign", func(t *ctrlertypes.Trx) { t.Time = -t.Time })
		add("nonce", func(t *ctrlertypes.Trx) { t.Nonce++ })
		add("to", func(t *ctrlertypes.Trx) { t.To = flip(t.To, r.Intn(20)) })
		add("to-shorter", func(t *ctrlertypes.Trx) { t.To = t.To[:19] })
		add("from", func(t *ctrlertypes.Trx) { t.From = flip(t.From, r.Intn(20)) })
		add("amount", func(t *ctrlertypes.Trx) { t.Amount = new(uint256.Int).AddUint64(t.Amount, 1) })
		add("amount-shift", func(t *ctrlertypes.Trx) { t.Amount = new(uint256.Int).Lsh(t.Amount, 8) })
		add("gas", func(t *ctrlertypes.Trx) { t.Gas++ })
		add("gasprice", func(t *ctrlertypes.Trx) { t.GasPrice = new(uint256.Int).AddUint64(t.GasPrice, 1) })
		add("gas<->nonce", func(t *ctrlertypes.Trx) { t.Gas, t.Nonce = t.Nonce, t.Gas+1 })
		// shifts by a power of two: an integer field signed through a narrower type would not notice
		for _, k := range []uint{8, 16, 32, 63} {
			k := k
			add(fmt.Sprintf("version+2^%d", k), func(t *ctrlertypes.Trx) { t.Version += uint32(1) << (k % 32) })
			add(fmt.Sprintf("time+2^%d", k), func(t *ctrlertypes.Trx) { t.Time += int64(1) << k })
			add(fmt.Sprintf("nonce+2^%d", k), func(t *ctrlertypes.Trx) { t.Nonce += uint64(1) << k })
			add(fmt.Sprintf("gas+2^%d", k), func(t *ctrlertypes.Trx) { t.Gas += uint64(1) << k })
			add(fmt.Sprintf("type+2^%d", k), func(t *ctrlertypes.Trx) { t.Type += int32(1) << (k % 31) })
		}
		for _, k := range []uint{64, 128, 192, 255} {
			k := k
			add(fmt.Sprintf("amount+2^%d", k), func(t *ctrlertypes.Trx) {
				t.Amount = new(uint256.Int).Add(t.Amount, new(uint256.Int).Lsh(uint256.NewInt(1), k))
			})
			add(fmt.Sprintf("gasprice+2^%d", k), func(t *ctrlertypes.Trx) {
				t.GasPrice = new(uint256.Int).Add(t.GasPrice, new(uint256.Int).Lsh(uint256.NewInt(1), k))
			})
		}
		add("sig-byte", func(t *ctrlertypes.Trx) { t.Sig = flip(t.Sig, r.Intn(64)) })
		if ty == ctrlertypes.TRX_TRANSFER {
			add("type", func(t *ctrlertypes.Trx) { t.Type = ctrlertypes.TRX_STAKING })
		}
		if ty == ctrlertypes.TRX_STAKING {
			add("type", func(t *ctrlertypes.Trx) { t.Type = ctrlertypes.TRX_TRANSFER })
		}
		for name, p := range mutatePayload(tx.Payload, r) {
			c := cloneTx(tx)
			c.Payload = p
			muts = append(muts, mut{name, c, chain})
		}
		muts = append(muts, mut{"chainid", cloneTx(tx), chain + "x"}, mut{"chainid-other", cloneTx(tx), "othernet"},
			// near-identical chain ids are different chains
			mut{"chainid-upper", cloneTx(tx), strings.ToUpper(chain)}, mut{"chainid-title", cloneTx(tx), strings.ToUpper(chain[:1]) + chain[1:]},
			mut{"chainid-space-after", cloneTx(tx), chain + " "}, mut{"chainid-space-before", cloneTx(tx), " " + chain},
			mut{"chainid-newline", cloneTx(tx), chain + "\n"}, mut{"chainid-prefix", cloneTx(tx), chain[:len(chain)-1]})
		for _, m := range muts {
			if strings.HasPrefix(m.name, "chainid") && m.chain == chain {
				continue // not an alteration for this chain id
			}
			res.Mutations++
			res.ByMutation[m.name]++
			pre2, xerr := ctrlertypes.PreImageToSignTrxRLP(m.tx, m.chain)
			if xerr == nil && string(pre2) == string(pre) && m.name != "sig-byte" {
				res.Collisions = append(res.Collisions, fmt.Sprintf("case %d type %d: altering %s leaves the signing preimage unchanged", i, ty, m.name))
			}
			if _, _, xerr := ctrlertypes.VerifyTrxRLP(m.tx, m.chain); xerr == nil {
				res.Accepted = append(res.Accepted, fmt.Sprintf("case %d type %d: transaction with altered %s still verifies (seed %d)", i, ty, m.name, seed))
			}
		}
	}
	return res
}
