package preimage

import (
	"io"
	"os"
	"os/exec"
	"path/filepath"
	"regexp"
	"runtime"
	"sort"
	"testing"
	"time"
)

// theoriesDir locates coq/theories: $RIGO_COQ_THEORIES, else relative to this file
// (<root>/harness/preimage -> <root>/coq/theories).
func theoriesDir(t *testing.T) string {
	if d := os.Getenv("RIGO_COQ_THEORIES"); d != "" {
		return d
	}
	_, file, _, ok := runtime.Caller(0)
	if ok {
		d := filepath.Join(filepath.Dir(file), "..", "..", "coq", "theories")
		if _, err := os.Stat(filepath.Join(d, "Preimage.v")); err == nil {
			return d
		}
	}
	if _, err := os.Stat("/verif/coq/theories/Preimage.v"); err == nil {
		return "/verif/coq/theories"
	}
	t.Skip("coq/theories not found (set RIGO_COQ_THEORIES)")
	return ""
}

func copyFile(t *testing.T, src, dst string) {
	in, err := os.Open(src)
	if err != nil {
		t.Fatal(err)
	}
	defer in.Close()
	out, err := os.Create(dst)
	if err != nil {
		t.Fatal(err)
	}
	defer out.Close()
	if _, err := io.Copy(out, in); err != nil {
		t.Fatal(err)
	}
}

func coqc(t *testing.T, dir, file string) string {
	cmd := exec.Command("coqc", "-Q", ".", "Rigo", file)
	cmd.Dir = dir
	start := time.Now()
	out, err := cmd.CombinedOutput()
	t.Logf("coqc %s: %v", file, time.Since(start).Round(time.Millisecond))
	if err != nil {
		t.Fatalf("coqc %s failed: %v\n%s", file, err, out)
	}
	return string(out)
}

var badEmpty = regexp.MustCompile(`bad\s*=\s*\[\s*\]`)

func runVectors(t *testing.T, seed int64, n int) {
	if _, err := exec.LookPath("coqc"); err != nil {
		t.Skip("coqc not on PATH")
	}
	src := theoriesDir(t)
	// compile private copies of the two theories so the test neither depends on nor
	// disturbs .vo files in the source tree
	dir := t.TempDir()
	for _, f := range []string{"Rlp.v", "Preimage.v"} {
		copyFile(t, filepath.Join(src, f), filepath.Join(dir, f))
		coqc(t, dir, f)
	}
	out := filepath.Join(dir, "PreimageVectors.v")
	stats, err := Generate(seed, n, out)
	if err != nil {
		t.Fatal(err)
	}
	keys := make([]string, 0, len(stats))
	for k := range stats {
		keys = append(keys, k)
	}
	sort.Strings(keys)
	for _, k := range keys {
		t.Logf("%-40s %d", k, stats[k])
	}
	res := coqc(t, dir, "PreimageVectors.v")
	if !badEmpty.MatchString(res) {
		t.Fatalf("model and Go code disagree; coqc printed:\n%s", res)
	}
}

func TestGenerate50(t *testing.T) { runVectors(t, 1, 50) }

func TestGenerate300(t *testing.T) {
	if testing.Short() {
		t.Skip("short")
	}
	runVectors(t, 20260925, 300)
}

// Every transaction type must be present in the stats of even a small run.
func TestStatsCoverTypes(t *testing.T) {
	stats, err := Generate(7, 64, filepath.Join(t.TempDir(), "V.v"))
	if err != nil {
		t.Fatal(err)
	}
	for _, ty := range []string{"transfer", "staking", "unstaking", "proposal", "voting", "contract", "setdoc", "withdraw"} {
		if stats["type:"+ty] == 0 {
			t.Errorf("no vector of type %s", ty)
		}
	}
}
