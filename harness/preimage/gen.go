// Package preimage generates test vectors that tie the Coq model of the signing
// preimage (coq/theories/Rlp.v, Preimage.v) to the real code byte for byte.
//
// Every expected byte string is produced by ctrlertypes.PreImageToSignTrxRLP of the
// rigo-go tree under test; the Coq side evaluates `preimage` on the same decoded
// fields and lists the indices that differ (`bad`, expected to print `= []`).
package preimage

import (
	"bufio"
	"fmt"
	"math"
	"math/rand"
	"os"
	"strings"

	"github.com/holiman/uint256"
	ctrlertypes "github.com/rigochain/rigo-go/ctrlers/types"
	rtypes "github.com/rigochain/rigo-go/types"
)

type gen struct {
	r     *rand.Rand
	stats map[string]int
}

func (g *gen) hit(class string) { g.stats[class]++ }

// pick returns a boundary value with probability ~2/3, otherwise calls rnd.
func (g *gen) u64(field string) uint64 {
	type bv struct {
		name string
		v    uint64
	}
	bs := []bv{
		{"0", 0}, {"1", 1}, {"127", 127}, {"128", 128}, {"255", 255}, {"256", 256},
		{"2^32-1", math.MaxUint32}, {"2^32", 1 << 32}, {"2^63-1", math.MaxInt64},
		{"2^63", 1 << 63}, {"2^64-1", math.MaxUint64},
	}
	if g.r.Intn(3) == 0 {
		g.hit("u64:random")
		return g.r.Uint64() >> uint(g.r.Intn(64))
	}
	b := bs[g.r.Intn(len(bs))]
	g.hit("u64:" + b.name)
	if b.v == math.MaxUint64 {
		g.hit(field + ":2^64-1")
	}
	return b.v
}

func (g *gen) u32() uint32 {
	type bv struct {
		name string
		v    uint32
	}
	bs := []bv{{"0", 0}, {"1", 1}, {"127", 127}, {"128", 128}, {"255", 255}, {"256", 256},
		{"65535", 65535}, {"2^31", 1 << 31}, {"2^32-1", math.MaxUint32}}
	if g.r.Intn(3) == 0 {
		g.hit("u32:random")
		return g.r.Uint32() >> uint(g.r.Intn(32))
	}
	b := bs[g.r.Intn(len(bs))]
	g.hit("u32:" + b.name)
	return b.v
}

func (g *gen) i64(field string) int64 {
	type bv struct {
		name string
		v    int64
	}
	bs := []bv{
		{"0", 0}, {"1", 1}, {"-1", -1}, {"127", 127}, {"128", 128}, {"-128", -128}, {"255", 255},
		{"256", 256}, {"2^32-1", math.MaxUint32}, {"2^63-1", math.MaxInt64}, {"-2^63", math.MinInt64},
		{"unixnano", 1695600000123456789},
	}
	switch g.r.Intn(4) {
	case 0:
		g.hit("i64:random")
		v := int64(g.r.Uint64() >> uint(1+g.r.Intn(63)))
		return v
	case 1:
		g.hit("i64:random-negative")
		g.hit(field + ":negative")
		return -int64(g.r.Uint64()>>uint(1+g.r.Intn(63))) - 1
	}
	b := bs[g.r.Intn(len(bs))]
	g.hit("i64:" + b.name)
	if b.v < 0 {
		g.hit(field + ":negative")
	}
	return b.v
}

func (g *gen) i32(field string) int32 {
	type bv struct {
		name string
		v    int32
	}
	bs := []bv{
		{"0", 0}, {"1", 1}, {"-1", -1}, {"127", 127}, {"128", 128}, {"255", 255}, {"256", 256},
		{"2^31-1", math.MaxInt32}, {"-2^31", math.MinInt32}, {"-128", -128},
	}
	switch g.r.Intn(4) {
	case 0:
		g.hit("i32:random")
		return int32(g.r.Uint32() >> uint(1+g.r.Intn(31)))
	case 1:
		g.hit("i32:random-negative")
		g.hit(field + ":negative")
		return -int32(g.r.Uint32()>>uint(1+g.r.Intn(31))) - 1
	}
	b := bs[g.r.Intn(len(bs))]
	g.hit("i32:" + b.name)
	if b.v < 0 {
		g.hit(field + ":negative")
	}
	return b.v
}

func (g *gen) u256() *uint256.Int {
	one := uint256.NewInt(1)
	p := func(n uint) *uint256.Int { return new(uint256.Int).Lsh(one, n) }
	type bv struct {
		name string
		v    *uint256.Int
	}
	bs := []bv{
		{"0", uint256.NewInt(0)}, {"1", uint256.NewInt(1)}, {"127", uint256.NewInt(127)},
		{"128", uint256.NewInt(128)}, {"255", uint256.NewInt(255)}, {"256", uint256.NewInt(256)},
		{"2^64-1", uint256.NewInt(math.MaxUint64)}, {"2^64", p(64)}, {"2^255", p(255)},
		{"2^256-1", new(uint256.Int).Not(uint256.NewInt(0))},
		{"10^18", uint256.NewInt(1_000_000_000_000_000_000)},
	}
	if g.r.Intn(3) == 0 {
		g.hit("u256:random")
		bz := make([]byte, 1+g.r.Intn(32))
		g.r.Read(bz)
		return new(uint256.Int).SetBytes(bz)
	}
	b := bs[g.r.Intn(len(bs))]
	g.hit("u256:" + b.name)
	return new(uint256.Int).Set(b.v)
}

func (g *gen) rbytes(n int) []byte {
	bz := make([]byte, n)
	g.r.Read(bz)
	return bz
}

// data returns a byte string; class names the boundary hit.
func (g *gen) data(field string) []byte {
	k := g.r.Intn(20)
	var bz []byte
	var class string
	switch k {
	case 0:
		class, bz = "nil", nil
	case 1:
		class, bz = "empty", []byte{}
	case 2:
		class, bz = "1byte-0x00", []byte{0}
	case 3:
		class, bz = "1byte-0x7f", []byte{0x7f}
	case 4:
		class, bz = "1byte-0x80", []byte{0x80}
	case 5:
		class, bz = "1byte-0xff", []byte{0xff}
	case 6:
		class, bz = "len20", g.rbytes(20)
	case 7:
		class, bz = "len32", g.rbytes(32)
	case 8:
		class, bz = "len55", g.rbytes(55)
	case 9:
		class, bz = "len56", g.rbytes(56)
	case 10:
		class, bz = "len57", g.rbytes(57)
	case 11:
		class, bz = "len255", g.rbytes(255)
	case 12:
		class, bz = "len256", g.rbytes(256)
	case 13:
		class, bz = "len257-1200", g.rbytes(257+g.r.Intn(944))
	case 14:
		class, bz = "odd-len", g.rbytes(1+2*g.r.Intn(30))
	case 15:
		class, bz = "leading-zeros", append([]byte{0, 0}, g.rbytes(g.r.Intn(8))...)
	default:
		class, bz = "random<56", g.rbytes(g.r.Intn(56))
	}
	g.hit("bytes:" + class)
	if len(bz) > 55 {
		g.hit(field + ":>55")
	}
	if len(bz) > 255 {
		g.hit(field + ":>255")
	}
	if len(bz) == 0 {
		g.hit(field + ":empty")
	}
	return bz
}

func (g *gen) addr(field string) []byte {
	switch g.r.Intn(10) {
	case 0:
		g.hit(field + ":nil")
		return nil
	case 1:
		g.hit(field + ":empty")
		return []byte{}
	case 2:
		g.hit(field + ":odd-len")
		return g.rbytes(1 + 2*g.r.Intn(20))
	case 3:
		g.hit(field + ":1byte")
		return []byte{byte(g.r.Intn(256))}
	case 4:
		g.hit(field + ":zero20")
		return make([]byte, 20)
	case 5:
		g.hit(field + ":len64")
		return g.rbytes(64)
	default:
		g.hit(field + ":len20")
		return g.rbytes(20)
	}
}

var sampleStrings = []string{
	"", "a", "\x00", "\x7f", "\u0080", "doc", "https://rigochain.io/doc.json",
	"한글 문서 이름", "документ ✓ 🚀 名前", "tab\tnl\nquote\"back\\slash",
	strings.Repeat("x", 55), strings.Repeat("y", 56), strings.Repeat("ü", 128), strings.Repeat("long/url/", 40),
	"invalid-utf8-\xff\xfe", ") Signed Message:\n",
}

func (g *gen) str(field string) string {
	i := g.r.Intn(len(sampleStrings) + 2)
	if i >= len(sampleStrings) {
		g.hit("string:random-ascii")
		n := g.r.Intn(80)
		var sb strings.Builder
		for j := 0; j < n; j++ {
			sb.WriteByte(byte(0x20 + g.r.Intn(0x5f)))
		}
		return sb.String()
	}
	s := sampleStrings[i]
	switch {
	case s == "":
		g.hit("string:empty")
	case len(s) == 1:
		g.hit("string:1byte")
	case len(s) > 255:
		g.hit("string:>255")
	case len(s) > 55:
		g.hit("string:>55")
	default:
		g.hit("string:short")
	}
	for _, c := range []byte(s) {
		if c >= 0x80 {
			g.hit("string:non-ascii")
			break
		}
	}
	return s
}

var chainIDs = []string{
	"localnet", "mainnet", "testnet", "rigo-testnet-0001", "0x1234", "1", "", "a b_c.d-1",
	"chain with spaces", "UPPER/lower:colon", "(", "((nested", "naïve-체인", "~!@#$%^&*_+=[]{}|;',.<>?",
	strings.Repeat("c", 50),
}
var chainIDsParen = []string{
	")", "weird)chain", "x) Signed Message:\n12", "a)b)c", ") Signed Message:\n",
}

func (g *gen) chain() string {
	if g.r.Intn(12) == 0 {
		g.hit("chain:with-rparen")
		return chainIDsParen[g.r.Intn(len(chainIDsParen))]
	}
	c := chainIDs[g.r.Intn(len(chainIDs))]
	if c == "" {
		g.hit("chain:empty")
	} else {
		g.hit("chain:no-rparen")
	}
	return c
}

// ---- Coq printing ----

func coqNList(bz []byte) string {
	if len(bz) == 0 {
		return "nil"
	}
	var sb strings.Builder
	sb.WriteString("[")
	for i, b := range bz {
		if i > 0 {
			sb.WriteString(";")
		}
		fmt.Fprintf(&sb, "%d", b)
	}
	sb.WriteString("]%N")
	return sb.String()
}

func coqBytes(bz []byte) string { return "(bytesN " + coqNList(bz) + ")" }
func coqN(u uint64) string      { return fmt.Sprintf("%d%%N", u) }
func coqN256(u *uint256.Int) string {
	return u.ToBig().String() + "%N"
}
func coqZ(z int64) string { return fmt.Sprintf("(%d)%%Z", z) }

var typeNames = map[int32]string{
	ctrlertypes.TRX_TRANSFER: "transfer", ctrlertypes.TRX_STAKING: "staking",
	ctrlertypes.TRX_UNSTAKING: "unstaking", ctrlertypes.TRX_PROPOSAL: "proposal",
	ctrlertypes.TRX_VOTING: "voting", ctrlertypes.TRX_CONTRACT: "contract",
	ctrlertypes.TRX_SETDOC: "setdoc", ctrlertypes.TRX_WITHDRAW: "withdraw",
}

// payload builds a payload object for tx type ty and its Coq term.
func (g *gen) payload(ty int32) (ctrlertypes.ITrxPayload, string) {
	switch ty {
	case ctrlertypes.TRX_TRANSFER:
		if g.r.Intn(2) == 0 {
			g.hit("payload:transfer-nil")
			return nil, "PNone"
		}
		g.hit("payload:transfer-object")
		return &ctrlertypes.TrxPayloadAssetTransfer{}, "PTransfer"
	case ctrlertypes.TRX_STAKING:
		if g.r.Intn(2) == 0 {
			g.hit("payload:staking-nil")
			return nil, "PNone"
		}
		g.hit("payload:staking-object")
		return &ctrlertypes.TrxPayloadStaking{}, "PStaking"
	case ctrlertypes.TRX_UNSTAKING:
		h := g.data("unstaking.txhash")
		return &ctrlertypes.TrxPayloadUnstaking{TxHash: h}, "(PUnstaking " + coqBytes(h) + ")"
	case ctrlertypes.TRX_WITHDRAW:
		a := g.u256()
		return &ctrlertypes.TrxPayloadWithdraw{ReqAmt: a}, "(PWithdraw " + coqN256(a) + ")"
	case ctrlertypes.TRX_CONTRACT:
		d := g.data("contract.data")
		return &ctrlertypes.TrxPayloadContract{Data: d}, "(PContract " + coqBytes(d) + ")"
	case ctrlertypes.TRX_SETDOC:
		n, u := g.str("setdoc.name"), g.str("setdoc.url")
		return &ctrlertypes.TrxPayloadSetDoc{Name: n, URL: u},
			"(PSetDoc " + coqBytes([]byte(n)) + " " + coqBytes([]byte(u)) + ")"
	case ctrlertypes.TRX_VOTING:
		h := g.data("voting.txhash")
		c := g.i32("voting.choice")
		return &ctrlertypes.TrxPayloadVoting{TxHash: h, Choice: c},
			"(PVoting " + coqBytes(h) + " " + coqZ(int64(c)) + ")"
	case ctrlertypes.TRX_PROPOSAL:
		msg := g.str("proposal.message")
		s, v, a := g.i64("proposal.start"), g.i64("proposal.period"), g.i64("proposal.applying")
		o := g.i32("proposal.opttype")
		nopt := g.r.Intn(5)
		g.hit(fmt.Sprintf("proposal.options:%d", nopt))
		var opts [][]byte
		if nopt == 0 && g.r.Intn(2) == 0 {
			opts = [][]byte{}
		}
		var sb strings.Builder
		if nopt == 0 {
			sb.WriteString("nil")
		} else {
			sb.WriteString("[")
		}
		for i := 0; i < nopt; i++ {
			od := g.data("proposal.option")
			opts = append(opts, od)
			if i > 0 {
				sb.WriteString("; ")
			}
			sb.WriteString(coqBytes(od))
		}
		if nopt != 0 {
			sb.WriteString("]")
		}
		return &ctrlertypes.TrxPayloadProposal{
				Message: msg, StartVotingHeight: s, VotingPeriodBlocks: v, ApplyingHeight: a,
				OptType: o, Options: opts},
			fmt.Sprintf("(PProposal %s %s %s %s %s %s)", coqBytes([]byte(msg)), coqZ(s), coqZ(v), coqZ(a),
				coqZ(int64(o)), sb.String())
	}
	panic("unreachable")
}

type vector struct {
	chain string
	term  string
	exp   []byte
}

func (g *gen) vector(i int) (vector, error) {
	// all 8 transaction types in rotation, so each appears even for small n
	ty := int32(1 + i%8)
	g.hit("type:" + typeNames[ty])
	pl, plTerm := g.payload(ty)

	txType := ty
	// now and then a Type value that no payload belongs to, to exercise the
	// int32 -> uint64 sign extension of the Type field (payload nil).
	if g.r.Intn(15) == 0 {
		txType = g.i32("trx.type")
		pl, plTerm = nil, "PNone"
		g.hit("type:arbitrary-int32-nil-payload")
	} else if g.r.Intn(25) == 0 {
		// payload object that does not belong to Type: the encoder does not care
		other := int32(1 + g.r.Intn(8))
		pl, plTerm = g.payload(other)
		g.hit("type:mismatched-payload-object")
	}

	tx := &ctrlertypes.Trx{
		Version:  g.u32(),
		Time:     g.i64("trx.time"),
		Nonce:    g.u64("trx.nonce"),
		From:     rtypes.Address(g.addr("from")),
		To:       rtypes.Address(g.addr("to")),
		Amount:   g.u256(),
		Gas:      g.u64("trx.gas"),
		GasPrice: g.u256(),
		Type:     txType,
		Payload:  pl,
	}
	// the signature must not influence the preimage
	if g.r.Intn(2) == 0 {
		tx.Sig = g.rbytes(65)
		g.hit("sig:present")
	} else {
		g.hit("sig:absent")
	}
	chain := g.chain()

	exp, xerr := ctrlertypes.PreImageToSignTrxRLP(tx, chain)
	if xerr != nil {
		return vector{}, fmt.Errorf("vector %d: PreImageToSignTrxRLP: %v", i, xerr)
	}
	if len(exp) > 1000 {
		g.hit("preimage:>1000-bytes")
	}

	term := fmt.Sprintf("(MkTrx %s %s %s %s %s %s %s %s %s %s)",
		coqN(uint64(tx.Version)), coqZ(tx.Time), coqN(tx.Nonce),
		coqBytes(tx.From), coqBytes(tx.To), coqN256(tx.Amount), coqN(tx.Gas),
		coqN256(tx.GasPrice), coqZ(int64(tx.Type)), plTerm)
	return vector{chain: chain, term: term, exp: exp}, nil
}

// Generate writes to outPath a Coq file holding n test vectors drawn from a PRNG
// seeded with seed.  Compiling the file (coqc -Q <theories> Rigo <outPath>) prints
// `bad = []` when the Coq model agrees with the Go code on all of them.
// stats counts vectors per transaction type and per boundary class.
func Generate(seed int64, n int, outPath string) (stats map[string]int, err error) {
	g := &gen{r: rand.New(rand.NewSource(seed)), stats: map[string]int{}}

	f, err := os.Create(outPath)
	if err != nil {
		return nil, err
	}
	defer func() {
		if cerr := f.Close(); err == nil {
			err = cerr
		}
	}()
	w := bufio.NewWriter(f)

	fmt.Fprintf(w, "(* GENERATED by verifharness/preimage.Generate(seed=%d, n=%d). Do not edit.\n", seed, n)
	fmt.Fprintf(w, "   Expected bytes come from ctrlertypes.PreImageToSignTrxRLP of the tree under test. *)\n")
	fmt.Fprintf(w, "From Coq Require Import List NArith ZArith.\nImport ListNotations.\n")
	fmt.Fprintf(w, "From Rigo Require Import Rlp Preimage.\n\n")
	fmt.Fprintf(w, "Definition vectors : list (list N * trx * list N) := [\n")
	for i := 0; i < n; i++ {
		v, verr := g.vector(i)
		if verr != nil {
			return nil, verr
		}
		sep := ";"
		if i == n-1 {
			sep = ""
		}
		fmt.Fprintf(w, "  (* %d *) (%s,\n    %s,\n    %s)%s\n", i, coqNList([]byte(v.chain)), v.term, coqNList(v.exp), sep)
	}
	fmt.Fprintf(w, "].\n\n")
	fmt.Fprintf(w, "Definition bad := Eval vm_compute in check_vectors vectors.\nPrint bad.\n")
	if err = w.Flush(); err != nil {
		return nil, err
	}
	g.stats["vectors"] = n
	return g.stats, nil
}
