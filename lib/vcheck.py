#!/usr/bin/env python3
"""Orchestration shared by all /verif checks.

A check does, in order (DESIGN.md section 5.3):
  1. build the property's proof cone with coqc (full .vo), read `Print Assumptions`, grep for escapes;
  2. rebuild the Go harness from /repo's current working tree (-tags verif) and run it: the real
     code is driven on generated inputs and the observations are written as Coq case files;
  3. evaluate the model and the shared property predicate on those cases inside Coq (vm_compute);
  4. decide, write replay files, print VIOLATION / KNOWN-FINDING lines, write evidence/<id>.json.
"""
import json, os, re, shutil, subprocess, sys, time, atexit, glob, hashlib
from concurrent.futures import ThreadPoolExecutor

VERIF = os.path.dirname(os.path.dirname(os.path.abspath(__file__)))
COQ = os.path.join(VERIF, "coq")
THEORIES = os.path.join(COQ, "theories")
HARNESS = os.path.join(VERIF, "harness")
REPO = os.environ.get("VERIF_REPO", "/repo")

GOENV = dict(os.environ, GOFLAGS="-mod=mod", GOPROXY="off", GOSUMDB="off", GOTOOLCHAIN="local",
             CGO_ENABLED=os.environ.get("CGO_ENABLED", "1"))

FORBIDDEN = re.compile(r"\b(Admitted|admit|Axiom|Axioms|Parameter|Parameters|Conjecture|Conjectures|Hypothesis|Variable|Variables|Hypotheses)\b|Unset\s+Guard|bypass_check|type-in-type|impredicative-set|Admit\s+Obligations")
# Section-local Variable/Hypothesis are allowed; they are checked separately (must be inside a Section).
SECTION_OK = re.compile(r"\b(Hypothesis|Variable|Variables|Hypotheses)\b")

# axioms of the standard library that a theorem may depend on (each is named in DESIGN.md section 9)
ALLOWED_AXIOMS = {
    "functional_extensionality_dep", "FunctionalExtensionality.functional_extensionality_dep",
    "proof_irrelevance", "ProofIrrelevance.proof_irrelevance", "classic", "Classical_Prop.classic",
    "JMeq_eq", "JMeq.JMeq_eq", "Eqdep.Eq_rect_eq.eq_rect_eq", "eq_rect_eq",
    "propositional_extensionality", "PropExtensionality.propositional_extensionality",
}


class Ctx:
    def __init__(self, prop, tier, seed):
        self.prop, self.tier, self.seed = prop, tier, seed
        self.t0 = time.time()
        base = os.environ.get("VERIF_SCRATCH", "/var/tmp")
        self.scratch = os.path.join(base, "verif.%s.%d" % (prop, os.getpid()))
        os.makedirs(self.scratch, exist_ok=True)
        atexit.register(lambda: shutil.rmtree(self.scratch, ignore_errors=True))
        self.violations = []      # (replay_path, nofail)
        self.reported = {}        # key -> occurrences (one VIOLATION line and replay per key)
        self.deferred = []        # replay files of no-failing-input-found violations, printed by finish()
        self.known = []           # text lines
        self.notes = []
        self.cov = {}

    def quick(self):
        return self.tier == "quick"


def sh(cmd, cwd=None, env=None, timeout=3600, inp=None):
    p = subprocess.run(cmd, cwd=cwd, env=env, timeout=timeout, input=inp,
                       stdout=subprocess.PIPE, stderr=subprocess.STDOUT, text=True)
    return p.returncode, p.stdout


# --------------------------------------------------------------------------- Coq side

def project_files():
    fs = []
    for l in open(os.path.join(COQ, "_CoqProject")):
        l = l.strip()
        if l.endswith(".v"):
            fs.append(l)
    return fs


def ensure_makefile():
    mk, proj = os.path.join(COQ, "Makefile.coq"), os.path.join(COQ, "_CoqProject")
    if not os.path.exists(mk) or os.path.getmtime(mk) < os.path.getmtime(proj):
        rc, out = sh(["coq_makefile", "-f", "_CoqProject", "-o", "Makefile.coq"], cwd=COQ)
        if rc != 0:
            raise RuntimeError("coq_makefile failed: " + out)


def coq_make(targets, timeout=1800, clean=False):
    """full .vo build of the given targets (and what they depend on)"""
    ensure_makefile()
    if clean:
        sh(["make", "-f", "Makefile.coq", "clean"], cwd=COQ)
    rc, out = sh(["make", "-f", "Makefile.coq", "-j16"] + targets, cwd=COQ, timeout=timeout)
    return rc == 0, out


def cone_of(vfile):
    """transitive dependencies of theories/<vfile> inside the project (paths relative to coq/)"""
    rc, out = sh(["coqdep", "-Q", "theories", "Rigo"] + project_files(), cwd=COQ)
    deps = {}
    for line in out.splitlines():
        if ":" not in line:
            continue
        lhs, rhs = line.split(":", 1)
        for tgt in lhs.split():
            if tgt.endswith(".vo"):
                deps[tgt[:-1]] = [d[:-1] for d in rhs.split() if d.endswith(".vo")]
    seen, todo = [], [vfile]
    while todo:
        f = todo.pop()
        if f in seen:
            continue
        seen.append(f)
        todo.extend(deps.get(f, []))
    return sorted(seen)


def count_obligations(files):
    n = 0
    names = []
    for f in files:
        txt = open(os.path.join(COQ, f)).read()
        txt = re.sub(r"\(\*.*?\*\)", "", txt, flags=re.S)
        n += len(re.findall(r"\b(Qed|Defined)\s*\.", txt))
        names += re.findall(r"\b(?:Theorem|Lemma|Corollary|Example|Fact|Proposition|Remark)\s+([A-Za-z0-9_']+)", txt)
    return n, names


def hygiene(files):
    """forbidden tokens in the cone; Variable/Hypothesis only inside Sections"""
    bad = []
    for f in files:
        txt = open(os.path.join(COQ, f)).read()
        txt = re.sub(r"\(\*.*?\*\)", "", txt, flags=re.S)
        depth = 0
        for ln, line in enumerate(txt.splitlines(), 1):
            if re.match(r"\s*Section\s+\w+", line):
                depth += 1
            elif re.match(r"\s*End\s+\w+", line) and depth > 0:
                depth -= 1
            m = FORBIDDEN.search(line)
            if m:
                if SECTION_OK.fullmatch(m.group(0)) and depth > 0:
                    continue
                if re.search(r"Context\s*[({`]", line):
                    continue
                bad.append("%s:%d: %s" % (f, ln, line.strip()))
    return bad


def print_assumptions(vfile):
    """recompile theories/<vfile> and parse its `Print Assumptions` output"""
    rc, out = sh(["coqc", "-Q", "theories", "Rigo", vfile], cwd=COQ, timeout=1800)
    if rc != 0:
        return False, [], out
    closed = out.count("Closed under the global context")
    axioms = []
    in_ax = False
    for line in out.splitlines():
        if line.startswith("Axioms:"):
            in_ax = True
            continue
        if in_ax:
            m = re.match(r"^([A-Za-z_][A-Za-z0-9_.']*)\s*:", line)
            if m:
                axioms.append(m.group(1))
            elif line and not line.startswith(" "):
                in_ax = False
    return True, axioms, "closed=%d axioms=%s" % (closed, sorted(set(axioms)))


def proof_stage(ctx, props_v, clean=False):
    """returns (ok, info) ; info has obligations, theorem names, axioms, failure text"""
    target = props_v[:-2] + ".vo"
    t = time.time()
    ok, out = coq_make([target], clean=clean)
    info = {"make_s": round(time.time() - t, 1)}
    cone = cone_of(props_v)
    info["cone"] = cone
    n, names = count_obligations(cone)
    info["obligations"], info["names"] = n, names
    if not ok:
        m = re.search(r'File "([^"]+)", line (\d+)', out)
        info["failed"] = out[-3000:]
        info["failed_at"] = "%s:%s" % (m.group(1), m.group(2)) if m else "unknown"
        return False, info
    hyg = hygiene(cone)
    if hyg:
        info["failed"] = "forbidden constructs: " + "; ".join(hyg[:10])
        info["failed_at"] = hyg[0]
        return False, info
    ok2, axioms, txt = print_assumptions(props_v)
    info["assumptions"] = txt
    foreign = [a for a in axioms if a not in ALLOWED_AXIOMS and a.split(".")[-1] not in ALLOWED_AXIOMS]
    info["axioms"] = sorted(set(axioms))
    if not ok2 or foreign:
        info["failed"] = "Print Assumptions: " + (txt if ok2 else "props file does not compile") + " foreign=%s" % foreign
        info["failed_at"] = props_v
        return False, info
    return True, info


def coqchk(ctx, cone):
    """independent re-check of the compiled cone (thorough tier)"""
    mods = ["Rigo." + f[len("theories/"):-2].replace("/", ".") for f in cone]
    t = time.time()
    rc, out = sh(["coqchk", "-silent", "-o", "-Q", "theories", "Rigo"] + mods, cwd=COQ, timeout=3 * 3600)
    return rc == 0, out[-4000:], round(time.time() - t, 1)


# --------------------------------------------------------------------------- Coq term reader

_tok = re.compile(r"\s*(?:(\[|\]|\(|\)|;|,)|(-?\d+)(?:%[A-Za-z]+)?|([A-Za-z_][A-Za-z0-9_.']*)|(\"(?:[^\"]|\"\")*\"))")


def parse_coq_term(s):
    """reads the value printed by `Print x.` for lists / tuples / options / numbers / constructor
    applications into Python lists / tuples / ints / (ctor, args...) tuples"""
    toks = []
    pos = 0
    s = s.strip()
    while pos < len(s):
        m = _tok.match(s, pos)
        if not m:
            raise ValueError("cannot tokenise at %r" % s[pos:pos + 40])
        pos = m.end()
        if m.group(1):
            toks.append(m.group(1))
        elif m.group(2) is not None:
            toks.append(int(m.group(2)))
        elif m.group(3):
            toks.append(("id", m.group(3)))
        else:
            toks.append(("str", m.group(4)[1:-1]))
    i = [0]

    def atom():
        t = toks[i[0]]
        if t == "[":
            i[0] += 1
            items = []
            if toks[i[0]] == "]":
                i[0] += 1
                return items
            while True:
                items.append(app())
                t2 = toks[i[0]]
                i[0] += 1
                if t2 == "]":
                    return items
                assert t2 == ";", t2
        if t == "(":
            i[0] += 1
            items = [app()]
            while toks[i[0]] == ",":
                i[0] += 1
                items.append(app())
            assert toks[i[0]] == ")", toks[i[0]]
            i[0] += 1
            return items[0] if len(items) == 1 else tuple(items)
        i[0] += 1
        if isinstance(t, int):
            return t
        if t[0] == "str":
            return t[1]
        name = t[1]
        return {"true": True, "false": False, "None": None}.get(name, ("id", name))

    def app():
        head = atom()
        args = []
        while i[0] < len(toks) and toks[i[0]] not in ("]", ")", ";", ","):
            args.append(atom())
        if isinstance(head, tuple) and len(head) == 2 and head[0] == "id":
            if head[1] == "Some" and len(args) == 1:
                return ("Some", args[0])
            return (head[1],) + tuple(args) if args else head[1]
        assert not args, (head, args)
        return head

    v = app()
    return v


def printed_value(out, name):
    """extract `name = <term> : <type>` from coqc output"""
    m = re.search(r"^%s\s*=\s*(.*?)\n\s*:\s" % re.escape(name), out, flags=re.S | re.M)
    if not m:
        return None
    return parse_coq_term(m.group(1))


def run_case_files(ctx, files, names=("bad",), timeout=3600):
    """coqc each generated case file (in parallel); returns {file: {name: value}} or raises"""
    # the executable model the case files import is rebuilt from its sources first (a stale .vo
    # would evaluate yesterday's model)
    mods = set()
    for f in files:
        with open(f) as fh:
            head = fh.read(4000)
        for m in re.finditer(r"From Rigo Require Import ([^.]*)\.", head):
            mods.update(m.group(1).split())
    if "Predicates" in mods:
        mods.add("PredicatesSound")   # the comparator's soundness proof is re-checked with it
    if mods:
        okm, outm = coq_make(["theories/%s.vo" % m for m in sorted(mods)])
        if not okm:
            return {f: {"rc": 1, "out": "model does not build: " + outm[-3000:], "s": 0} for f in files}

    def one(f):
        t = time.time()
        rc, out = sh(["coqc", "-Q", THEORIES, "Rigo", os.path.basename(f)], cwd=os.path.dirname(f), timeout=timeout)
        res = {"rc": rc, "out": out, "s": round(time.time() - t, 1)}
        if rc == 0:
            for n in names:
                res[n] = printed_value(out, n)
        return f, res
    with ThreadPoolExecutor(max_workers=int(os.environ.get("VERIF_JOBS", "12"))) as ex:
        return dict(ex.map(one, files))


# --------------------------------------------------------------------------- Go side

def go_build(ctx, tags="verif"):
    """rebuild the harness against /repo's current working tree"""
    shutil.copy(os.path.join(REPO, "go.sum"), os.path.join(HARNESS, "go.sum"))
    binp = os.path.join(ctx.scratch, "vh")
    t = time.time()
    rc, out = sh(["go", "build", "-tags", tags, "-o", binp, "./cmd/vh"], cwd=HARNESS, env=GOENV, timeout=1800)
    ctx.cov["go_build_s"] = round(time.time() - t, 1)
    if rc != 0:
        return None, out
    return binp, out


def run_harness(ctx, binp, sub, args, timeout=3600):
    rc, out = sh([binp, sub] + [str(a) for a in args], cwd=ctx.scratch, env=GOENV, timeout=timeout)
    return rc, out


# --------------------------------------------------------------------------- findings / output

def known_findings(prop):
    res = []
    p = os.path.join(VERIF, "KNOWN_FINDINGS.txt")
    if not os.path.exists(p):
        return res
    for line in open(p):
        line = line.strip()
        m = re.match(r"finding:\s+property=(\S+)\s+key=(\S+)\s+(.*)", line)
        if m and m.group(1) == prop:
            res.append((m.group(2), m.group(3)))
    return res


def write_replay(ctx, name, obj):
    d = os.path.join(VERIF, "replays")
    os.makedirs(d, exist_ok=True)
    path = os.path.join(d, "%s-%s-%s.json" % (ctx.prop, ctx.seed, name))
    obj = dict(obj, property=ctx.prop, seed=ctx.seed, tier=ctx.tier)
    with open(path, "w") as f:
        json.dump(obj, f, indent=1, default=str)
    return path


def violation(ctx, key, replay_obj, nofail=False):
    """key identifies what failed (call site / crash point / history shape); listed keys are known findings"""
    for k, text in known_findings(ctx.prop):
        if k == key:
            line = "KNOWN-FINDING: property=%s key=%s %s" % (ctx.prop, key, text)
            if line not in ctx.known:
                ctx.known.append(line)
                print(line)
            return
    if key in ctx.reported:
        ctx.reported[key] += 1
        return
    ctx.reported[key] = 1
    path = write_replay(ctx, re.sub(r"[^A-Za-z0-9_.-]", "_", key)[:60], dict(replay_obj, key=key, no_failing_input_found=nofail))
    if nofail:
        # a broken proof or correspondence is reported as such only if the whole run (all stages of the
        # check) exhibits no concrete failing input: the line is printed by finish()
        ctx.deferred.append(path)
        ctx.violations.append((path, True))
        return
    ctx.violations.append((path, False))
    print("VIOLATION property=%s replay=%s" % (ctx.prop, path))
    sys.stdout.flush()


TRUSTED_BASE = [
    "Coq 8.16.1 kernel (coqc; coqchk in the thorough tier); vm_compute used for witnesses and for evaluating the model on cases; native_compute not used",
    "no axioms declared in the development; Print Assumptions of every property theorem is parsed on every run",
    "hand-written Gallina model of the code named in the property's anchors (not a translation of the Go source)",
    "correspondence harness (Go, /verif/harness) driving the real rigo-go code, case-file emission, this python orchestration and its Coq-term reader; the comparator evaluated in Coq is proved sound (PredicatesSound.check_prop_sound) and is not part of the trusted base",
    "EVM executions enter the application model as observed effects; the contract the theorems assume of them is checked on every observed effect (EffectCheck.check_effects_sound)",
    "Go toolchain, go-ethereum, tendermint, iavl, goleveldb as libraries of the implementation",
]


def write_evidence(ctx, level, coverage, assumptions, violations=None):
    if getattr(ctx, "replay", None):
        return   # a replay run describes one history; the evidence file stays that of the last full run
    cov = dict(ctx.cov)
    cov.update(coverage)
    cov.setdefault("trusted_base", TRUSTED_BASE)
    ev = {
        "property_id": ctx.prop, "tier": ctx.tier, "seed": ctx.seed, "level": level,
        "coverage": cov, "assumptions": assumptions,
        "wall_s": round(time.time() - ctx.t0, 1),
        "violations": len(ctx.violations) if violations is None else violations,
        "known_findings": ctx.known, "notes": ctx.notes,
    }
    d = os.path.join(VERIF, "evidence")
    os.makedirs(d, exist_ok=True)
    with open(os.path.join(d, ctx.prop + ".json"), "w") as f:
        json.dump(ev, f, indent=1, default=str)


def finish(ctx):
    if any(not nf for _, nf in ctx.violations):
        # a failing input was exhibited: the divergences seen along the way are kept as files next to it
        # (their replay files name what else no longer checks) but are not separate violations
        for p in ctx.deferred:
            try:
                os.rename(p, p[:-5] + ".also-diverged.json")
            except OSError:
                pass
    else:
        for p in ctx.deferred:
            print("VIOLATION property=%s replay=%s no-failing-input-found" % (ctx.prop, p))
    sys.stdout.flush()
    sys.exit(1 if ctx.violations else 0)
