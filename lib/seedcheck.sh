#!/bin/bash
# usage: seedcheck.sh <seed-id> <worktree> "<pkgs to test>" "<demo go test args>" "<checks to run, space separated>"
# 1. confirms the change builds, passes the existing tests of the touched packages, and that the
#    demonstration fails with it and passes without it; 2. stores it under /verif/seeded/<id>;
# 3. runs the named checks against it in a lab copy of /repo and /verif (lib/seedeval.py).
set -u
ID=$1; WT=$2; PKGS=$3; DEMO=$4; CHECKS=$5
export GOFLAGS=-mod=mod GOPROXY=off GOSUMDB=off GOTOOLCHAIN=local
OUT=/verif/seeded/$ID; mkdir -p $OUT
cp $WT/_seed/patch.diff $OUT/patch.diff
cp $WT/_seed/meta.json $OUT/meta.agent.json 2>/dev/null
for f in $WT/_seed/*_test.go $WT/_seed/*.go; do [ -f "$f" ] && cp "$f" $OUT/; done
cd $WT
echo "== build with change"; go build ./... && echo BUILD-OK
echo "== existing tests with change (demo moved aside)"
DEMOF=$(find . -name 'zz_seed_demo*_test.go' -not -path './_seed/*' | head -1)
[ -n "$DEMOF" ] && mv $DEMOF /tmp/$ID.demo.go
go test -vet=off -count=1 $PKGS 2>&1 | tail -5
[ -n "$DEMOF" ] && mv /tmp/$ID.demo.go $DEMOF
echo "== demo with change (expected FAIL)"
go test -vet=off -count=1 $DEMO 2>&1 | tail -4
echo "== demo without change (expected ok)"
git apply -R _seed/patch.diff && go test -vet=off -count=1 $DEMO 2>&1 | tail -3; git apply _seed/patch.diff
echo "== /verif checks against the change (in a lab copy; /repo and /verif are not touched)"
[ -n "$CHECKS" ] && python3 /verif/lib/seedeval.py $ID --checks "$(echo $CHECKS | tr ' ' ',')" 2>&1 | cut -c1-260
