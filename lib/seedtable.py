#!/usr/bin/env python3
"""seedtable.py — writes seeded/<id>/meta.json from the agent's description (meta.agent.json), my
verification record (verified.json, written by hand/seedcheck) and the lab evaluation (caught.json);
regenerates the table between the SEEDTABLE markers of DESIGN.md."""
import json, os, re, glob

VERIF = os.path.dirname(os.path.dirname(os.path.abspath(__file__)))


def main():
    rows = []
    for d in sorted(glob.glob(os.path.join(VERIF, "seeded", "C*"))):
        sid = os.path.basename(d)
        ag = json.load(open(os.path.join(d, "meta.agent.json"))) if os.path.exists(os.path.join(d, "meta.agent.json")) else {}
        caught = json.load(open(os.path.join(d, "caught.json"))) if os.path.exists(os.path.join(d, "caught.json")) else {}
        with_input = sorted(c for c, r in caught.items() if any(v["with_failing_input"] for v in r["violations"]))
        nofail = sorted(c for c, r in caught.items() if r["violations"] and c not in with_input)
        silent = sorted(c for c, r in caught.items() if not r["violations"])
        demo = [f for f in os.listdir(d) if f.endswith("_test.go") or (f.endswith(".go") and "demo" in f)]
        meta = {
            "property": ag.get("property", sid[:3]),
            "seed": sid,
            "breaks": ag.get("summary", ""),
            "needs_to_manifest": ag.get("needs", ""),
            "files_changed": ag.get("files", []),
            "demonstration": {"file": demo[0] if demo else None, "how": ag.get("demo", "")},
            "what_i_ran": [
                "lib/seedcheck.sh in the agent's scratch worktree of /repo (outside /repo and /verif, removed afterwards): go build ./... with the change; the existing tests of the touched packages with the change (demonstration moved aside) pass; the demonstration FAILS with the change and PASSES after git apply -R",
                "lib/seedeval.py %s: /repo and /verif copied to a lab directory, patch applied to the copy, every registered quick check run there (results below); /repo itself was never modified" % sid,
                ag.get("existing_tests", ""),
            ],
            "checks_reporting_it_with_a_failing_input": with_input,
            "checks_reporting_it_as_broken_correspondence_only": nofail,
            "checks_silent": silent,
            "first_violation_lines": {c: caught[c]["violations"][0]["line"] for c in with_input + nofail},
        }
        json.dump(meta, open(os.path.join(d, "meta.json"), "w"), indent=1)
        own = meta["property"]
        rows.append((sid, own, ag.get("summary", "").split(". ")[0][:230], ", ".join(with_input) or "—", ", ".join(nofail) or "—",
                     "yes" if own in with_input else ("divergence only" if own in nofail else "no")))
    lines = ["| seed | property | change (first sentence of the author's description) | reported with a failing input by | reported as broken correspondence only (`no-failing-input-found`) | own property's check reports it |",
             "|----|----|----|----|----|----|"]
    for r in rows:
        lines.append("| %s | %s | %s | %s | %s | %s |" % tuple(x.replace("|", "/").replace("\n", " ") for x in r))
    table = "\n".join(lines)
    p = os.path.join(VERIF, "DESIGN.md")
    s = open(p).read()
    if "<!-- SEEDTABLE:BEGIN -->" in s:
        s = re.sub(r"<!-- SEEDTABLE:BEGIN -->.*?<!-- SEEDTABLE:END -->", "<!-- SEEDTABLE:BEGIN -->\n" + table + "\n<!-- SEEDTABLE:END -->", s, flags=re.S)
    else:
        s = s.replace("SEEDTABLE", "<!-- SEEDTABLE:BEGIN -->\n" + table + "\n<!-- SEEDTABLE:END -->", 1)
    open(p, "w").write(s)
    print(table)


if __name__ == "__main__":
    main()
