"""C07 — restart equivalence at block boundaries."""
import os
import vcheck as V
from props import common

THEOREMS = ["C07_holds", "C07_after_commit_invariant", "C07_equiv", "C07_without_rebuild_refuted"]
PROPS_V = "theories/Props/C07.v"


def run(ctx):
    res = common.app_check(ctx, "C07", PROPS_V if os.path.exists(os.path.join(V.COQ, PROPS_V)) else None, THEOREMS,
                           codes=[10, 11, 12], pred="(fun _ => true)",
                           extra_assume=["a restart = a new process opened on a copy of the data directory taken after Commit returned (RigoApp.Stop does not release every leveldb handle, so the same directory cannot be reopened in-process)",
                                         "what is persisted: all ledger versions, the block context, the EVM root record; what is rebuilt: governance parameters from the params ledger, the last validator set by RestoreValidators (fix 90bd59f), the stake limiter and the eligible list at the next BeginBlock"],
                           profile="corpus restart",
                           nontrivial_rule="every history is executed again on a real node that is stopped and reopened from disk after a random subset of commits, biased to blocks that changed the validator set or carried several transactions; Info after each restart must report the committed height and application hash, and all later answers, validator updates and application hashes must equal the continuous node's")
    if res is None:
        return
    st = ctx.app_stats
    for d in (st.get("RestartDiffs") or [])[:5]:
        V.violation(ctx, "restart-changes-block-execution", {"kind": "restarted-and-continuous-nodes-disagree", "theorem": "C07_holds", "what": d})
    common.patch_evidence(ctx, {"restarted_replicas": st.get("RestartRuns", 0), "restarts": st.get("Restarts", 0)}, distinct=st.get("Restarts", 0))
