"""C05 — a failed transaction has no effect (atomicity)."""
import vcheck as V
from props import common

THEOREMS = ["C05_holds_closed", "C05_holds_closed_end", "C05_holds_small_balance", "C05_holds", "C05_holds_minimal", "C05_panic", "C05_price_bound_needed", "C05_headroom_needed"]


def run(ctx):
    res = common.app_check(ctx, "C05", "theories/Props/C05.v", THEOREMS, codes=[1, 2, 3, 4, 5, 6, 7, 10, 11, 12], pred="(fun _ => true)",
                           extra_assume=["gas price below 2^192 and balance + withdrawable reward below 2^256 (C05_price_bound_needed / C05_headroom_needed show both are needed)",
                                         "an empty account created for the receiver of a failed transaction is treated as absent (no query distinguishes them; with gas price 0 a later transaction FROM that address could tell — see InvFail.failed_delivery_creates_receiver)"],
                           profile="corpus forkdelete",
                           nontrivial_rule="every history is also re-executed on a second real node WITHOUT its failed transactions (fork-and-delete): all remaining answers, validator updates and committed projections must be identical")
    if res is None:
        return
    st = ctx.app_stats
    for d in (st.get("ForkDiffs") or [])[:5]:
        V.violation(ctx, "failed-tx-leaves-effect", {"kind": "fork-and-delete-difference", "theorem": "C05_holds", "what": d,
                                                     "meaning": "the same history with the failed transactions removed gives a different observable result"})
    import json, os
    p = os.path.join(V.VERIF, "evidence", "C05.json")
    ev = json.load(open(p))
    ev["coverage"]["fork_and_delete_runs"] = st.get("ForkRuns", 0)
    ev["coverage"]["failed_transactions_deleted"] = st.get("ForkDeleted", 0)
    ev["violations"] = len(ctx.violations)
    json.dump(ev, open(p, "w"), indent=1, default=str)
