"""C17 — contract execution is standard EVM semantics over the native account ledger."""
import json, re, os
import vcheck as V
from props import common

THEOREMS = ["C17_wrapper_refines_reference", "C17_wrapper_refines_reference_tx", "C17_finish_syncs_out", "C17_finish_order_irrelevant",
            "C17_tx_success", "C17_top_level_revert_no_effect", "C17_wrapper_refuted_without_snapshot"]


def run(ctx):
    assume = [
        "PARTIAL: the interpreter is go-ethereum's and is trusted; what is proved is that the StateDBWrapper presents it a world whose balances and nonces are the native ledger's (EvmWrap.v: wrapper over a journaled state vs the reference world), for every sequence of interface calls that obeys the Berlin access-list discipline (listed per geth call site in EvmWrapProofs.v) with Snapshot before Prepare (the order ExecuteTrx uses; C17_wrapper_refuted_without_snapshot shows the other order loses updates)",
        "code, storage, logs and refunds live only in go-ethereum's state and are compared, not modelled: every generated contract transaction is also run on a reference EVM (go-ethereum ApplyMessage over a plain StateDB whose balances/nonces are set to the native ledger's before the transaction)",
        "a failed contract transaction is undone completely by the node (no fee, no nonce bump — property C05); the reference world is rolled back likewise, so 'same gas used' is compared for successful executions only",
        "vm_call's block-time lookup needs Tendermint's RPC layer; the read-only call is exercised through the accessor callVM",
    ]
    common.proofs(ctx, "theories/Props/C17.v", THEOREMS)
    binp, out = V.go_build(ctx)
    if binp is None:
        V.violation(ctx, "harness-build", {"kind": "harness-does-not-build", "detail": out[-3000:]}, nofail=True)
        V.write_evidence(ctx, "proof", {}, assume)
        return
    n = 300 if ctx.quick() else 6000
    shards = 2 if ctx.quick() else 12
    files, stats = [], []
    for s in range(shards):
        f = os.path.join(ctx.scratch, "cases_wrap_%d.v" % s)
        st = os.path.join(ctx.scratch, "wstats_%d.json" % s)
        rc, o = V.run_harness(ctx, binp, "evmwrap", ["-seed", ctx.seed * 1000 + s, "-n", n // shards, "-out", f, "-scratch", ctx.scratch, "-stats", st, "-json", f + ".json"])
        if rc != 0:
            V.violation(ctx, "harness-run", {"kind": "harness-failed", "detail": o[-3000:]}, nofail=True)
            V.write_evidence(ctx, "proof", {}, assume)
            return
        files.append(f)
        stats.append(json.load(open(st)))
    res = V.run_case_files(ctx, files)
    found = False
    for f, r in res.items():
        if r["rc"] != 0 or r.get("bad") is None:
            V.violation(ctx, "model-eval", {"kind": "model-evaluation-failed", "file": f, "detail": r["out"][-2000:]}, nofail=True)
            continue
        cases = json.load(open(f + ".json"))
        for (idx, model_ok, ref_ok) in r["bad"]:
            if not ref_ok:
                found = True
                V.violation(ctx, "wrapper-departs-from-reference-world", {"kind": "implementation-trace-differs-from-reference-world", "theorem": "C17_wrapper_refines_reference_tx", "case": cases[idx]})
            else:
                V.violation(ctx, "correspondence:wrapper-model", {"kind": "model-implementation-divergence", "correspondence": "EvmWrap.v vs StateDBWrapper", "case": cases[idx],
                                                                  "searched": "the real wrapper agrees with the reference world on this sequence"}, nofail=True)
    # whole transactions against the reference EVM
    est = os.path.join(ctx.scratch, "estats.json")
    rc, o = V.run_harness(ctx, binp, "evmtx", ["-seed", ctx.seed, "-n", 8 if ctx.quick() else 150, "-scratch", ctx.scratch, "-stats", est])
    es = json.load(open(est)) if rc == 0 else {"Mismatches": ["evm scenario harness failed: " + o[-500:]]}
    seen = set()
    for m in (es.get("Mismatches") or []):
        prog = m.split("(")[1].split(")")[0] if "(" in m else "?"
        what = m.split("): ")[1].split(" ")[0:3] if "): " in m else ["?"]
        # the key names the kind of program and of difference, not the address it showed on
        what = [w for w in what if not re.fullmatch(r"(0x)?[0-9a-fA-F]{6,}", w) and not re.fullmatch(r"[0-9,.:]+", w)]
        key = "reference-evm-differs:%s:%s" % (prog.split(" ")[0], "-".join(what))
        if key in seen:
            continue
        seen.add(key)
        found = True
        V.violation(ctx, key, {"kind": "node-and-reference-EVM-disagree", "what": m, "all": (es.get("Mismatches") or [])[:20]})
    common.proof_failure_verdict(ctx, found)
    agg = {}
    for s in stats:
        for k, v in s.items():
            if isinstance(v, int):
                agg[k] = agg.get(k, 0) + v
    V.write_evidence(ctx, "proof", {
        "traces_validated_against_impl": agg.get("Cases", 0) + es.get("Histories", 0),
        "evaluations": agg.get("Ops", 0) + es.get("ContractTxs", 0),
        "distinct_nontrivial": agg.get("DistinctNontrivial", 0),
        "rule": "wrapper level: disciplined interface-call sequences (snapshots nested, addresses touched only while on the access list, debits covered) on the real StateDBWrapper over a real go-ethereum StateDB with stale balances and a real account controller, compared with the wrapper model AND the reference world; non-trivial = nested revert, re-added address or top-level failure path. transaction level: generated bytecode (storage arithmetic, value forwarding, reverting callee, call-then-store, factory with CREATE, SELFDESTRUCT incl. to self, LOG, BALANCE) deployed and called through RigoApp, plain transfers to contracts (incl. contracts created by contracts), native transfers in between, low gas limits; each compared with a reference EVM: outcome, return data, gas, logs, balances, nonces, code, storage; a read-only call after every block must leave the EVM root and balances unchanged",
        "wrapper_cases": agg, "transaction_level": {k: v for k, v in es.items() if k != "Mismatches"},
        "samples": stats[0]["Samples"][:1], "exhaustive": False,
    }, assume)
