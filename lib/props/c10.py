"""C10 — validator-set updates sent to consensus mirror the staking ledger."""
import os
import vcheck as V
from props import common

THEOREMS = ["C10_holds_closed", "C10_holds_inputs", "C10_fold_closed", "C10_opts_ok_inputs", "C10_holds", "C10_block", "C10_selection", "C10_fold", "C10_selection_at_height", "C10_genesis_leaver_refuted"]
PROPS_V = "theories/Props/C10.v"


def run(ctx):
    res = common.app_check(ctx, "C10", PROPS_V if os.path.exists(os.path.join(V.COQ, PROPS_V)) else None, THEOREMS,
                           codes=[12, 2], pred="P_C10", known_classes=(3,),
                           extra_assume=["genesis validators satisfy the validator limits (count <= maxValidatorCnt, own stake >= minValidatorStake), as the property requires",
                                         "the node never diffs against the genesis set (its record of the last announced set is empty until the end of block 2): a genesis validator leaving in block 1 is never removed — known finding, C10_genesis_leaver_refuted",
                                         "restarts: covered by C07 (fix 90bd59f); the restart differential is run here too"],
                           profile="corpus restart noise judge",
                           nontrivial_rule="the predicate folds the returned updates over the genesis validator set (Tendermint's semantics: power 0 removes a member, which must exist; no duplicates; no negative power) and requires after every block >= 2 the set the previous block's committed ledger prescribes: eligible delegatees ranked by (total power, stake count, address), truncated to maxValidatorCnt, power = total power")
    if res is None:
        return
    st = ctx.app_stats
    for d in (st.get("RestartDiffs") or [])[:5]:
        if "validator updates" in d:
            V.violation(ctx, "restart-changes-block-execution", {"kind": "restarted-and-continuous-nodes-disagree", "what": d})
    common.patch_evidence(ctx, {"restarts": st.get("Restarts", 0)})
