"""C01 — replica determinism."""
import vcheck as V
from props import common

THEOREMS = ["C01_commit_order_irrelevant", "C01_selection_unique"]


def run(ctx):
    res = common.app_check(ctx, "C01", "theories/Props/C01.v", THEOREMS, codes=[10, 11, 12], pred="(fun _ => true)",
                           extra_assume=["the IAVL root hash is a function of the ordered sequence of tree operations (the hooks record that sequence; two replicas must perform identical sequences)",
                                         "Go's sort.Sort is a correct sort; its instability cannot matter because the orders are total (C01_selection_unique); proposals carry fewer than 12 options (below that Go's pdqsort is an insertion sort, the model's)",
                                         "go-ethereum state trie and StateDBWrapper.Finish write to distinct accounts (commuting writes; see C17)"],
                           profile="corpus replica noise restart",
                           nontrivial_rule="every history is executed on two real nodes (separate directories; Go randomises map iteration per loop) on a third one that also serves node-local mempool checks and queries, and on a fourth one that is restarted from its data directory at block boundaries: per-transaction answers, validator updates, application hashes, the tree operations of every ledger commit and the durable-write order must be identical, and every commit's tree operations must be 'removals, then sets in strictly descending key order'")
    if res is None:
        return
    st = ctx.app_stats
    for d in (st.get("ReplicaDiffs") or [])[:5]:
        V.violation(ctx, "replicas-differ", {"kind": "two-replicas-disagree", "what": d})
    # "nothing node-local influences these outputs": a third replica serves mempool checks and queries
    # (node-local traffic the others never see) while it executes the same blocks
    for d in (st.get("NoiseDiffs") or [])[:5]:
        V.violation(ctx, "replicas-differ-under-node-local-traffic", {"kind": "two-replicas-disagree", "what": d,
                    "meaning": "a replica that also served CheckTx and Query calls answered differently from one that did not"})
    # a different but still deterministic order would not break C01 by itself: unless the two replicas
    # also differ, this is the correspondence with Ledger.v's commit order, not a failing input
    for d in (st.get("TreeOpBad") or [])[:5]:
        V.violation(ctx, "correspondence:commit-tree-ops-not-in-model-order", {"kind": "model-implementation-divergence", "theorem": "C01_commit_order_irrelevant", "what": d,
                    "meaning": "the commit's tree operations are not 'removals, then sets in strictly descending key order', the order Ledger.v's commit has and the determinism argument relies on",
                    "searched": "two real replicas were run on every history of this check and compared: %d differences between them" % len(st.get("ReplicaDiffs") or [])},
                    nofail=not (st.get("ReplicaDiffs")))
    # ... nor the process: a fourth replica is stopped and reopened on its data directory at block boundaries
    for d in (st.get("RestartDiffs") or [])[:5]:
        V.violation(ctx, "replicas-differ-after-restart", {"kind": "two-replicas-disagree", "what": d,
                    "meaning": "a replica that was restarted from its data directory answered differently from one that kept running"})
    common.patch_evidence(ctx, {"noisy_replicas": st.get("NoiseRuns", 0), "restarted_replicas": st.get("RestartRuns", 0), "restarts": st.get("Restarts", 0)})
    common.patch_evidence(ctx, {"replica_pairs": st.get("ReplicaRuns", 0), "commits_writing_two_or_more_keys_to_one_ledger": st.get("MultiKeyCommits", 0),
                                "durable_write_order": st.get("WriteOrder")},
                          distinct=st.get("MultiKeyCommits", 0))
