"""C03 — only the key holder of the sender address can cause a transaction's effects."""
import json, os
import vcheck as V
from props import common

THEOREMS = ["C03_rlp_injective", "C03_trx_injective", "C03_preimage_injective",
            "C03_preimage_injective_printable", "C03_chainid_hypothesis_needed", "C03_holds"]

ASSUME = [
    "ECDSA/secp256k1 recovery and SHA-256 are idealised as hypotheses of C03_holds (a signature verifies only for the digest it was made for and recovers the signer's address; no hash collisions); they are not proved",
    "chain ids do not contain the text ') Signed Message:\\n' (true of every chain id without a newline; Tendermint limits chain ids to 50 bytes); C03_chainid_hypothesis_needed shows some such hypothesis is necessary",
    "transactions are as the wire decoders build them: the payload object's kind is determined by the Type field (payload_kind_ok)",
    "that a transaction failing verification leaves no effect is property C05; that verification runs on the DeliverTx path is tied by the application-level correspondence (C05/C04 checks deliver tampered transactions)",
]


def run(ctx):
    common.proofs(ctx, "theories/Props/C03.v", THEOREMS)
    # application level: transactions with altered fields, foreign or re-used signatures, other chain ids
    # are DELIVERED to the real node; only correctly signed ones may succeed (P_C03), and the model must agree
    res = common.app_check(ctx, "C03", None, THEOREMS, codes=[11], pred="P_C03", extra_assume=ASSUME, profile="corpus forkdelete",
                           nontrivial_rule="the invalid stream of the history generator signs transactions and then alters one field, flips a signature byte, signs with another account's key, signs for another chain id, or attaches a signature that verified earlier for another transaction of the same sender (see distribution: tamper-*, signed-by-other, wrong-chain, reused-signature)")
    if res is None:
        return
    # "fails WITHOUT effect": the history re-executed without its failed transactions (the forged ones
    # among them) must answer identically
    for d in (ctx.app_stats.get("ForkDiffs") or [])[:3]:
        V.violation(ctx, "forged-tx-leaves-effect", {"kind": "fork-and-delete-difference", "theorem": "C03_holds / C05_holds", "what": d,
                                                     "meaning": "the same history with the failed (forged, tampered) transactions removed gives a different observable result"})
    app_cov = json.load(open(os.path.join(V.VERIF, "evidence", "C03.json")))["coverage"]
    binp, out = V.go_build(ctx)
    if binp is None:
        V.violation(ctx, "harness-build", {"kind": "harness-does-not-build", "detail": out[-3000:]}, nofail=True)
        V.write_evidence(ctx, "proof", {}, ASSUME)
        return
    n = 240 if ctx.quick() else 4800
    shards = 2 if ctx.quick() else 16
    files, stats = [], []
    for s in range(shards):
        f = os.path.join(ctx.scratch, "cases_pre_%d.v" % s)
        st = os.path.join(ctx.scratch, "pstats_%d.json" % s)
        rc, o = V.run_harness(ctx, binp, "preimage", ["-seed", ctx.seed * 1000 + s, "-n", n // shards, "-out", f, "-stats", st])
        if rc != 0:
            V.violation(ctx, "harness-run", {"kind": "harness-failed", "detail": o[-3000:]}, nofail=True)
            V.write_evidence(ctx, "proof", {}, ASSUME)
            return
        files.append(f)
        stats.append(json.load(open(st)))
    found_input = False
    # the property evaluated directly on the implementation: every alteration must be rejected
    muts, signed, bymut = 0, 0, {}
    for s in stats:
        p = s["probe"]
        muts += p["Mutations"]
        signed += p["Signed"]
        for k, v in p["ByMutation"].items():
            bymut[k] = bymut.get(k, 0) + v
        for a in (p.get("Accepted") or [])[:3]:
            found_input = True
            V.violation(ctx, "altered-tx-verifies", {"kind": "implementation-accepts-altered-transaction", "theorem": "C03_holds", "what": a})
        for a in (p.get("Collisions") or [])[:3]:
            found_input = True
            V.violation(ctx, "preimage-collision", {"kind": "alteration-leaves-preimage-unchanged", "theorem": "C03_preimage_injective", "what": a})
        for a in (p.get("HonestRejected") or [])[:3]:
            V.violation(ctx, "honest-tx-rejected", {"kind": "honestly-signed-transaction-does-not-verify", "what": a}, nofail=True)
    res = V.run_case_files(ctx, files)
    nvec = 0
    for f, r in res.items():
        if r["rc"] != 0 or r.get("bad") is None:
            V.violation(ctx, "model-eval", {"kind": "model-evaluation-failed", "file": f, "detail": r["out"][-2000:]}, nofail=True)
            continue
        if r["bad"] and not found_input:
            lines = open(f).read().split("\n")
            idx = r["bad"][0]
            vec = [l for l in lines if l.strip().startswith("(* %d *)" % idx)]
            V.violation(ctx, "correspondence:preimage", {"kind": "model-implementation-divergence",
                        "correspondence": "Preimage.v preimage vs ctrlertypes.PreImageToSignTrxRLP (byte for byte)",
                        "vector_indices": r["bad"][:20], "first_vector": (vec[0][:2000] if vec else None),
                        "searched": "%d single-field alterations of %d signed transactions were all rejected by VerifyTrxRLP and all changed the preimage" % (muts, signed)},
                        nofail=True)
    for s in stats:
        nvec += s["vectors"]["vectors"]
    common.proof_failure_verdict(ctx, found_input)
    classes = {}
    for s in stats:
        for k, v in s["vectors"].items():
            classes[k] = classes.get(k, 0) + v
    V.write_evidence(ctx, "proof", {
        "application_level": {k: app_cov.get(k) for k in ("traces_validated_against_impl", "blocks", "transactions", "succeeded", "failed", "distribution")},
        "traces_validated_against_impl": nvec + (app_cov.get("traces_validated_against_impl") or 0),
        "evaluations": nvec + muts + (app_cov.get("evaluations") or 0),
        "distinct_nontrivial": len([k for k in classes if classes[k] > 0 and ":" in k]),
        "rule": "test vectors: decoded transactions of all 8 types with boundary integers, odd-length addresses, long payloads, assorted chain ids; expected bytes from the real PreImageToSignTrxRLP, compared byte for byte with Preimage.v (vm_compute). probe: honestly signed transactions, each altered in one field / signature byte / sender / chain id and passed to the real VerifyTrxRLP. distinct_nontrivial counts the distinct boundary classes hit by the vectors",
        "vector_classes": classes, "alterations_tried": muts, "alterations_by_kind": bymut, "signed_transactions": signed,
        "samples": [open(files[0]).read().split("\n")[8][:600]],
        "exhaustive": False,
    }, ASSUME)
