"""C04 — per-account nonces give exactly-once, in-order execution."""
from props import common

THEOREMS = ["C04_checked", "C04_checked_case", "C04_checked_run_ok'", "C04_checked_hist_ok_refuted", "C04_holds", "C04_holds_native", "C04_step", "C04_step_evm", "C04_fail", "C04_begin", "C04_end", "C04_commit"]


def run(ctx):
    common.app_check(ctx, "C04", "theories/Props/C04.v", THEOREMS, codes=[11, 1], pred="P_C04", effect_codes=(22, 23), profile="corpus noise judge",
                     extra_assume=["nonces stay below 2^64-1 (hypothesis of C04_holds; Example nonce_wraps shows the wrap otherwise)",
                                   "on the EVM path the nonce step is the observed effect's (go-ethereum bumps the sender's nonce); stated as hypothesis evm_effect_nonce_ok"],
                     nontrivial_rule="non-trivial = history with validator updates; replays, duplicated and out-of-order nonces are part of the invalid stream (see distribution: replay, bad-nonce-high, bad-nonce-low)")
