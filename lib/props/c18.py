"""C18 — versioned ledger store behaves as an overlayed map with immutable history."""
import json, os
import vcheck as V
from props import common

THEOREMS = ["C18_ledger_refines", "C18_step_sim", "C18_ledger_buggy_refuted", "C18_mempool_invisible",
            "C18_mempool_discarded_by_commit", "C18_commit_net_effect", "C18_commit_persists_consensus_view",
            "C18_history_immutable", "C18_history_immutable_trace", "C18_commit_treeops_order_irrelevant",
            "C18_commit_output_order_irrelevant"]
ASSUME = [
    "IAVL (cosmos/iavl v0.19.1) and goleveldb are modelled as a map per saved version: versions are immutable, LazyLoadVersion(n<=0) loads the latest; this is checked on every generated historical read and reopen, not proved",
    "item encoding/decoding round-trips (the harness uses a fixed 40-byte item)",
    "mutation of cached objects through aliased pointers is outside the C18 statement (xop layer of Ledger.v)",
]


def run(ctx):
    common.proofs(ctx, "theories/Props/C18.v", THEOREMS)
    binp, out = V.go_build(ctx)
    if binp is None:
        V.violation(ctx, "harness-build", {"kind": "harness-does-not-build", "detail": out[-3000:]}, nofail=True)
        V.write_evidence(ctx, "proof", {}, ASSUME)
        return
    n = 300 if ctx.quick() else 6000
    shards = 2 if ctx.quick() else 12
    files, stats = [], []
    for s in range(shards):
        f = os.path.join(ctx.scratch, "cases_ledger_%d.v" % s)
        st = os.path.join(ctx.scratch, "lstats_%d.json" % s)
        rc, o = V.run_harness(ctx, binp, "ledger", ["-seed", ctx.seed * 1000 + s, "-n", n // shards, "-out", f,
                                                   "-scratch", ctx.scratch, "-stats", st, "-json", f + ".json"])
        if rc != 0:
            V.violation(ctx, "harness-run", {"kind": "harness-failed", "detail": o[-3000:]}, nofail=True)
            V.write_evidence(ctx, "proof", {}, ASSUME)
            return
        files.append(f)
        stats.append(json.load(open(st)))
    res = V.run_case_files(ctx, files)
    found_input = False
    rootdiffs = 0
    diverging = []
    for f, r in res.items():
        cases = json.load(open(f + ".json"))
        for ci, c in enumerate(cases):
            if c["RootDiff"] >= 0:
                rootdiffs += 1
        if r["rc"] != 0 or r.get("bad") is None:
            V.violation(ctx, "model-eval", {"kind": "model-evaluation-failed", "file": f, "detail": r["out"][-2000:]}, nofail=True)
            continue
        for (idx, dspec, dmodel) in r["bad"]:
            case = cases[idx]
            if dspec is not None:
                found_input = True
                at = dspec[1]
                V.violation(ctx, "ledger-departs-from-overlay-map-spec",
                            {"kind": "implementation-trace-differs-from-LedgerSpec", "theorem": "C18_ledger_refines",
                             "first_difference_at_op": at, "op": case["Ops"][at] if at < len(case["Ops"]) else None,
                             "implementation_output": case["Outs"][at] if at < len(case["Outs"]) else None, "case": case})
            else:
                diverging.append((dmodel[1], case))
    if diverging and not found_input:
        at, case = diverging[0]
        V.violation(ctx, "correspondence:ledger-model",
                    {"kind": "model-implementation-divergence", "correspondence": "Ledger.v (incl. tree-operation order of Commit) vs ledger.FinalityLedger",
                     "first_difference_at_op": at, "case": case, "cases_diverging": len(diverging),
                     "searched": "every implementation trace of this run equals the abstract store's trace (LedgerSpec): no failing input"}, nofail=True)
    common.proof_failure_verdict(ctx, found_input)
    agg = {}
    for s in stats:
        for k, v in s.items():
            if isinstance(v, int):
                agg[k] = agg.get(k, 0) + v
            elif isinstance(v, dict):
                d = agg.setdefault(k, {})
                for kk, vv in v.items():
                    d[kk] = d.get(kk, 0) + vv
    if rootdiffs:
        ctx.notes.append("%d cases: root hashes of two instances fed the same operations differ" % rootdiffs)
    V.write_evidence(ctx, "proof", {
        "traces_validated_against_impl": agg.get("Cases", 0),
        "evaluations": agg.get("Ops", 0),
        "distinct_nontrivial": agg.get("DistinctNontrivial", 0),
        "rule": "operation sequences of 15-59 ops over 1-5 keys on both overlays with commits, historical reads (incl. versions <= 0 and beyond the latest) and close+reopen, each run on two real FinalityLedger instances; distinct = distinct (ops,outs) texts; non-trivial = a key deleted and re-created inside one commit interval, or a read of a version older than the latest",
        "distribution": agg, "samples": stats[0]["Samples"][:2], "root_hash_pairs_compared": agg.get("RootAgree", 0) + rootdiffs,
        "exhaustive": False,
    }, ASSUME)
