"""C09 — no externally supplied input can crash the node."""
import json, os
import vcheck as V
from props import common

THEOREMS = ["C09_holds", "C09_deliver_never_panics", "C09_begin_never_panics", "C09_end_never_panics", "C09_supply_bound_needed", "C09_holds_closed", "C09_holds_inputs", "C09_run_facts_reachable"]
PROPS_V = "theories/Props/C09.v"


def run(ctx):
    assume = common.APP_ASSUME + [
        "PARTIAL by nature: protobuf / RLP / JSON decoders, go-ethereum and IAVL are not modelled; the theorem covers the application logic after decoding (every explicit panic, unchecked assertion, slice expression and division reachable from a decoded transaction is a Panic result of Spec.v), the byte level is covered only by the adversarial stream",
        "the vm_call handler past its length check needs Tendermint's RPC layer (block time); its body is driven through the verif accessor callVM",
        "state_ok: the invariants the theorem assumes of the state (well-formed governance parameters, stake bookkeeping, supply bound); see Props/C09.v",
    ]
    if os.path.exists(os.path.join(V.COQ, PROPS_V)):
        common.proofs(ctx, PROPS_V, THEOREMS)
    else:
        ctx.proof_ok, ctx.proof_info = True, {}
    # application level: the histories of the main generator (valid and invalid transactions of every
    # type sent by accounts that ARE voters, validators, stake owners ... at the right moments) must
    # contain no panicking call, and the model (whose Panic results are the code's panic sites) agrees
    res = common.app_check(ctx, "C09", None, THEOREMS, codes=[10, 11, 12], pred="P_C09", extra_assume=assume,
                           nontrivial_rule="P_C09: no BeginBlock / DeliverTx / EndBlock of the history panicked (a Go panic of an ABCI call is captured by the harness and recorded as a Panic answer)")
    if res is None:
        return
    app_cov = json.load(open(os.path.join(V.VERIF, "evidence", "C09.json")))["coverage"]
    binp, out = V.go_build(ctx)
    if binp is None:
        V.violation(ctx, "harness-build", {"kind": "harness-does-not-build", "detail": out[-3000:]}, nofail=True)
        V.write_evidence(ctx, "proof", {}, assume)
        return
    st = os.path.join(ctx.scratch, "hstats.json")
    n, rounds = (4, 2) if ctx.quick() else (60, 3)
    rc, o = V.run_harness(ctx, binp, "hostile", ["-seed", ctx.seed, "-n", n, "-blocks", rounds, "-scratch", ctx.scratch, "-stats", st])
    if rc != 0:
        V.violation(ctx, "harness-run", {"kind": "harness-failed", "detail": o[-3000:]}, nofail=True)
        V.write_evidence(ctx, "proof", {}, assume)
        return
    hs = json.load(open(st))
    found = False
    for p in (hs.get("Panics") or []):
        found = True
        kind = p.split(" via ")[0]
        where = p.split(" via ")[1].split(":")[0] if " via " in p else "?"
        V.violation(ctx, "panic:%s:%s" % (where, kind.split(" ")[0]), {"kind": "panic-on-external-input", "what": p, "seed": ctx.seed})
    for u in (hs.get("Unusable") or []):
        found = True
        V.violation(ctx, "unusable-after-hostile-input", {"kind": "node-unusable", "what": u})
    gp = os.path.join(ctx.scratch, "gov.json")
    rc, o = V.run_harness(ctx, binp, "govpanic", ["-scratch", ctx.scratch, "-stats", gp])
    gov = json.load(open(gp)) if rc == 0 else {}
    for name, err in gov.items():
        if not name.endswith(":trace") and err:
            found = True
            V.violation(ctx, "panic:EndBlock:governance-option:" + name, {"kind": "panic-after-governance-option-won", "scenario": name, "what": err, "trace": gov.get(name + ":trace")})
    common.proof_failure_verdict(ctx, found)
    kinds = hs.get("ByKind") or {}
    V.write_evidence(ctx, "proof", {
        "evaluations": hs.get("Inputs", 0),
        "distinct_nontrivial": hs.get("ReachedController", 0),
        "traces_validated_against_impl": n,
        "rule": "adversarial stream against a live real node (after 6 warm-up blocks): random bytes, truncated / bit-flipped / garbage-extended encodings of valid transactions, wrong payload for the type, and SIGNED envelopes with hostile fields (address lengths 0..64, amounts up to 2^256-1, gas 0..2^64-1, unknown types, hash lengths, int64/int32 extremes in proposals and votes, option documents that parse but are poisonous, huge strings, unknown sender) to DeliverTx (inside blocks) and CheckTx; every query path with data of 0..200 bytes at heights -1, 0, 1, latest, beyond, MaxInt64, MinInt64; after each round a well-formed follow-up transaction and a normal block. non-trivial = inputs that got past decoding and the signature check into a controller. Plus scripted scenarios in which a poisonous governance option is submitted by a validator holding all voting power, voted and applied",
        "by_kind": kinds, "deliver_inputs": hs.get("DeliverInputs"), "check_inputs": hs.get("CheckInputs"), "query_inputs": hs.get("QueryInputs"),
        "follow_ups_ok": "%s/%s" % (hs.get("FollowUpOK"), hs.get("FollowUps")),
        "governance_scenarios": {k: (v or "no panic") for k, v in gov.items() if not k.endswith(":trace")},
        "samples": [k for k in list(kinds)[:12]], "exhaustive": False,
        "application_level": {k: app_cov.get(k) for k in ("traces_validated_against_impl", "blocks", "transactions", "succeeded", "failed", "distribution", "corpus")},
    }, assume)
