"""C14 — slashing and downtime jailing hit exactly the offending validator, exactly once."""
from props import common

THEOREMS = ["C14_holds", "C14_slash", "C14_stake_frame", "C14_voter", "C14_gov_frame", "C14_jail", "C14_marks_increasing", "C14_dup_hash_refuted",
            "C14_run_slash_exact", "C14_run_slash_once", "C14_run_others_untouched", "C14_run_jail_iff", "C14_run_voters", "C14_run_voter_once", "C14_jailed_same_block_set_refuted",
            "C14_marks_window_agree", "C14_jail_iff_headers", "C14_window_growth_refuted"]


def run(ctx):
    common.app_check(ctx, "C14", "theories/Props/C14.v", THEOREMS, codes=[2, 3, 5], pred="P_C14",
                     extra_assume=["stake hashes within one delegatee are pairwise distinct (tx hashes are unique; C14_dup_hash_refuted shows what goes wrong otherwise), powers in [0, 2^63), slash ratio in [0,100]",
                                   "the freezing decision of a proposal reads the previously committed version, so evidence in the very block that freezes it does not count (InvGov note)",
                                   "the trace predicate P_C14 judges the stake formula on delegatees that no successful (un)staking transaction of the same block touches and that did not miss a vote in that block; the theorems cover all cases"],
                     nontrivial_rule="non-trivial = history with validator updates; evidence against known and unknown validators, repeated evidence and a validator that misses most blocks (every third seed) are generated: see ev:slash, ev:slash-gov, ev:freeze-block")
