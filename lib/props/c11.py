"""C11 — stake bookkeeping: a validator's power is the sum of the stakes bonded to it."""
import os
import vcheck as V
from props import common

THEOREMS = ["C11_hashes_unique_inputs", "C11_never_lost_inputs", "C11_identity_preserved_inputs", "C11_holds", "C11_total_power_query", "C11_hashes_unique", "C11_never_lost", "C11_identity_preserved", "C11_collision_refuted"]
PROPS_V = "theories/Props/C11.v"


def run(ctx):
    common.app_check(ctx, "C11", PROPS_V if os.path.exists(os.path.join(V.COQ, PROPS_V)) else None, THEOREMS,
                     codes=[2, 3, 7], pred="P_C11_full", profile="corpus noise restart judge", known_classes=(1,),
                     extra_assume=["unique placement needs unique stake hashes: transaction hashes are unique, but every genesis stake carries hash 0 — two of them unbonding at once collide (known finding, C11_collision_refuted)"],
                     nontrivial_rule="every history is executed again on a node under mempool traffic and the predicate is judged on what THAT node answered as well; the predicate checks after every block: totals = sums, self power = sum of own stakes, every stake recorded once (by hash and owner), and continuity: every stake of the previous block is still recorded with the same owner/target/start, or was refunded when matured, or belonged to a delegatee named in the block's evidence")
