"""C12 — unbonding: owner-only, full waiting period, refunded exactly once."""
import os
import vcheck as V
from props import common

THEOREMS = ["C12_history", "C12_payout_at_most_once", "C12_payout_at_most_once_gen", "C12_payout_never_early_and_in_full", "C12_payout_only_to_owner", "C12_payout_link", "C12_payout_link_balance", "C12_payout_two_validators_refuted", "C12_release_only_by_owner", "C12_refund_height", "C12_frozen_untouched", "C12_unfreeze", "C12_only_to_owner", "C12_once"]
PROPS_V = "theories/Props/C12.v"


def run(ctx):
    common.app_check(ctx, "C12", PROPS_V if os.path.exists(os.path.join(V.COQ, PROPS_V)) else None, THEOREMS,
                     codes=[1, 2, 3, 11], pred="P_C12_power", profile="corpus noise restart judge", known_classes=(1, 3),
                     extra_assume=["'exactly once' needs unique stake hashes (see C11; the genesis-hash collision is the known finding: the overwritten stake is never refunded)",
                                   "the refund scan reads the previously committed unbonding set, so a stake is paid at the first EndBlock with height >= refund height at which it is committed"],
                     nontrivial_rule="every history is executed again on a node under mempool traffic and on a node restarted at block boundaries and the predicate is judged on what THAT node answered as well; the predicate checks: a stake leaves the bonded set only through a successful unstaking transaction of its owner naming it, through its delegatee losing all own stake, or through slashing; it is then recorded as unbonding with refund height = block height + period in force; matured stakes are gone and the owner's balance follows the exact balance equation (refund = power*10^18 once)")
