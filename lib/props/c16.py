"""C16 — fee and gas rules: exact charge, proposer credited, price fixed by governance."""
import os
import vcheck as V
from props import common

THEOREMS = ["C16_evm_cost_checked", "C16_admission", "C16_native_cost", "C16_fee_sum", "C16_evm_cost", "C16_block_fee_sum", "C16_proposer_credit",
            "C16_run_price_in_force", "C16_run_price_hand_over", "C16_run_admission_exact", "C16_run_block_fee_sum_mod", "C16_run_sender_charge", "C16_run_failed_no_charge",
            "C16_run_block_credit", "C16_run_total_fees", "C16_run_account_ledger", "C16_run_evm_charge_checked", "C16_total_fees_needs_bracketed"]
PROPS_V = "theories/Props/C16.v"


def run(ctx):
    common.app_check(ctx, "C16", PROPS_V if os.path.exists(os.path.join(V.COQ, PROPS_V)) else None, THEOREMS,
                     codes=[11, 1], pred="P_C16", effect_codes=(21, 24), profile="corpus noise judge",
                     extra_assume=["gas price < 2^192 and gas < 2^63 so that gas*price does not wrap",
                                   "contract transactions: gas used is go-ethereum's; the equation 'sender pays exactly gasUsed*price' is checked by the C17 reference-EVM differential"],
                     nontrivial_rule="per block and per watched account the predicate recomputes the balance from the trace: own fees (gas*price of successful transactions), transfers in and out, staking debits, withdrawals, refunds of matured stakes, and the block's fee sum for the proposer; gas price and minimum gas change through governance in the generated histories")
