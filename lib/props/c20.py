"""C20 — the validator signing key never double-signs, across restarts."""
import json, os
import vcheck as V
from props import common

THEOREMS = ["C20_holds", "C20_resign", "C20_durable", "C20_replay"]


def run(ctx):
    common.proofs(ctx, "theories/Props/C20.v", THEOREMS)
    binp, out = V.go_build(ctx)
    if binp is None:
        V.violation(ctx, "harness-build", {"kind": "harness-does-not-build", "detail": out[-3000:]}, nofail=True)
        V.write_evidence(ctx, "proof", {}, ASSUME)
        return
    n = 150 if ctx.quick() else 4000
    shards = 1 if ctx.quick() else 8
    files, stats = [], []
    for s in range(shards):
        f = os.path.join(ctx.scratch, "cases_signer_%d.v" % s)
        st = os.path.join(ctx.scratch, "stats_%d.json" % s)
        rc, o = V.run_harness(ctx, binp, "signer", ["-seed", ctx.seed * 1000 + s, "-n", n // shards, "-out", f,
                                                   "-scratch", ctx.scratch, "-stats", st, "-json", f + ".json"])
        if rc != 0:
            V.violation(ctx, "harness-run", {"kind": "harness-failed", "detail": o[-3000:]}, nofail=True)
            V.write_evidence(ctx, "proof", {}, ASSUME)
            return
        files.append(f)
        stats.append(json.load(open(st)))
    res = V.run_case_files(ctx, files)
    found_input = False
    cases = sum(s["Cases"] for s in stats)
    class_notes = 0
    for f, r in res.items():
        caseobjs = json.load(open(f + ".json"))
        if r["rc"] != 0 or r.get("bad") is None:
            V.violation(ctx, "model-eval", {"kind": "model-evaluation-failed", "file": f, "detail": r["out"][-2000:]}, nofail=True)
            continue
        for (idx, dproj, dstrict, pred) in r["bad"]:
            case = caseobjs[idx]
            if pred is False:
                found_input = True
                V.violation(ctx, "trace-falsifies-P_C20", {"kind": "implementation-trace-falsifies-P_C20",
                            "clauses": "no two different messages signed at one height/round/step; height/round/step of released signatures never decreases; a repeated request (any timestamp) is answered with the original signature",
                            "theorem": "C20_holds / C20_resign", "case": case})
            elif dproj is not None:
                V.violation(ctx, "correspondence:signer", {"kind": "model-implementation-divergence",
                            "first_difference_at_op": dproj[1] if isinstance(dproj, tuple) else dproj,
                            "correspondence": "Signer.v souts vs SFilePV", "case": case,
                            "searched": "P_C20 evaluated on every implementation trace of this run: no falsifying trace"},
                            nofail=True)
            else:
                class_notes += 1
    if class_notes:
        ctx.notes.append("%d cases differ from the model only in the class of a refusal (not part of the property)" % class_notes)
    common.proof_failure_verdict(ctx, found_input)
    agg = {}
    for s in stats:
        for k, v in s.items():
            if isinstance(v, int):
                agg[k] = agg.get(k, 0) + v
    V.write_evidence(ctx, "proof", {
        "traces_validated_against_impl": cases,
        "evaluations": cases,
        "distinct_nontrivial": agg.get("DistinctNontrivial", 0),
        "rule": "request sequences of 12-41 operations drawn from one PRNG (advance / identical repeat / timestamp-only repeat / conflicting content / height-round-step regression / answer lost after save / state file not writable during a request, then restart and a conflicting request / reload); distinct = distinct (ops,outs) texts; non-trivial = contains at least one same-HRS re-request and one regression",
        "distribution": agg,
        "samples": stats[0]["Samples"][:2],
        "exhaustive": False,
    }, ASSUME)


ASSUME = [
    "secp256k1 signing is a deterministic function of the sign bytes; unforgeability is not modelled",
    "tempfile.WriteFileAtomic is atomic (OS); power-loss durability is outside the model",
    "sign bytes are an injective function of (type, height, round, block id, timestamp) for one chain id (tendermint canonical encoding)",
]
