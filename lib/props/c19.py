"""C19 — queries return the state committed at the requested height, read-only."""
import vcheck as V
from props import common

THEOREMS = ["C19_holds", "C19_pure", "C19_beyond_latest"]


def run(ctx):
    res = common.app_check(ctx, "C19", "theories/Props/C19.v", THEOREMS, codes=[1, 2, 3, 4, 5, 6, 7], pred="(fun _ => true)",
                           extra_assume=["the projected state compared with the model after every commit IS a set of historical queries: it is read at the end of the run with Height = h for every h, so 'the answer for height h is the state committed by block h' is part of the correspondence",
                                         "answers are compared as JSON values: the query encoder writes a proposal's voter map in Go's iteration order, so the bytes of two answers may differ in member order",
                                         "stakes/voting_power reads current parameters and vm_call needs a Tendermint RPC environment: both outside the property's list"],
                           profile="corpus queries noise",
                           nontrivial_rule="every history is executed again on a real node that is asked all query paths for sampled (key, height) pairs between blocks, in the middle of blocks, after later blocks and after a restart; the first answer for a (path, key, height) is remembered and every later answer must equal it; a third node runs the history under mempool traffic (CheckTx of delivered, altered and freshly signed never-delivered transactions) and every query it answers for a committed height must equal the quiet node's answer; height 0 must equal the latest committed height; heights above it must be refused")
    if res is None:
        return
    st = ctx.app_stats
    for d in (st.get("QueryBad") or [])[:5]:
        V.violation(ctx, "query-answer-changed", {"kind": "query-answer-not-stable", "theorem": "C19_holds", "what": d})
    for d in (st.get("QueryInconsistent") or [])[:5]:
        V.violation(ctx, "query-answers-contradict", {"kind": "two-query-paths-disagree-about-one-committed-height", "theorem": "C19_holds", "what": d,
                                                      "all": (st.get("QueryInconsistent") or [])[:20]})
    for d in (st.get("NoiseQueryDiffs") or [])[:5]:
        V.violation(ctx, "query-answer-depends-on-mempool", {"kind": "query-answer-differs-from-committed-state-under-mempool-traffic", "theorem": "C19_holds", "what": d})
    common.patch_evidence(ctx, {"noisy_runs": st.get("NoiseRuns", 0), "queries_compared_under_mempool_traffic": st.get("NoiseQueriesCompared", 0),
                                "mempool_checks_passed_never_delivered": st.get("NoiseFreshPassed", 0)})
    common.patch_evidence(ctx, {"query_runs": st.get("QueryRuns", 0), "queries_asked": st.get("QueryAsked", 0), "repeated_questions": st.get("QueryRepeated", 0),
                                "asked_mid_block": st.get("QueryMidBlock", 0), "height_0": st.get("QueryHeight0", 0), "beyond_latest": st.get("QueryBeyond", 0)},
                          distinct=st.get("QueryRepeated", 0))
