"""C08 — crash recovery."""
import json, os, re
import vcheck as V
from props import common

THEOREMS = ["C08_holds", "C08_start_undoes_partial_commit", "C08_start_keeps_full_commit", "C08_reported_height", "C08_replay_succeeds", "C08_history",
            "C08_without_rollback_refuted"]
# durable-write events (verif hook) -> number of version-bearing writes completed (Crash.write_order)
EVENT_K = {"mid-block": 0, "before-commit": 0, "after:gov_params": 1, "after:proposal": 2, "after:frozen_proposal": 3, "after:accounts": 4,
           "after:delegatees": 5, "after:frozen": 6, "after:rewards": 7, "after:meta:rh": 7, "after:evm:trie": 7, "after:evm:root": 8,
           "after:meta:bc": 9, "after:meta:bh": 9}



def site_of(outcome, detail):
    if outcome == "ok":
        return 0
    if "GovCtrler.Commit" in detail:
        return 2
    if "StakeCtrler.Commit" in detail:
        return 3
    if "Not same versions" in detail:
        return 4
    if outcome.startswith("panic@BeginBlock") and "wrong block height" in detail:
        return 1
    return 99


def run(ctx):
    res = common.app_check(ctx, "C08", "theories/Props/C08.v", THEOREMS, codes=[10, 11, 12], pred="(fun _ => true)",
                           extra_assume=["'the process dies' = the data directory as it is right after a durable write returned (copied from inside the verif hook); power loss (unsynced leveldb writes) is outside the model",
                                         "recovery is Tendermint's handshake as the harness plays it: Info, then replay of the blocks above the reported height, then one more block",
                                         "Crash.v models a store as the list of contents it saved and a block as a function from the previous contents of all stores to the new ones; that the real stores open at the modelled versions and that the replayed blocks answer and hash as on the uncrashed node is what the experiment checks on every run"],
                           profile="crash", histories=(3 if ctx.quick() else 30), blocks=(14 if ctx.quick() else 24),
                           nontrivial_rule="for chosen blocks (among them block 1, where nothing is committed yet and consensus initialises the chain again, and block 10, where the reward-hash record is written) the data directory is snapshotted mid-block, before Commit and after every durable write of Commit; a real node is started on each snapshot, the interrupted block is replayed and one more block is run; outcomes are compared with Crash.v's prediction")
    if res is None:
        return
    st = ctx.app_stats
    obs = []
    found = False
    for line in st.get("CrashOutcomes") or []:
        m = re.match(r"history (\d+) block (\d+) (\S+) => (\S+) ?(.*)", line)
        if not m:
            continue
        point, outcome, detail = m.group(3), m.group(4), m.group(5)
        k = EVENT_K.get(point.split("+")[-1] if point.startswith("double:") else point)   # a second crash during the replay: judged by its last write
        if k is None:
            V.violation(ctx, "unknown-durable-write:" + point, {"kind": "durable-write-not-in-the-model", "what": line}, nofail=True)
            continue
        obs.append((k, site_of(outcome, detail), line))
        if outcome != "ok":
            found = True
            V.violation(ctx, "crash-" + point, {"kind": "crash-point-does-not-recover", "theorem": "C08_holds / C08_history", "what": line,
                                                "replay": "start a node on the data directory as it is right after this durable write of the named block (vh app -profile crash reproduces it)"})
    f = os.path.join(ctx.scratch, "cases_crash.v")
    with open(f, "w") as fh:
        fh.write("From Rigo Require Import Base Crash.\nFrom stdpp Require Import list.\nLocal Open Scope Z_scope.\n")
        fh.write("Definition bad := Eval vm_compute in check_crash [%s].\nPrint bad.\n" % "; ".join("(%d%%nat, %d)" % (k, s) for k, s, _ in obs))
    r = V.run_case_files(ctx, [f])[f]
    if r["rc"] != 0 or r.get("bad") is None:
        V.violation(ctx, "model-eval", {"kind": "model-evaluation-failed", "detail": r["out"][-2000:]}, nofail=True)
    elif r["bad"] and not found:
        V.violation(ctx, "correspondence:crash-model", {"kind": "model-implementation-divergence", "correspondence": "Crash.v predicted outcome per crash point vs real recovery",
                                                         "mismatches(k, observed, predicted)": r["bad"][:10], "examples": [l for _, _, l in obs][:30]}, nofail=True)
    for e in (st.get("Errors") or [])[:3]:
        if "crash experiment" in e:
            V.violation(ctx, "crash-experiment-failed", {"kind": "experiment-could-not-run", "what": e}, nofail=True)
    common.patch_evidence(ctx, {"crash_experiments": st.get("CrashRuns", 0), "crash_points_tried": len(obs), "outcome_table": st.get("CrashTable")},
                          distinct=len(st.get("CrashTable") or {}))
