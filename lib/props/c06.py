"""C06 — block execution is isolated from mempool checks and queries."""
import vcheck as V
from props import common

THEOREMS = ["C06_holds", "C06_state"]


def run(ctx):
    res = common.app_check(ctx, "C06", "theories/Props/C06.v", THEOREMS, codes=[10, 11, 12], pred="(fun _ => true)",
                           extra_assume=["Node.v pairs the consensus-side model with a mempool-side state (check overlay, check-side stake limiter) that CheckTx alone can change; that the code has this structure is what the quiet-vs-noisy differential establishes (before fix cef0175 the stake limiter was shared and the differential fails)",
                                         "interleavings at ABCI-call granularity (the application serialises calls with one mutex)"],
                           profile="corpus noise", histories=(9 if ctx.quick() else 150),
                           nontrivial_rule="every history is executed again on a second real node with CheckTx calls (transactions of this and later blocks, bit-flipped copies) and Query calls injected at every ABCI call boundary; all consensus answers and application hashes must be identical")
    if res is None:
        return
    st = ctx.app_stats
    for d in (st.get("NoiseDiffs") or [])[:5]:
        V.violation(ctx, "mempool-traffic-changes-block-execution", {"kind": "quiet-and-noisy-replicas-disagree", "theorem": "C06_holds", "what": d})
    for d in (st.get("NoisePanics") or [])[:3]:
        V.violation(ctx, "panic-in-checktx-or-query", {"kind": "panic", "what": d})
    common.patch_evidence(ctx, {"noisy_replicas": st.get("NoiseRuns", 0), "checktx_injected": st.get("NoiseChecks", 0),
                                "checktx_passed_validation": st.get("NoiseChecksPassed", 0), "queries_injected": st.get("NoiseQueries", 0)},
                          distinct=st.get("NoiseChecksPassed", 0))
