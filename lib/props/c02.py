"""C02 — conservation of value across accounts, stakes, unbonding and rewards."""
import os
import vcheck as V
from props import common

THEOREMS = ["C02_checked", "C02_checked_run", "C02_holds", "C02_deliver_ok", "C02_deliver_fail", "C02_begin_block", "C02_end_block", "C02_collision_refuted", "C02_holds_closed", "C02_run_ok_reachable", "C02_holds_inputs"]
PROPS_V = "theories/Props/C02.v"


def run(ctx):
    common.app_check(ctx, "C02", PROPS_V if os.path.exists(os.path.join(V.COQ, PROPS_V)) else None, THEOREMS,
                     codes=[1, 2, 3, 7], pred="P_C02", effect_codes=(21, 24), known_classes=(1,),
                     extra_assume=["stake hashes stay unique along the run (hypothesis of C02_holds; C02_collision_refuted: two genesis stakes, which all carry hash 0, unbonding at once lose one — known finding)",
                                   "supply bound: genesis total + issued rewards < 2^256, so no balance wraps (the predicate checks every balance is in range)",
                                   "EVM transactions: the observed balance changes of one contract transaction sum to -gasUsed*price - burn (go-ethereum; checked by the C17 reference-EVM differential), histories with contract transactions are skipped by this predicate"],
                     nontrivial_rule="the predicate sums balances of all watched accounts (every address that ever received value is watched) + bonded + unbonding stake after every block and requires supply = previous + withdrawn - slashed*10^18 - fees of proposer-less blocks")
