"""the shape shared by most checks: proofs, then model-vs-implementation on generated cases"""
import json, os, time
import vcheck as V


def proofs(ctx, props_v, theorem_names):
    """stage 1.  Returns info; on failure registers what is needed for the decision stage."""
    ok, info = V.proof_stage(ctx, props_v, clean=False)
    ctx.cov.update({
        "obligations": info.get("obligations", 0),
        "discharged": info.get("obligations", 0) if ok else 0,
        "checker_cmd": "make -f Makefile.coq -j16 %s.vo (coqc 8.16.1, full .vo) ; coqc %s (Print Assumptions)" % (props_v[:-2], props_v),
        "property_theorems": theorem_names,
        "proof_cone": info.get("cone"),
        "print_assumptions": info.get("assumptions"),
        "axioms": info.get("axioms", []),
        "coq_make_s": info.get("make_s"),
    })
    ctx.proof_ok, ctx.proof_info = ok, info
    if ok and not ctx.quick():
        okc, out, secs = V.coqchk(ctx, info["cone"])
        ctx.cov["coqchk"] = {"ok": okc, "s": secs, "tail": out[-1500:]}
        if not okc:
            ctx.proof_ok = False
            info["failed"], info["failed_at"] = "coqchk: " + out[-1500:], props_v
    return ok


def proof_failure_verdict(ctx, found_failing_input):
    """a proof obligation broke: unless a concrete failing input was already reported, report the
    violation naming the theorem/file that no longer checks"""
    if ctx.proof_ok or found_failing_input:
        return
    info = ctx.proof_info
    V.violation(ctx, "proof:" + str(info.get("failed_at")),
                {"kind": "proof-obligation-broken", "where": info.get("failed_at"),
                 "detail": info.get("failed"), "theorems": ctx.cov.get("property_theorems")}, nofail=True)
