"""the shape shared by most checks: proofs, then model-vs-implementation on generated cases"""
import json, shutil, os, time
import vcheck as V


def proofs(ctx, props_v, theorem_names):
    """stage 1.  Returns info; on failure registers what is needed for the decision stage."""
    ok, info = V.proof_stage(ctx, props_v, clean=False)
    ctx.cov.update({
        "obligations": info.get("obligations", 0),
        "discharged": info.get("obligations", 0) if ok else 0,
        "checker_cmd": "make -f Makefile.coq -j16 %s.vo (coqc 8.16.1, full .vo) ; coqc %s (Print Assumptions)" % (props_v[:-2], props_v),
        "property_theorems": theorem_names,
        "proof_cone": info.get("cone"),
        "print_assumptions": info.get("assumptions"),
        "axioms": info.get("axioms", []),
        "coq_make_s": info.get("make_s"),
    })
    ctx.proof_ok, ctx.proof_info = ok, info
    if ok and not ctx.quick():
        okc, out, secs = V.coqchk(ctx, info["cone"])
        ctx.cov["coqchk"] = {"ok": okc, "s": secs, "tail": out[-1500:]}
        if not okc:
            ctx.proof_ok = False
            info["failed"], info["failed_at"] = "coqchk: " + out[-1500:], props_v
    return ok


def proof_failure_verdict(ctx, found_failing_input):
    """a proof obligation broke: unless a concrete failing input was already reported, report the
    violation naming the theorem/file that no longer checks"""
    if ctx.proof_ok or found_failing_input:
        return
    info = ctx.proof_info
    V.violation(ctx, "proof:" + str(info.get("failed_at")),
                {"kind": "proof-obligation-broken", "where": info.get("failed_at"),
                 "detail": info.get("failed"), "theorems": ctx.cov.get("property_theorems")}, nofail=True)


# ------------------------------------------------------------------ application-level checks
KNOWN_KEYS = {1: "frozen-key-collision:genesis-hash", 2: "reward-withheld:block-1-staking",
              3: "valset-diverges:genesis-validator-leaves-in-block-1"}

APP_ASSUME = [
    "Spec.v is a hand-written cache-free model of node/app.go + the account, stake and gov controllers; it is tied to the code by running it on the histories the harness just executed on the real RigoApp (responses, validator updates, and the whole projected state after every commit)",
    "transactions reach the model decoded; the signature check is summarised by one flag computed by the harness (signed by From's key, for the node's chain id, no field altered afterwards); byte-level soundness of that check is property C03",
    "Tendermint's delivery discipline: consecutive heights, LastCommitInfo of block h taken from the validator set two blocks after the updates that produced it (the harness's consensus simulator)",
    "IAVL / goleveldb / protobuf / JSON encoders are trusted; what they return is compared, not proved",
]


def shrink_history(ctx, binp, hist, evals, still_fails, fail_codes=None, budget_s=150):
    """minimise a failing history: keep only the blocks up to the first one at which the failure shows
    (predicates are per block), then drop the transactions that failed (by C05 they have no effect, and
    the consensus data of later blocks stays consistent).  Every candidate is executed again on a fresh
    real node and judged by the same Coq evaluation; a candidate is kept only if it still fails."""
    t0 = time.time()
    tries = [0]

    def fails(h):
        tries[0] += 1
        d = os.path.join(ctx.scratch, "shrink%d" % tries[0])
        os.makedirs(d, exist_ok=True)
        hp = os.path.join(d, "h.json")
        json.dump([h], open(hp, "w"))
        f = os.path.join(d, "cases_shrink.v")
        rc, o = V.run_harness(ctx, binp, "app-replay", ["-json", hp, "-out", f, "-scratch", d, "-stats", os.path.join(d, "st.json"), "-evals", evals])
        if rc != 0:
            return False
        r = V.run_case_files(ctx, [f], names=("bad", "eff", "neff"))[f]
        shutil.rmtree(d, ignore_errors=True)
        return r["rc"] == 0 and still_fails(r)

    best = hist
    nb = len(hist["Blocks"])
    if not fails(hist):
        return hist, {"shrunk": False, "why": "the recorded history does not fail when executed again"}
    lo, hi = 1, nb            # smallest prefix that still fails
    while lo < hi and time.time() - t0 < budget_s:
        mid = (lo + hi) // 2
        cand = dict(hist, Blocks=hist["Blocks"][:mid])
        if fails(cand):
            hi, best = mid, cand
        else:
            lo = mid + 1
    cur = best
    nkeep = len(cur["Blocks"])
    # (2) failed transactions have no effect (C05): drop them all, if the failure survives
    if fail_codes and time.time() - t0 < budget_s:
        blocks = []
        for bi, b in enumerate(cur["Blocks"]):
            b2 = dict(b)
            codes_b = fail_codes[bi] if bi < len(fail_codes) else []
            txs = b.get("Txs") or []
            if bi < nkeep - 1 and len(codes_b) == len(txs):
                b2["Txs"] = [t for t, c in zip(txs, codes_b) if c == 0] or None
            blocks.append(b2)
        cand = dict(cur, Blocks=blocks)
        if fails(cand):
            cur = cand
    # (3) the transactions of the last block, one by one from the end (nothing after it depends on them)
    last = len(cur["Blocks"]) - 1
    k = len(cur["Blocks"][last].get("Txs") or []) - 1
    while k >= 0 and time.time() - t0 < budget_s:
        blocks = [dict(b) for b in cur["Blocks"]]
        txs = list(blocks[last].get("Txs") or [])
        del txs[k]
        blocks[last]["Txs"] = txs or None
        cand = dict(cur, Blocks=blocks)
        if fails(cand):
            cur = cand
        k -= 1
    return cur, {"shrunk": True, "blocks_before": nb, "blocks_after": len(cur["Blocks"]),
                 "txs_before": sum(len(b.get("Txs") or []) for b in hist["Blocks"]), "txs_after": sum(len(b.get("Txs") or []) for b in cur["Blocks"]),
                 "candidates_executed": tries[0], "seconds": round(time.time() - t0)}


def app_check(ctx, prop, props_v, theorems, codes, pred, extra_assume, known_classes=(), histories=None, blocks=None,
              profile="corpus", nontrivial_rule="", extra_evals=None, effect_codes=()):
    """proof stage + model-vs-RigoApp on generated histories, restricted to the projection `codes`,
    + the property predicate `pred` on the implementation's and on the model's observations"""
    assume = APP_ASSUME + list(extra_assume)
    if props_v:
        proofs(ctx, props_v, theorems)
    elif not hasattr(ctx, "proof_ok"):
        ctx.proof_ok, ctx.proof_info = True, {}
    binp, out = V.go_build(ctx)
    if binp is None:
        V.violation(ctx, "harness-build", {"kind": "harness-does-not-build", "detail": out[-3000:]}, nofail=True)
        V.write_evidence(ctx, "proof", {}, assume)
        return None
    nh = histories or (12 if ctx.quick() else 360)
    nb = blocks or (40 if ctx.quick() else 70)
    shards = 4 if ctx.quick() else 36
    evals = "bad=check_props [%s] %s" % (";".join(str(c) for c in codes), pred)
    if extra_evals:
        evals += "|" + extra_evals
    # the EVM effect contract (EffectCheck.v) on every effect the node exhibited
    evals += "|eff=check_effects_cases|neff=count_effects"
    files, stats, hist = [], [], {}
    if getattr(ctx, "replay", None):
        # --replay <file>: the recorded history is executed again on a fresh real node built from
        # /repo's current tree, and model and predicate are evaluated on what it answers now
        obj = json.load(open(ctx.replay))
        if "history" not in obj:
            print("replay file carries no application history; re-run the check with VERIF_SEED=%s --tier %s" % (obj.get("seed"), obj.get("tier")))
            return None
        hp = os.path.join(ctx.scratch, "replay_history.json")
        json.dump([obj["history"]], open(hp, "w"))
        f = os.path.join(ctx.scratch, "cases_app_0.v")
        st = os.path.join(ctx.scratch, "astats_0.json")
        rc, o = V.run_harness(ctx, binp, "app-replay", ["-json", hp, "-out", f, "-scratch", ctx.scratch, "-stats", st, "-evals", evals])
        if rc != 0:
            V.violation(ctx, "harness-run", {"kind": "harness-failed", "detail": o[-3000:]}, nofail=True)
            return None
        shutil.copy(hp, f + ".json")
        files.append(f)
        stats.append(json.load(open(st)))
        shards = 0
    def gen_shard(s):
        sd = os.path.join(ctx.scratch, "shard%d" % s)   # own scratch: the shards run in parallel
        os.makedirs(sd, exist_ok=True)
        f = os.path.join(ctx.scratch, "cases_app_%d.v" % s)
        st = os.path.join(ctx.scratch, "astats_%d.json" % s)
        prof = profile if s == 0 else profile.replace("corpus", "")
        rc, o = V.run_harness(ctx, binp, "app", ["-seed", ctx.seed * 1000 + s, "-n", max(1, nh // shards), "-blocks", nb, "-out", f,
                                                "-scratch", sd, "-stats", st, "-json", f + ".json", "-profile", prof, "-evals", evals])
        shutil.rmtree(sd, ignore_errors=True)
        return s, rc, o, f, st
    if shards:
        from concurrent.futures import ThreadPoolExecutor
        with ThreadPoolExecutor(max_workers=int(os.environ.get("VERIF_GEN_JOBS", "6"))) as ex:
            outs = sorted(ex.map(gen_shard, range(shards)))
        for s, rc, o, f, st in outs:
            if rc != 0:
                V.violation(ctx, "harness-run", {"kind": "harness-failed", "detail": o[-3000:]}, nofail=True)
                V.write_evidence(ctx, "proof", {}, assume)
                return None
            files.append(f)
            stats.append(json.load(open(st)))
    res = V.run_case_files(ctx, files, names=("bad", "eff", "neff") + tuple(e.split("=")[0] for e in (extra_evals or "").split("|") if "=" in e))
    found_input = False
    EFFECT_TEXT = {20: "an EVM-path transaction succeeded but the node exhibited no effect", 21: "the accounts touched by an EVM execution did not lose exactly gas used x price in total (hypothesis evm_effect_fee_ok of the C02/C16 EVM-path theorems)",
                   24: "value vanished during an EVM execution: the touched accounts lost more than gas used x price although no program of this history destroys value and every address the programs can pay is watched (C02 conservation / C16 exact fee)",
                   22: "the sender's nonce after an EVM execution is not nonce + 1 (evm_effect_nonce_ok, C04)", 23: "an EVM execution lowered the nonce of a sending account (evm_effect_mono_at, C04)"}
    ctx.effects_checked = 0
    later = []   # divergences without a falsified predicate: reported only if no failing input turns up
    for f, r in res.items():
        if r["rc"] != 0 or r.get("eff") is None:
            continue
        ctx.effects_checked += int(r.get("neff") or 0)
        if not r["eff"]:
            continue
        hs = json.load(open(f + ".json"))
        for (idx, bad) in r["eff"]:
            mine = [(pos, c) for (pos, c) in bad if c in effect_codes]
            if not mine:
                continue
            h = hs[idx]
            # the Coq check judges the effect against the MODEL's state before the transaction (that is
            # what the theorems' hypothesis says); the harness judged the same effect against the node's
            # own values before the transaction.  Only when the node's own values break the contract is
            # this a failing input of the implementation; otherwise model and node had diverged before
            pure = [t["Evm"]["Pure"] for b in h["Blocks"] for t in (b.get("Txs") or []) if t.get("Evm") and t["Evm"].get("Pure")]
            if not pure:
                later.append(("correspondence:spec-vs-app:evm-effect", {"kind": "model-implementation-divergence",
                              "what": "an observed EVM effect breaks the effect contract relative to the model's state but not relative to the node's own state before the transaction: model and node differed before it",
                              "positions_and_codes": mine, "history": {k: h[k] for k in ("Seed", "Genesis", "Blocks", "WatchA", "WatchH", "StrTab", "OptTab")}}))
                continue
            found_input = True
            key = "evm-effect-breaks-contract-%d" % mine[0][1]
            slim, shrink_info = {k: h[k] for k in ("Seed", "Genesis", "Blocks", "WatchA", "WatchH", "StrTab", "OptTab")}, None
            if key not in ctx.reported and not getattr(ctx, "replay", None):
                fc = [[d["Code"] for d in (o.get("Delivers") or [])] for o in h["Obs"]]
                want = set(effect_codes)
                slim, shrink_info = shrink_history(ctx, binp, slim, evals, lambda r: any(c in want for e in (r.get("eff") or []) for (_, c) in e[1]), fail_codes=fc)
            V.violation(ctx, key,
                        {"kind": "observed-evm-effect-violates-the-effect-contract", "what": EFFECT_TEXT.get(mine[0][1]), "positions_and_codes": mine,
                         "node_own_values": pure[:3], "theorem_hypothesis": "EffectCheck.effect_contract", "history": slim, "minimised": shrink_info})
    for f, r in res.items():
        if r["rc"] != 0 or r.get("bad") is None:
            V.violation(ctx, "model-eval", {"kind": "model-evaluation-failed", "file": f, "detail": r["out"][-2000:]}, nofail=True)
            continue
        if not r["bad"]:
            continue
        hs = json.load(open(f + ".json"))
        for (idx, diff, p_impl, p_model, classes) in r["bad"]:
            h = hs[idx]
            slim = {"Seed": h["Seed"], "Genesis": h["Genesis"], "Blocks": h["Blocks"], "WatchA": h["WatchA"], "WatchH": h["WatchH"],
                    "StrTab": h["StrTab"], "OptTab": h["OptTab"]}
            if p_impl is False:
                known = [KNOWN_KEYS[c] for c in classes if c in known_classes]
                key = known[0] if known else "trace-falsifies-" + pred
                shrink_info = None
                if not known:
                    found_input = True
                    if key not in ctx.reported and not getattr(ctx, "replay", None):
                        fc = [[d["Code"] for d in (o.get("Delivers") or [])] for o in h["Obs"]]
                        slim, shrink_info = shrink_history(ctx, binp, slim, evals, lambda r: any(e[2] is False for e in (r.get("bad") or [])), fail_codes=fc)
                V.violation(ctx, key, {"kind": "implementation-trace-falsifies-predicate", "predicate": pred, "theorem": theorems[0] if theorems else None,
                                       "model_trace_also_falsifies": p_model is False, "history": slim, "minimised": shrink_info,
                                       "how_to_replay": "vh app-replay -json <this file's history as a list> ; evaluate %s" % pred})
            elif diff is not None:
                later.append(("correspondence:spec-vs-app:%s" % diff[1][1],
                              {"kind": "model-implementation-divergence", "projection_codes": codes, "first_difference": {"observation_index": diff[1][0], "component": diff[1][1]},
                               "correspondence": "Spec.v/AppRun.v vs RigoApp on the projection of %s" % prop, "history": slim,
                               "searched": "predicate %s holds on every implementation trace of this run that differs from the model" % pred}))
            else:
                later.append(("model-trace-falsifies-" + pred, {"kind": "model-trace-falsifies-predicate", "predicate": pred, "history": slim}))
    if not found_input:
        for key, obj in later:
            V.violation(ctx, key, obj, nofail=True)
    if getattr(ctx, "replay", None):
        print("replayed %s on the current tree: %s" % (ctx.replay, "reproduced" if ctx.violations or ctx.known else "not reproduced (predicate holds, model and node agree)"))
        V.finish(ctx)
    ctx.app_results = res
    proof_failure_verdict(ctx, found_input)
    agg = {}
    for s in stats:
        for k, v in s.items():
            if isinstance(v, int):
                agg[k] = agg.get(k, 0) + v
            elif isinstance(v, dict):
                d = agg.setdefault(k, {})
                for kk, vv in v.items():
                    d[kk] = d.get(kk, 0) + vv
            elif isinstance(v, list) and v:
                agg.setdefault(k, []).extend(v)
    ctx.app_stats = agg
    sample = open(files[-1]).read()
    i = sample.find("(mk_case")
    V.write_evidence(ctx, "proof", {
        "traces_validated_against_impl": agg.get("Histories", 0),
        "evaluations": agg.get("Txs", 0) + agg.get("Blocks", 0),
        "distinct_nontrivial": agg.get("DistinctNontrivial", 0),
        "rule": "histories of %d blocks generated online against the real node from one PRNG (all native transaction types, ~40%% invalid: nonce/price/gas/funds/signature/chain/payload/authorisation; evidence, missed votes, governance); plus hand-written corpus histories; compared: %s; predicate %s evaluated on the implementation's and on the model's observations. %s" % (nb, codes, pred, nontrivial_rule or "non-trivial = the history contains at least one block with validator updates"),
        "evm_effects_checked_against_contract": getattr(ctx, "effects_checked", 0),
        "perturbed_node_traces_judged": agg.get("JudgedPerturbed", 0),
        "blocks": agg.get("Blocks", 0), "transactions": agg.get("Txs", 0), "succeeded": agg.get("Succeeded", 0), "failed": agg.get("Failed", 0),
        "distribution": agg.get("ByNote", {}), "corpus": agg.get("Corpus", []), "generator_errors": agg.get("Errors", []),
        "samples": [sample[i:i + 1500]],
        "exhaustive": False,
    }, assume)
    return res


def patch_evidence(ctx, extra, distinct=None):
    """add run-specific coverage numbers to the evidence file written by app_check"""
    p = os.path.join(V.VERIF, "evidence", ctx.prop + ".json")
    ev = json.load(open(p))
    ev["coverage"].update(extra)
    if distinct is not None:
        ev["coverage"]["distinct_nontrivial"] = distinct
    ev["violations"] = len(ctx.violations)
    ev["known_findings"] = ctx.known
    json.dump(ev, open(p, "w"), indent=1, default=str)
