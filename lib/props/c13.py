"""C13 — rewards: only for signed blocks, proportional to stake; withdrawals exact."""
from props import common

THEOREMS = ["C13_holds_closed", "C13_holds_closed_mod", "C13_run_wf_reachable", "C13_holds", "C13_issuance", "C13_issuance_exact", "C13_withdraw_bounded", "C13_withdraw_exact", "C13_other_tx", "C13_end_block", "C13_commit"]


def run(ctx):
    common.app_check(ctx, "C13", "theories/Props/C13.v", THEOREMS, codes=[4, 10, 1], pred="P_C13", known_classes=(2,),
                     extra_assume=["consensus_ok: the votes of block h name the validators and powers that result from the updates of blocks <= h-3 (the harness's consensus simulator); the predicate additionally REQUIRES that a signing validator recorded in the version the issuance reads is recorded there with the power it voted with — where that fails the code silently pays nothing (known finding: staking to a genesis validator in block 1)",
                                   "run_wf: crediting a withdrawal does not wrap the balance (supply bound); without it a failed withdrawal can leave the reward record emptied (InvReward.withdraw_fail_frame_refuted, balance + reward >= 2^256)",
                                   "reward-per-power < 2^192 and stake powers < 2^63 for the exact (non-modular) form"],
                     nontrivial_rule="non-trivial = history with validator updates; issuance happens in almost every block (ev:reward-block), withdrawals zero / partial / exact / excessive / repeated are in the distribution")
