"""C13 — rewards: only for signed blocks, proportional to stake; withdrawals exact."""
import vcheck as V
from props import common

THEOREMS = ["C13_holds_closed", "C13_holds_closed_mod", "C13_run_wf_reachable", "C13_holds", "C13_issuance", "C13_issuance_exact", "C13_withdraw_bounded", "C13_withdraw_exact", "C13_other_tx", "C13_end_block", "C13_commit"]


def run(ctx):
    res = common.app_check(ctx, "C13", "theories/Props/C13.v", THEOREMS, codes=[4, 10, 1], pred="P_C13", known_classes=(2,), profile="corpus queries",
                     extra_assume=["consensus_ok: the votes of block h name the validators and powers that result from the updates of blocks <= h-3 (the harness's consensus simulator); the predicate additionally REQUIRES that a signing validator recorded in the version the issuance reads is recorded there with the power it voted with — where that fails the code silently pays nothing (known finding: staking to a genesis validator in block 1)",
                                   "run_wf: crediting a withdrawal does not wrap the balance (supply bound); without it a failed withdrawal can leave the reward record emptied (InvReward.withdraw_fail_frame_refuted, balance + reward >= 2^256)",
                                   "reward-per-power < 2^192 and stake powers < 2^63 for the exact (non-modular) form"],
                     nontrivial_rule="non-trivial = history with validator updates; issuance happens in almost every block (ev:reward-block), withdrawals zero / partial / exact / excessive / repeated are in the distribution")
    if res is None:
        return
    # "an account's withdrawable reward ALWAYS equals everything issued to it minus everything it has
    # withdrawn", as the reward query reports it for a committed height: asked between blocks, in the
    # middle of the next block (after its issuance, after a withdrawal) and later, the answer is the same
    st = ctx.app_stats
    for d in [x for x in (st.get("QueryBad") or []) if x.startswith("reward ") or " reward " in x or x.startswith("reward")][:3]:
        V.violation(ctx, "reward-query-answer-changed", {"kind": "reward-query-for-a-committed-height-not-stable", "theorem": "C13_holds_closed", "what": d})
    common.patch_evidence(ctx, {"reward_queries_repeated": st.get("QueryRepeated", 0)})
