"""C15 — governance: validators only, 2/3 of snapshot power, timed application."""
from props import common

THEOREMS = ["C15_holds", "C15_only_at_commit", "C15_not_before_applying_height", "C15_submission", "C15_submitter_is_validator",
            "C15_voting", "C15_tallies", "C15_merge", "C15_active_equals_stored"]


def run(ctx):
    common.app_check(ctx, "C15", "theories/Props/C15.v", THEOREMS, codes=[5, 6, 11], pred="P_C15", profile="corpus noise judge",
                     extra_assume=["option documents reach the model parsed (the harness renders the JSON it submits from the same record); that submission-time parsing equals apply-time parsing is enforced by fix dc7d075",
                                   "'the power they had then' holds up to slashing: evidence shrinks a recorded voter's weight (C14); p_total = sum of voter powers needs slash ratio <= 100 (InvGov.prop_punish_total_refuted)",
                                   "two proposals applied in one block both merge against the old parameters and the later one wins wholesale (InvGov.apply_two_lost_update): documented peculiarity, not part of the property",
                                   "proposals carry fewer than 12 options (Go's sort is then the model's stable insertion sort)"],
                     nontrivial_rule="non-trivial = history with validator updates; the distribution counts proposals frozen / removed / applied (ev:proposal-*) and votes accepted / rejected per reason")
