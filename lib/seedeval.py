#!/usr/bin/env python3
"""seedeval.py <seed-id>... [--checks C01,C02,...] [--patch <file> --name <id>]
Evaluates the registered quick checks against a seeded change WITHOUT touching /repo or /verif:
copies /repo and /verif into a lab directory outside both, applies seeded/<seed-id>/patch.diff to the
copy of the repository, points the copied harness at it (go.mod replace, VERIF_REPO) and runs every
check there.  Records per check the exit code and the VIOLATION lines in seeded/<seed-id>/caught.json
and removes the lab.  (The commands registered in MANIFEST.json never use this; they always run
against /repo itself.)"""
import json, os, re, shutil, subprocess, sys, time

VERIF = os.path.dirname(os.path.dirname(os.path.abspath(__file__)))
SRC = os.environ.get("SEED_VERIF_SRC", VERIF)    # a frozen copy of /verif may be given, so that /verif can be edited meanwhile
REPO = os.environ.get("SEED_REPO_SRC", "/repo")
LABROOT = os.environ.get("SEEDLAB", "/var/tmp/seedlab")
GOENV = dict(os.environ, GOFLAGS="-mod=mod", GOPROXY="off", GOSUMDB="off", GOTOOLCHAIN="local")


def sh(cmd, **kw):
    p = subprocess.run(cmd, stdout=subprocess.PIPE, stderr=subprocess.STDOUT, text=True, **kw)
    return p.returncode, p.stdout


def sh_limited(cmd, cwd, env, limit):
    """a check run against a changed repository may not terminate (a change can make the node loop):
    the whole process group is killed after `limit` seconds and the run counts as exit 124"""
    import signal
    p = subprocess.Popen(cmd, stdout=subprocess.PIPE, stderr=subprocess.STDOUT, text=True, cwd=cwd, env=env, start_new_session=True)
    try:
        out, _ = p.communicate(timeout=limit)
        return p.returncode, out
    except subprocess.TimeoutExpired:
        try:
            os.killpg(p.pid, signal.SIGKILL)
        except ProcessLookupError:
            pass
        out, _ = p.communicate()
        return 124, (out or "") + "\n[killed after %s s]" % limit


def evaluate(seed, patch, checks, outdir, stop_on_catch=False):
    lab = os.path.join(LABROOT, seed)
    shutil.rmtree(lab, ignore_errors=True)
    os.makedirs(lab)
    try:
        sh(["rsync", "-a", "--exclude", ".git", REPO + "/", lab + "/repo/"])
        sh(["git", "init", "-q"], cwd=lab + "/repo")
        sh(["rsync", "-a", "--exclude", ".git", "--exclude", "replays", "--exclude", "seeded", SRC + "/", lab + "/verif/"])
        if patch:
            rc, out = sh(["git", "apply", patch], cwd=lab + "/repo")
            if rc != 0:
                print("patch does not apply:", out)
                return None
        rc, out = sh(["go", "mod", "edit", "-replace", "github.com/rigochain/rigo-go=" + lab + "/repo"], cwd=lab + "/verif/harness", env=GOENV)
        if rc != 0:
            print("go mod edit failed:", out)
            return None
        env = dict(os.environ, VERIF_REPO=lab + "/repo", VERIF_JOBS=os.environ.get("VERIF_JOBS", "8"))
        res = {}
        for c in checks:
            t = time.time()
            rc, out = sh_limited([lab + "/verif/check", c, "--tier", os.environ.get("SEED_TIER", "quick")], lab + "/verif", env,
                                 None if os.environ.get("SEED_TIER") == "thorough" else 1800)
            kinds = []
            for l in out.splitlines():
                if l.startswith("VIOLATION"):
                    kinds.append({"line": l.replace(lab + "/verif/", ""), "with_failing_input": not l.rstrip().endswith("no-failing-input-found")})
            res[c] = {"exit": rc, "seconds": round(time.time() - t), "violations": kinds}
            print(seed, c, "exit", rc, [k["line"] for k in kinds], flush=True)
            if stop_on_catch and any(k["with_failing_input"] for k in kinds):
                break
        if outdir:
            # merge: a partial re-run (some checks only) updates those entries and keeps the others
            cp = os.path.join(outdir, "caught.json")
            old = json.load(open(cp)) if os.path.exists(cp) else {}
            old.update(res)
            with open(cp, "w") as f:
                json.dump(dict(sorted(old.items())), f, indent=1)
        return res
    finally:
        if os.environ.get("SEED_KEEP"):
            print("lab kept at", lab)
        else:
            shutil.rmtree(lab, ignore_errors=True)


def main():
    args = sys.argv[1:]
    checks = ["C%02d" % i for i in range(1, 21)]
    if "--checks" in args:
        i = args.index("--checks")
        checks = args[i + 1].split(",")
        args = args[:i] + args[i + 2:]
    if "--nopatch" in args:   # the unchanged tree under another VERIF_SEED: looks for false alarms and for new findings
        name = args[args.index("--name") + 1] if "--name" in args else "sweep"
        evaluate(name, None, checks, None)
        return
    if "--patch" in args:
        i = args.index("--patch")
        patch = args[i + 1]
        name = args[args.index("--name") + 1] if "--name" in args else "adhoc"
        evaluate(name, os.path.abspath(patch), checks, None)
        return
    for seed in args:
        d = os.path.join(VERIF, "seeded", seed)
        evaluate(seed, os.path.join(d, "patch.diff"), checks, d)


if __name__ == "__main__":
    main()
