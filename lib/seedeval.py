#!/usr/bin/env python3
"""seedeval.py <seed-id>... [--checks C01,C02,...]
Applies /verif/seeded/<seed-id>/patch.diff to /repo, runs the registered quick checks, records which
of them report a violation (and of which kind), and always restores /repo afterwards.  Writes
seeded/<seed-id>/caught.json; never commits anything to /repo."""
import json, os, re, subprocess, sys, time

VERIF = os.path.dirname(os.path.dirname(os.path.abspath(__file__)))
REPO = "/repo"


def sh(cmd, **kw):
    p = subprocess.run(cmd, stdout=subprocess.PIPE, stderr=subprocess.STDOUT, text=True, **kw)
    return p.returncode, p.stdout


def main():
    args = sys.argv[1:]
    checks = ["C%02d" % i for i in range(1, 21)]
    if "--checks" in args:
        i = args.index("--checks")
        checks = args[i + 1].split(",")
        args = args[:i] + args[i + 2:]
    for seed in args:
        d = os.path.join(VERIF, "seeded", seed)
        rc, out = sh(["git", "-C", REPO, "status", "--porcelain"])
        if out.strip():
            print("refusing: /repo is not clean:\n" + out)
            sys.exit(2)
        rc, out = sh(["git", "-C", REPO, "apply", os.path.join(d, "patch.diff")])
        if rc != 0:
            print("patch does not apply:", out)
            sys.exit(2)
        res = {}
        try:
            for c in checks:
                t = time.time()
                rc, out = sh([os.path.join(VERIF, "check"), c, "--tier", "quick"], cwd=VERIF)
                lines = [l for l in out.splitlines() if l.startswith("VIOLATION")]
                kinds = []
                for l in lines:
                    m = re.search(r"replay=(\S+)", l)
                    kinds.append({"line": l.replace(VERIF + "/", ""),
                                  "with_failing_input": not l.rstrip().endswith("no-failing-input-found")})
                res[c] = {"exit": rc, "seconds": round(time.time() - t), "violations": kinds}
                print(seed, c, "exit", rc, [k["line"] for k in kinds], flush=True)
        finally:
            sh(["git", "-C", REPO, "checkout", "--", "."])
            sh(["git", "-C", REPO, "clean", "-fdq"])
            sh(["rm", "-rf", os.path.join(VERIF, "replays")])
        with open(os.path.join(d, "caught.json"), "w") as f:
            json.dump(res, f, indent=1)
    # the evidence files now describe runs against a modified tree: regenerate from the clean tree
    print("NOTE: evidence/*.json were rewritten by runs against modified trees; re-run the checks on the clean tree")


if __name__ == "__main__":
    main()
