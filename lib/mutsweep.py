#!/usr/bin/env python3
"""mutsweep.py --n N [--seed S] [--jobs J] [--out DIR] [--files f1,f2,...]
A development tool (no registered command uses it): mechanical mutation sweep over the files the
properties are anchored in.  For each sampled one-line mutation of /repo (in a lab copy outside /repo
and /verif; /repo is never touched):
  1. go build ./... and the existing tests of the packages under test must still pass (otherwise the
     mutant is not a "change that compiles and passes the existing tests" and is dropped);
  2. the quick checks of the properties anchored in the mutated file run against it in a lab copy
     (lib/seedeval.py), most specific first, stopping at the first one that reports a failing input.
Results go to <out>/results.jsonl; survivors (no check reported them) are what to look at by hand:
either equivalent mutants or gaps in the checks."""
import difflib, json, os, random, re, shutil, subprocess, sys, time
from concurrent.futures import ThreadPoolExecutor

sys.path.insert(0, os.path.dirname(os.path.abspath(__file__)))
import seedeval

VERIF = seedeval.VERIF
REPO = "/repo"
GOENV = seedeval.GOENV


def stable_tests():
    """the pinned suite: the stable-pass tests of /root/.vp/BASELINE.json, grouped by package"""
    b = json.load(open("/root/.vp/BASELINE.json"))
    m = {}
    for t in b["stable_pass"]:
        pkg, name = t.split("::")
        m.setdefault(pkg.replace("github.com/rigochain/rigo-go", "."), []).append(name)
    return m


RELS = [(" < ", " <= "), (" <= ", " < "), (" > ", " >= "), (" >= ", " > "), (" == ", " != "), (" != ", " == ")]
OPS = RELS + [(" && ", " || "), (" || ", " && "), (" + ", " - "), (" - ", " + "), (" + 1", " + 2"), (" - 1", ""),
              (".Add(", ".Sub("), (".Sub(", ".Add("), (".Mul(", ".Add("), (".Div(", ".Mul("),
              ("true", "false"), ("false", "true"), (" += ", " -= "), (" -= ", " += "), ("++", "--")]
SKIP = re.compile(r"logger\.|fmt\.|Wrapf?\(|^\s*//|^\s*import|^\s*\"|func \(|^\s*package|String\(\)|json:\"")


def anchors():
    m = {}
    for l in open(os.path.join(VERIF, "properties.jsonl")):
        p = json.loads(l)
        for f in p["anchors"]["files"]:
            m.setdefault(f, []).append(p["id"])
    return m


def candidates(files):
    out = []
    for f in files:
        lines = open(os.path.join(REPO, f)).read().split("\n")
        for i, ln in enumerate(lines):
            if SKIP.search(ln) or not ln.strip():
                continue
            code = ln.split("//")[0]
            if '"' in code and ("+" in code):
                pass
            for a, b in OPS:
                for mt in re.finditer(re.escape(a), code):
                    if '"' in code[:mt.start()] and code[:mt.start()].count('"') % 2 == 1:
                        continue  # inside a string literal
                    out.append((f, i, "replace", a, b, mt.start()))
            s = code.strip()
            if re.match(r"^if [^;:]*\{$", s) and ":=" not in s:
                out.append((f, i, "if-false", "", "", 0))
                out.append((f, i, "if-negate", "", "", 0))
            if re.match(r"^[\w\.\[\]]+\([^{}]*\)$", s) and not s.startswith(("return", "defer", "go ", "panic")):
                out.append((f, i, "delete-call", "", "", 0))
            if re.match(r"^[\w\.\[\]]+ [\+\-]?= [^{}]*$", s) and ":=" not in s:
                out.append((f, i, "delete-assign", "", "", 0))
    return out


def apply_mut(lines, c):
    f, i, kind, a, b, pos = c
    ln = lines[i]
    if kind == "replace":
        return lines[:i] + [ln[:pos] + b + ln[pos + len(a):]] + lines[i + 1:]
    if kind == "if-false":
        ind = ln[:len(ln) - len(ln.lstrip())]
        cond = ln.strip()[3:-1].strip()
        return lines[:i] + [ind + "if false && (" + cond + ") {"] + lines[i + 1:]
    if kind == "if-negate":
        ind = ln[:len(ln) - len(ln.lstrip())]
        cond = ln.strip()[3:-1].strip()
        return lines[:i] + [ind + "if !(" + cond + ") {"] + lines[i + 1:]
    if kind in ("delete-call", "delete-assign"):
        return lines[:i] + lines[i + 1:]
    raise ValueError(kind)


def sh(cmd, **kw):
    p = subprocess.run(cmd, stdout=subprocess.PIPE, stderr=subprocess.STDOUT, text=True, **kw)
    return p.returncode, p.stdout


def one(idx, c, out, amap, src):
    f, i, kind, a, b, pos = c
    name = "m%04d" % idx
    lab = os.path.join(out, "build", name)
    shutil.rmtree(lab, ignore_errors=True)
    os.makedirs(lab + "/tmp")
    rec = {"id": name, "file": f, "line": i + 1, "kind": kind, "from": a, "to": b}
    try:
        sh(["rsync", "-a", "--exclude", ".git", REPO + "/", lab + "/repo/"])
        old = open(os.path.join(REPO, f)).read().split("\n")
        new = apply_mut(old, c)
        rec["old"] = old[i].strip()
        rec["new"] = new[i].strip() if kind not in ("delete-call", "delete-assign") else "(deleted)"
        open(os.path.join(lab, "repo", f), "w").write("\n".join(new))
        env = dict(GOENV, TMPDIR=lab + "/tmp")
        rc, o = sh(["go", "build", "./..."], cwd=lab + "/repo", env=env)
        if rc != 0:
            rec["status"] = "nocompile"
            return rec
        for pkg, names in stable_tests().items():
            rc, o = sh(["timeout", "600", "go", "test", "-vet=off", "-count=1", "-run", "^(" + "|".join(names) + ")$", pkg], cwd=lab + "/repo", env=env)
            if rc != 0:
                rec["status"] = "killed-by-existing-tests"
                rec["tests"] = [l for l in o.splitlines() if l.startswith(("FAIL", "--- FAIL", "panic"))][:4]
                return rec
        patch = "".join(difflib.unified_diff([l + "\n" for l in old], [l + "\n" for l in new], "a/" + f, "b/" + f))
        pf = os.path.join(out, "patches", name + ".diff")
        open(pf, "w").write(patch)
        shutil.rmtree(lab, ignore_errors=True)
        checks = amap.get(f) or {"ledger/rollback.go": ["C08", "C07"]}.get(f, ["C01"])
        # most specific first: properties anchored in few files before the cross-cutting ones
        spec = {"C18": 0, "C20": 0, "C03": 1, "C17": 1, "C14": 2, "C15": 2, "C13": 2, "C12": 2, "C11": 2, "C10": 2, "C16": 2,
                "C04": 3, "C02": 3, "C19": 3, "C05": 4, "C09": 4, "C06": 5, "C07": 5, "C01": 6, "C08": 7}
        checks = sorted(checks, key=lambda x: spec.get(x, 9))
        os.environ["SEED_VERIF_SRC"] = src
        seedeval.SRC = src
        res = seedeval.evaluate(name, pf, checks, None, stop_on_catch=True) or {}
        rec["checks"] = {k: {"exit": v["exit"], "s": v["seconds"], "viol": [x["line"][:160] for x in v["violations"][:2]],
                             "with_input": any(x["with_failing_input"] for x in v["violations"])} for k, v in res.items()}
        if any(v["with_input"] for v in rec["checks"].values()):
            rec["status"] = "reported-with-failing-input"
        elif any(v["viol"] for v in rec["checks"].values()):
            rec["status"] = "reported-divergence-only"
        elif any(v["exit"] != 0 for v in rec["checks"].values()):
            rec["status"] = "check-broken"
        else:
            rec["status"] = "survived"
        return rec
    finally:
        shutil.rmtree(lab, ignore_errors=True)


def main():
    a = sys.argv[1:]
    opt = lambda k, d: a[a.index(k) + 1] if k in a else d
    n, seed, jobs = int(opt("--n", "40")), int(opt("--seed", "1")), int(opt("--jobs", "4"))
    out = opt("--out", "/var/tmp/mutsweep")
    amap = anchors()
    files = opt("--files", "").split(",") if "--files" in a else [f for f in amap if not f.startswith("types/crypto/wallet")]
    os.makedirs(out + "/patches", exist_ok=True)
    src = out + "/verif-snap"
    if not os.path.isdir(src):
        sh(["rsync", "-a", "--exclude", ".git", "--exclude", "replays", "--exclude", "seeded", VERIF + "/", src + "/"])
    # the sweep works on frozen copies of /verif and /repo, so that both can move on while it runs
    global REPO
    rsnap = out + "/repo-snap"
    if not os.path.isdir(rsnap):
        sh(["rsync", "-a", "--exclude", ".git", "/repo/", rsnap + "/"])
    REPO = rsnap
    seedeval.REPO = rsnap
    cands = candidates(files)
    rnd = random.Random(seed)
    rnd.shuffle(cands)
    # at most one mutant per (file, line)
    seen, pick = set(), []
    for c in cands:
        if (c[0], c[1]) in seen:
            continue
        seen.add((c[0], c[1]))
        pick.append(c)
        if len(pick) == n:
            break
    print("candidates", len(cands), "picked", len(pick), flush=True)
    base = sum(1 for _ in open(out + "/results.jsonl")) if os.path.exists(out + "/results.jsonl") else 0
    with ThreadPoolExecutor(jobs) as ex, open(out + "/results.jsonl", "a") as rf:
        futs = [ex.submit(one, base + k, c, out, amap, src) for k, c in enumerate(pick)]
        for fu in futs:
            try:
                r = fu.result()
            except Exception as e:   # noqa
                r = {"status": "tool-error", "error": repr(e)}
            rf.write(json.dumps(r) + "\n")
            rf.flush()
            print(r.get("id"), r.get("status"), r.get("file"), r.get("line"), r.get("old"), "=>", r.get("new"), flush=True)


if __name__ == "__main__":
    main()
