#!/usr/bin/env python3
"""regenerates /verif/MANIFEST.json from the table below (kept in one place so that the
manifest stays valid and in step with what is actually built)"""
import json, os
VERIF = os.path.dirname(os.path.dirname(os.path.abspath(__file__)))
ENGINE = "rocq-proof+correspondence"

CLAIMS = {
 "C20": dict(
  text="C20_holds (Props/C20.v): for EVERY sequence of vote/proposal signing requests, answers lost after the state file was written, and reloads, the released signatures at one height/round/step cover one message and the HRS of successive released signatures never decreases; C20_durable: the last-sign record is on disk whenever control is outside the signer; C20_replay: a repeated request gets the original signature. Proved by induction over operation lists on Signer.v, a hand model of sfile_pv.go; the model is evaluated in Coq on every request sequence the harness just ran on the real SFilePV (with LoadSFilePV between requests) and the shared predicate P_C20 is evaluated on the implementation's answers.",
  note="Trusted: Coq kernel; the hand-written model Signer.v (tied by differential runs, bounded by generator quality); secp256k1 and tendermint canonical sign-bytes encoding; atomicity of tempfile.WriteFileAtomic. No axioms (Print Assumptions: closed).",
  technique="Rocq proof by induction over request/reload/crash sequences + model-vs-SFilePV correspondence (vm_compute)",
  ref="DESIGN.md section 7 C20"),
 "C18": dict(
  text="C18_ledger_refines (Props/C18.v): for EVERY finite sequence of set/get/delete/cancel/iterate/commit/historical-read/reopen operations on both overlays the concrete ledger model (the Go containers gotItems/updatedItems/removedKeys of both overlays, with duplicates in removedKeys, read-through caching, DelFinality's side effect on the mempool overlay, remove-then-set commit in descending key order) produces the observations of the abstract versioned store LedgerSpec (committed versions + per-overlay pending delete count / pending write), by a simulation relation; corollaries: mempool-overlay operations never change any consensus-side result and are discarded by commit, commit persists exactly what GetFinality returned as version+1, history is immutable across later commits and reopen, the tree operations of a commit are independent of map iteration order. C18_ledger_buggy_refuted shows the pre-fix get order violates the spec. Every run drives two real FinalityLedger instances on generated sequences and compares each return value with the abstract store (the property) and with the concrete model including the hook-recorded tree-operation order; root hashes of the two instances must agree.",
  note="Trusted: Coq kernel; Ledger.v as a model of ledger/*.go (tied on every run by differential runs incl. tree-op order via the verif hook); IAVL/goleveldb modelled as immutable versioned maps. No axioms. The defect found (set-after-delete invisible until commit) was repaired by fix commit 64edcb9; the model follows the repaired code.",
  technique="Rocq refinement proof (simulation) ledger model -> overlay-map spec over all op sequences + model/spec-vs-FinalityLedger correspondence",
  ref="DESIGN.md section 7 C18"),
 "C04": dict(
  text="C04_holds (Props/C04.v): in ANY history of the abstract application (any start state, any sequence of BeginBlock/DeliverTx/EndBlock/Commit incl. duplicates and replays in later blocks) two successful deliveries never carry the same (sender, nonce), as long as nonces stay below 2^64-1; from C04_step (success only with the sender's current nonce, which then moves by exactly one and nobody else's moves), C04_fail (failed deliveries move no nonce) and C04_begin/end/commit (block processing moves no nonce); EVM path under the stated effect contract. The model Spec.v is run in Coq on every history the harness executed on the real RigoApp (responses and committed nonces/balances compared) and the trace predicate P_C04 (k-th success of a sender in a block carries committed nonce + k; committed nonce moves by the number of successes) is evaluated on the implementation's and the model's observations.",
  note="Trusted: Coq kernel; Spec.v as a model of node/app.go, trx_executor.go and the controllers (tied by differential runs on generated histories, bounded by generator quality); signature check summarised by a flag (byte level: C03); EVM nonce behaviour is go-ethereum's (hypothesis evm_effect_nonce_ok). No axioms.",
  technique="Rocq proof: nonce monotonicity invariant over operation lists + Spec-vs-RigoApp correspondence and trace predicate (vm_compute)",
  ref="DESIGN.md section 7 C04"),
 "C05": dict(
  text="C05_holds (Props/C05.v): for every state and every transaction of the abstract application, a delivery that fails leaves every balance, nonce, name/document, code marker, bonded and unbonding stake, reward, proposal, vote and parameter, the block fee sum, the stake limiter and all control state exactly as they were (same_obs/same_ctl); hypotheses: Go type ranges, governance gas price < 2^192, balance + withdrawable reward < 2^256 — C05_price_bound_needed and C05_headroom_needed prove by witness that both are necessary (outside them a failed delivery does leave changes). Proved by showing that all validation precedes execution and that validated execution cannot fail. Tie: Spec.v run in Coq on the real node's histories (all observables compared) and fork-and-delete on the implementation: every history is re-executed on a second real node without its failed transactions and every remaining answer and committed projection must be identical.",
  note="Trusted: Coq kernel; Spec.v (tied by differential runs); an empty receiver account left by a failed delivery is identified with an absent one (documented caveat: with gas price 0 a later transaction from that address could tell). EVM failures revert in go-ethereum (trusted). No axioms.",
  technique="Rocq proof (validation-before-execution, validated execution cannot fail) + Spec-vs-RigoApp correspondence + fork-and-delete differential on the implementation",
  ref="DESIGN.md section 7 C05"),
 "C01": dict(
  text="The model (Spec.v, Ledger.v) is a function of genesis and block history; what could make replicas differ is node-local choice the model abstracts. C01_commit_order_irrelevant: the tree operations of every ledger commit (hence the new tree) are independent of the order in which Go iterates the map of updated items; C01_selection_unique: any correct sort — Go's unstable sort.Sort included — of delegatees by (power, stake count, address) returns the model's listing, because the order is strict and total. Every run executes each generated history on TWO real nodes and requires identical per-transaction answers, validator updates, application hashes, hook-recorded tree-operation sequences and durable-write order, and that every commit's tree operations are 'removals, then sets in strictly descending key order'; the model is compared with both.",
  note="Trusted: Coq kernel; IAVL root hash = function of the ordered tree-operation sequence (checked by requiring identical sequences and hashes on two replicas); Go's sort.Sort correct; go-ethereum trie deterministic. The wall clock is used only in Info for a fresh node and by CheckTx. No axioms.",
  technique="Rocq proofs of oracle-independence (commit order, sort uniqueness) + two-replica differential incl. hook-recorded tree operations",
  ref="DESIGN.md section 7 C01"),
 "C06": dict(
  text="C06_holds (Props/C06.v): for EVERY schedule interleaving arbitrary CheckTx and Query calls with the consensus calls at ABCI-call granularity, every answer to a consensus call (BeginBlock/DeliverTx/EndBlock results, ledgers written by Commit) and the consensus-side state are those of the consensus calls alone (Node.v: consensus state paired with the mempool-side state that CheckTx alone can change). That the code has this structure is what the quiet-vs-noisy differential checks on every run: each history is executed again on a second real node with CheckTx (transactions of this and later blocks, bit-flipped copies) and Query calls injected at every call boundary. The shared stake limiter that broke this was repaired by fix cef0175.",
  note="Trusted: Coq kernel; Node.v's split of the state (tied by the differential; before the fix it fails with 'StakeLimiter's power object is not equal'); calls are serialised by the application mutex. No axioms.",
  technique="Rocq non-interference proof over all interleavings + quiet-vs-noisy replica differential",
  ref="DESIGN.md section 7 C06"),
 "C08": dict(
  text="The full statement is FALSE of the code and is recorded as ten known findings (KNOWN_FINDINGS.txt, keys crash-after:<store>): C08_refuted proves on the version-vector model Crash.v that for every block every crash point strictly between the first ledger save and the block-context record leaves stores from which the replay of the interrupted block panics. C08_partial_before / C08_partial_after: a crash anywhere before Commit's first durable write, or after the block context is written, recovers (Info reports the last committed resp. the interrupted block). Every run snapshots a real node's data directory mid-block, before Commit and after EVERY durable write (verif hook), starts a real node on each snapshot, replays and continues, and compares the outcome (recovers / which panic) with the model's prediction; a non-recovering point outside the ten listed ones is a violation.",
  note="Trusted: Coq kernel; Crash.v abstracts stores to version numbers (tied by the experiment); 'process death' only (no power loss: IAVL writes are not synced); recovery as Tendermint's handshake is played by the harness. Not repaired: needs an atomic multi-store commit or roll-back on open.",
  technique="Rocq proof on a store-version model (partial + refutation) + fault enumeration of every durable-write crash point on the real node",
  ref="DESIGN.md section 7 C08"),
 "C15": dict(
  text="C15_holds (Props/C15.v): over EVERY run from a genesis, whenever a commit changes the active parameters the new set is merge(old, document of the major option) of a governance proposal whose major option held the most votes and at least floor(2*total/3), its votes being the summed powers of recorded voters currently choosing it, and the stored parameters equal the new active ones; C15_only_at_commit / C15_not_before_applying_height (no other moment, not before the applying height, from the committed frozen tree); C15_submission / C15_submitter_is_validator (only a current validator; voter table = validator set of that moment); C15_voting (recorded voter, valid option, inside the window; replaces the earlier choice); C15_tallies (tally and 2/3 invariants of all open/frozen proposals over all runs); C15_merge (all 19 fields); C15_active_equals_stored. Tie: Spec.v run on the real node's histories (proposal and parameter queries, gov transaction results) + trace predicate P_C15.",
  note="Trusted: Coq kernel; Spec.v (tied by differential runs); JSON option documents reach the model parsed. Voter weights shrink under slashing (C14). No axioms.",
  technique="Rocq invariants over all runs (tally, majority, parameter provenance) + Spec-vs-RigoApp correspondence and trace predicate",
  ref="DESIGN.md section 7 C15"),
 "C19": dict(
  text="C19_holds (Props/C19.v): the answer for an already committed height never changes, whatever follows — later blocks, a block in progress, mempool checks, other queries — because committed versions are only appended (C18 history immutability at ledger level); C19_pure: serving a query changes nothing; C19_beyond_latest: heights above the latest are refused. 'The answer for height h is the state committed by block h' is part of the Spec-vs-RigoApp correspondence: the compared projections ARE historical queries asked at the end of the run. Every run also re-executes each history on a real node that is asked all paths for sampled (key, height) pairs between blocks, mid-block, after later blocks and after a restart: the first answer is remembered and every later one must equal it (as JSON values), height 0 must mean the latest committed height.",
  note="Trusted: Coq kernel; Node.v/Spec.v (tied by differential runs); answers compared as JSON values (tmjson writes map members in iteration order). stakes/voting_power and vm_call are outside the property's list. No axioms.",
  technique="Rocq proof (committed versions append-only => query answers immutable) + repeated-query stability run on the real node",
  ref="DESIGN.md section 7 C19"),
 "C13": dict(
  text="C13_holds (Props/C13.v): over every run from a genesis an account's withdrawable reward equals everything issued to it minus everything it withdrew (no-wrap hypotheses stated); C13_issuance / C13_issuance_exact: in every block exactly the owners of stakes bonded, in the ledger version consensus derived the powers from (max(1,h-4)), to validators that signed and are recorded there with the power they voted with receive power x rewardPerPower per stake, every other record is untouched and the issued total is the sum; C13_withdraw_bounded / C13_withdraw_exact: a withdrawal succeeds only up to the withdrawable amount and credits exactly the requested amount; C13_other_tx/end_block/commit: nothing else touches the reward ledger. Tie: Spec.v on the real node's histories (issued totals, reward records, balances) + trace predicate P_C13, which also REQUIRES that a signing validator's recorded power equals its voting power (where the code silently pays nothing otherwise). Known finding (not repaired): staking to a genesis validator in block 1 withholds its rewards in blocks 2-4. Fixed: block-4 issuance read the latest version (26d7b57).",
  note="Trusted: Coq kernel; Spec.v (tied by differential runs); consensus_ok (votes as Tendermint derives them, simulated by the harness); supply bound for the non-modular forms. No axioms.",
  technique="Rocq proofs (issuance formula, ledger identity over all runs, withdrawal exactness) + Spec-vs-RigoApp correspondence and trace predicate",
  ref="DESIGN.md section 7 C13"),
 "C14": dict(
  text="C14_holds (Props/C14.v): BeginBlock changes nothing but what the evidence and the missed votes of the block prescribe: accounts, frozen proposals, parameters and control state unchanged, proposals only by the governance-side punishment, delegatees and unbonding stakes only by the staking-side punishment and by jailing; C14_slash: per evidence item every stake keeps power - floor(power*ratio/100) or is forfeited when that floor is < 1, totals recomputed, identity and order of remaining stakes unchanged; C14_stake_frame / C14_gov_frame / C14_voter: once per item, unknown validators change nothing, every other delegatee / proposal / voter untouched, voter weight shrinks by the same floor with re-cast choice and recomputed total/majority; C14_jail with C14_marks_increasing: all stake moves to unbonding IFF signed blocks in the window fall below the minimum, otherwise only the miss record changes. C14_dup_hash_refuted shows the distinct-hash hypothesis is needed. Tie: Spec.v on the real node's histories (delegatees, unbonding stakes, proposals) + trace predicate P_C14.",
  note="Trusted: Coq kernel; Spec.v (tied by differential runs); stake hashes distinct within a delegatee, powers < 2^63, ratio in [0,100]. No axioms.",
  technique="Rocq proofs (slash arithmetic, frame conditions, jailing rule) + Spec-vs-RigoApp correspondence and trace predicate",
  ref="DESIGN.md section 7 C14"),
 "C17": dict(
  text="PARTIAL (the interpreter is go-ethereum's). C17_wrapper_refines_reference(_tx) (Props/C17.v): for EVERY sequence of StateDB interface calls obeying the Berlin access-list discipline, issued after Snapshot-then-Prepare, with arbitrary stale EVM-side balances/nonces, every balance/nonce read through the StateDBWrapper returns what a reference world initialised with the native ledger returns (simulation invariant relating the wrapper's snapshot tags to go-ethereum's journal revisions); C17_tx_success / C17_finish_syncs_out / C17_finish_order_irrelevant: after Finish the native ledger equals the reference world's balances and nonces on every touched address, unchanged elsewhere, independent of map iteration order; C17_top_level_revert_no_effect: the failure path leaves the native ledger unchanged; C17_wrapper_refuted_without_snapshot: with Prepare before Snapshot updates are lost (the order the read-only call uses, harmless there). Tie: the real wrapper over a real go-ethereum StateDB and account controller on generated call sequences vs model and reference world; and whole transactions (generated bytecode: storage, value forwarding, nested reverts, CREATE, SELFDESTRUCT, logs, BALANCE; transfers to contracts; low gas) through RigoApp vs a reference EVM: outcome, return data, gas, logs, balances, nonces, code, storage; read-only calls leave state unchanged. Two defects found and repaired (65a371c, 19bb928).",
  note="Trusted: Coq kernel; go-ethereum v1.10.23 interpreter, journal and trie; EvmWrap.v as a model of statedb.go (tied by differential runs); the access-list discipline of geth's call sites (read off the source, listed in EvmWrapProofs.v). Failed contract transactions are undone completely (C05), so gas is compared for successful executions only. No axioms.",
  technique="Rocq refinement proof wrapper -> reference world over all disciplined call sequences + wrapper-level and transaction-level differential against go-ethereum",
  ref="DESIGN.md section 7 C17"),
 "C03": dict(
  text="Props/C03.v: RLP encoding is injective (prefix-free) on items below 2^64 bytes; the field->RLP map of a transaction is injective on decoded transactions of all eight types (bit-cast integer fields included); the signing preimage determines chain id and all signed fields for every chain id not containing ') Signed Message:\\n' (C03_chainid_hypothesis_needed exhibits the collision otherwise); C03_holds: with idealised signature recovery and hashing stated as hypotheses, a signature made for (chain0, tx0) by key k verifies for (chain, tx) only if nothing was altered and tx.From is k's address. The model's preimage is compared byte for byte with the real PreImageToSignTrxRLP on generated vectors, and every single-field alteration of honestly signed transactions is passed to the real VerifyTrxRLP. The no-effect half of the statement is C05; delivery of tampered transactions is exercised by the application-level checks.",
  note="Trusted: Coq kernel; Rlp.v/Preimage.v as a model of go-ethereum rlp + trx.go encoders (tied byte for byte on generated vectors); ECDSA/SHA-256 idealised as explicit hypotheses; chain-id hypothesis; payload kind determined by Type (true of both wire decoders). No axioms.",
  technique="Rocq proof of RLP/preimage injectivity + symbolic signatures; byte-exact correspondence with PreImageToSignTrxRLP; alteration probe on VerifyTrxRLP",
  ref="DESIGN.md section 7 C03"),
}

PENDING = "pending: check under construction in this session (Rocq model + correspondence); will be claimed when it lands"


def main():
    props = [json.loads(l) for l in open(os.path.join(VERIF, "properties.jsonl"))]
    m = {
     "version": 1,
     "setup_cmd": "cd /verif && ./setup.sh",
     "hooks": {"guard": "verif",
               "enable": "go build -tags verif (the harness module /verif/harness replaces github.com/rigochain/rigo-go by /repo, so every check rebuilds from /repo's working tree)",
               "baseline_off_cmd": "cd /repo && go test -vet=off -count=1 -timeout 40m ./...",
               "source_commits": ["6f51656", "2523a73"], "add_only": True},
     "engines": [{"name": ENGINE, "path": "/verif/check", "serves_properties": sorted(CLAIMS),
                  "kind_free_text": "Coq 8.16.1 theorems about a hand-written Gallina model; the model is tied to /repo on every run by evaluating it (vm_compute) on the operation sequences the Go harness just ran on the real code, and the property predicate shared with the theorem is evaluated on the implementation's observations"}],
     "checks": [], "not_applicable": [],
     "notes": "See DESIGN.md. Properties listed under not_applicable with reason 'pending' are being built and will be claimed as their checks land.",
    }
    for p in props:
        pid = p["id"]
        if pid in CLAIMS:
            c = CLAIMS[pid]
            m["checks"].append({
             "property_id": pid, "quick_cmd": "./check %s --tier quick" % pid, "thorough_cmd": "./check %s --tier thorough" % pid,
             "evidence_file": "/verif/evidence/%s.json" % pid, "replay_cmd_template": "./check %s --replay {path}" % pid,
             "engine": ENGINE,
             "level_claimed": {"category": "proof", "text": c["text"], "design_ref": c["ref"]},
             "level_note": c["note"], "technique": c["technique"]})
        else:
            m["not_applicable"].append({"property_id": pid, "reason": PENDING})
    json.dump(m, open(os.path.join(VERIF, "MANIFEST.json"), "w"), indent=1)


if __name__ == "__main__":
    main()
