#!/usr/bin/env python3
"""regenerates /verif/MANIFEST.json from the table below (kept in one place so that the
manifest stays valid and in step with what is actually built)"""
import json, os
VERIF = os.path.dirname(os.path.dirname(os.path.abspath(__file__)))
ENGINE = "rocq-proof+correspondence"

CLAIMS = {
 "C20": dict(
  text="C20_holds (Props/C20.v): for EVERY sequence of vote/proposal signing requests, answers lost after the state file was written, and reloads, the released signatures at one height/round/step cover one message and the HRS of successive released signatures never decreases; C20_durable: the last-sign record is on disk whenever control is outside the signer; C20_replay: a repeated request gets the original signature. Proved by induction over operation lists on Signer.v, a hand model of sfile_pv.go; the model is evaluated in Coq on every request sequence the harness just ran on the real SFilePV (with LoadSFilePV between requests) and the shared predicate P_C20 is evaluated on the implementation's answers.",
  note="Trusted: Coq kernel; the hand-written model Signer.v (tied by differential runs, bounded by generator quality); secp256k1 and tendermint canonical sign-bytes encoding; atomicity of tempfile.WriteFileAtomic. No axioms (Print Assumptions: closed).",
  technique="Rocq proof by induction over request/reload/crash sequences + model-vs-SFilePV correspondence (vm_compute)",
  ref="DESIGN.md section 7 C20"),
 "C18": dict(
  text="C18_ledger_refines (Props/C18.v): for EVERY finite sequence of set/get/delete/cancel/iterate/commit/historical-read/reopen operations on both overlays the concrete ledger model (the Go containers gotItems/updatedItems/removedKeys of both overlays, with duplicates in removedKeys, read-through caching, DelFinality's side effect on the mempool overlay, remove-then-set commit in descending key order) produces the observations of the abstract versioned store LedgerSpec (committed versions + per-overlay pending delete count / pending write), by a simulation relation; corollaries: mempool-overlay operations never change any consensus-side result and are discarded by commit, commit persists exactly what GetFinality returned as version+1, history is immutable across later commits and reopen, the tree operations of a commit are independent of map iteration order. C18_ledger_buggy_refuted shows the pre-fix get order violates the spec. Every run drives two real FinalityLedger instances on generated sequences and compares each return value with the abstract store (the property) and with the concrete model including the hook-recorded tree-operation order; root hashes of the two instances must agree.",
  note="Trusted: Coq kernel; Ledger.v as a model of ledger/*.go (tied on every run by differential runs incl. tree-op order via the verif hook); IAVL/goleveldb modelled as immutable versioned maps. No axioms. The defect found (set-after-delete invisible until commit) was repaired by fix commit 64edcb9; the model follows the repaired code.",
  technique="Rocq refinement proof (simulation) ledger model -> overlay-map spec over all op sequences + model/spec-vs-FinalityLedger correspondence",
  ref="DESIGN.md section 7 C18"),
 "C04": dict(
  text="C04_holds (Props/C04.v): in ANY history of the abstract application (any start state, any sequence of BeginBlock/DeliverTx/EndBlock/Commit incl. duplicates and replays in later blocks) two successful deliveries never carry the same (sender, nonce), as long as nonces stay below 2^64-1; from C04_step (success only with the sender's current nonce, which then moves by exactly one and nobody else's moves), C04_fail (failed deliveries move no nonce) and C04_begin/end/commit (block processing moves no nonce); EVM path under the stated effect contract. The model Spec.v is run in Coq on every history the harness executed on the real RigoApp (responses and committed nonces/balances compared) and the trace predicate P_C04 (k-th success of a sender in a block carries committed nonce + k; committed nonce moves by the number of successes) is evaluated on the implementation's and the model's observations.",
  note="Trusted: Coq kernel; Spec.v as a model of node/app.go, trx_executor.go and the controllers (tied by differential runs on generated histories, bounded by generator quality); signature check summarised by a flag (byte level: C03); EVM nonce behaviour is go-ethereum's (hypothesis evm_effect_nonce_ok). No axioms.",
  technique="Rocq proof: nonce monotonicity invariant over operation lists + Spec-vs-RigoApp correspondence and trace predicate (vm_compute)",
  ref="DESIGN.md section 7 C04"),
 "C05": dict(
  text="C05_holds (Props/C05.v): for every state and every transaction of the abstract application, a delivery that fails leaves every balance, nonce, name/document, code marker, bonded and unbonding stake, reward, proposal, vote and parameter, the block fee sum, the stake limiter and all control state exactly as they were (same_obs/same_ctl); hypotheses: Go type ranges, governance gas price < 2^192, balance + withdrawable reward < 2^256 — C05_price_bound_needed and C05_headroom_needed prove by witness that both are necessary (outside them a failed delivery does leave changes). Proved by showing that all validation precedes execution and that validated execution cannot fail. Tie: Spec.v run in Coq on the real node's histories (all observables compared) and fork-and-delete on the implementation: every history is re-executed on a second real node without its failed transactions and every remaining answer and committed projection must be identical.",
  note="Trusted: Coq kernel; Spec.v (tied by differential runs); an empty receiver account left by a failed delivery is identified with an absent one (documented caveat: with gas price 0 a later transaction from that address could tell). EVM failures revert in go-ethereum (trusted). No axioms.",
  technique="Rocq proof (validation-before-execution, validated execution cannot fail) + Spec-vs-RigoApp correspondence + fork-and-delete differential on the implementation",
  ref="DESIGN.md section 7 C05"),
 "C03": dict(
  text="Props/C03.v: RLP encoding is injective (prefix-free) on items below 2^64 bytes; the field->RLP map of a transaction is injective on decoded transactions of all eight types (bit-cast integer fields included); the signing preimage determines chain id and all signed fields for every chain id not containing ') Signed Message:\\n' (C03_chainid_hypothesis_needed exhibits the collision otherwise); C03_holds: with idealised signature recovery and hashing stated as hypotheses, a signature made for (chain0, tx0) by key k verifies for (chain, tx) only if nothing was altered and tx.From is k's address. The model's preimage is compared byte for byte with the real PreImageToSignTrxRLP on generated vectors, and every single-field alteration of honestly signed transactions is passed to the real VerifyTrxRLP. The no-effect half of the statement is C05; delivery of tampered transactions is exercised by the application-level checks.",
  note="Trusted: Coq kernel; Rlp.v/Preimage.v as a model of go-ethereum rlp + trx.go encoders (tied byte for byte on generated vectors); ECDSA/SHA-256 idealised as explicit hypotheses; chain-id hypothesis; payload kind determined by Type (true of both wire decoders). No axioms.",
  technique="Rocq proof of RLP/preimage injectivity + symbolic signatures; byte-exact correspondence with PreImageToSignTrxRLP; alteration probe on VerifyTrxRLP",
  ref="DESIGN.md section 7 C03"),
}

PENDING = "pending: check under construction in this session (Rocq model + correspondence); will be claimed when it lands"


def main():
    props = [json.loads(l) for l in open(os.path.join(VERIF, "properties.jsonl"))]
    m = {
     "version": 1,
     "setup_cmd": "cd /verif && ./setup.sh",
     "hooks": {"guard": "verif",
               "enable": "go build -tags verif (the harness module /verif/harness replaces github.com/rigochain/rigo-go by /repo, so every check rebuilds from /repo's working tree)",
               "baseline_off_cmd": "cd /repo && go test -vet=off -count=1 -timeout 40m ./...",
               "source_commits": ["6f51656"], "add_only": True},
     "engines": [{"name": ENGINE, "path": "/verif/check", "serves_properties": sorted(CLAIMS),
                  "kind_free_text": "Coq 8.16.1 theorems about a hand-written Gallina model; the model is tied to /repo on every run by evaluating it (vm_compute) on the operation sequences the Go harness just ran on the real code, and the property predicate shared with the theorem is evaluated on the implementation's observations"}],
     "checks": [], "not_applicable": [],
     "notes": "See DESIGN.md. Properties listed under not_applicable with reason 'pending' are being built and will be claimed as their checks land.",
    }
    for p in props:
        pid = p["id"]
        if pid in CLAIMS:
            c = CLAIMS[pid]
            m["checks"].append({
             "property_id": pid, "quick_cmd": "./check %s --tier quick" % pid, "thorough_cmd": "./check %s --tier thorough" % pid,
             "evidence_file": "/verif/evidence/%s.json" % pid, "replay_cmd_template": "./check %s --replay {path}" % pid,
             "engine": ENGINE,
             "level_claimed": {"category": "proof", "text": c["text"], "design_ref": c["ref"]},
             "level_note": c["note"], "technique": c["technique"]})
        else:
            m["not_applicable"].append({"property_id": pid, "reason": PENDING})
    json.dump(m, open(os.path.join(VERIF, "MANIFEST.json"), "w"), indent=1)


if __name__ == "__main__":
    main()
